#!/venv/bin/python
"""Single entry point of every registered check.

    run_check.py <ID> [--tier quick|thorough] [--replay FILE] [--only SUBCHECK] [--procs N]

exit 0  property held on everything explored (known findings listed as KNOWN-FINDING lines)
exit 1  at least one violation not listed in known_findings.json (VIOLATION lines)
exit 2  harness error / inconclusive (never a violation)
"""
import argparse
import glob
import importlib
import json
import os
import sys
import time
import traceback

HERE = os.path.dirname(os.path.abspath(__file__))


def _reexec_with_fixed_hashseed():
    if os.environ.get("PYTHONHASHSEED") != "0":
        env = dict(os.environ)
        env["PYTHONHASHSEED"] = "0"
        env["PYTHONDONTWRITEBYTECODE"] = "1"
        env.setdefault("OMP_NUM_THREADS", "1")
        env.setdefault("OPENBLAS_NUM_THREADS", "1")
        os.execve(sys.executable, [sys.executable] + sys.argv, env)


def main():
    ap = argparse.ArgumentParser()
    ap.add_argument("prop")
    ap.add_argument("--tier", default=os.environ.get("VERIF_TIER", "quick"), choices=["quick", "thorough"])
    ap.add_argument("--replay")
    ap.add_argument("--only", action="append")
    ap.add_argument("--procs", type=int, default=int(os.environ.get("VERIF_PROCS", "16")))
    ap.add_argument("--scale", type=float, default=float(os.environ.get("VERIF_SCALE", "1")))
    args = ap.parse_args()
    _reexec_with_fixed_hashseed()
    sys.path.insert(0, HERE)
    try:
        seed = int(os.environ.get("VERIF_SEED", "1") or "1")
    except ValueError:
        seed = 1
    prop = args.prop.upper()
    t0 = time.time()
    try:
        from vlib import env, harness
        env.import_chempy()
        mod = importlib.import_module("props.%s" % prop.lower())
        if args.replay:
            return do_replay(mod, args.replay, harness)
        return do_run(mod, args, seed, t0, harness)
    except Exception as e:  # noqa
        from vlib.env import HarnessError
        kind = "HARNESS-ERROR" if isinstance(e, HarnessError) else "HARNESS-ERROR(unexpected)"
        sys.stdout.write("%s property=%s\n%s\n" % (kind, prop, "".join(traceback.format_exception(type(e), e, e.__traceback__))))
        return 2


def do_replay(mod, path, harness):
    with open(path) as fh:
        body = json.load(fh)
    v, ctx = harness.replay_case(mod, body["subcheck"], body["case"])
    if v is None:
        print("replay %s: property held (known findings hit: %s)" % (path, ctx.excluded_known or "none"))
        for k in ctx.excluded_known:
            print("KNOWN-FINDING: property=%s %s" % (mod.PROPERTY, k))
        return 0
    print("replay %s: clause=%s detail=%s" % (path, v.clause, harness.short(v.detail, 800)))
    print("VIOLATION property=%s replay=%s" % (mod.PROPERTY, os.path.abspath(path)))
    return 1


def _worker(task):
    from vlib import harness
    try:
        return harness.run_subcheck_shard(*task)
    except Exception as e:  # noqa
        return {"harness_error": "".join(traceback.format_exception(type(e), e, e.__traceback__)), "subcheck": task[1]}


def do_run(mod, args, seed, t0, harness):
    prop = mod.PROPERTY
    tier = args.tier
    known = harness.KnownFindings(prop)
    subs = [s for s in mod.SUBCHECKS if not args.only or s.name in args.only]
    # quick budgets were sized while the machine was heavily loaded; on an idle 16-core machine every property finishes
    # in 5-25 s, so the quick tier runs twice the per-sub-check budget (C07/C08, the slowest, keep theirs): still
    # well under a minute each
    qscale = args.scale * (1 if prop in ("C07", "C08") else 2)
    for s in subs:
        s.quick = int(s.quick * qscale)
        s.thorough = int(s.thorough * args.scale)

    violations = []
    per_sub = {}
    known_hits = {}

    # 1. regression corpus (committed replays), plain re-execution
    corpus = sorted(glob.glob(os.path.join(harness.CORPUS_DIR, prop, "*.json")))
    n_corpus = 0
    for path in corpus:
        with open(path) as fh:
            body = json.load(fh)
        if args.only and body["subcheck"] not in args.only:
            continue
        if body["subcheck"] not in [s.name for s in mod.SUBCHECKS]:
            continue
        v, ctx = harness.replay_case(mod, body["subcheck"], body["case"], known)
        n_corpus += 1
        for k, n in ctx.excluded_known.items():
            known_hits[k] = known_hits.get(k, 0) + n
        if v is not None:
            violations.append({"subcheck": body["subcheck"], "clause": v.clause, "detail": v.detail,
                               "case": body["case"], "path": path})

    # 2. enumerations + generated search
    tasks = []
    for s in subs:
        nsh = 1
        total = s.quick if tier == "quick" else s.thorough
        if s.parallel:
            if tier == "thorough":
                nsh = args.procs
            else:
                nsh = max(1, min(4, args.procs, total // 50 if total else 4))
        for sh in range(nsh):
            tasks.append(("props.%s" % prop.lower(), s.name, tier, seed, sh, nsh, ()))
    results = []
    if args.procs <= 1 or len(tasks) == 1:
        results = [_worker(t) for t in tasks]
    else:
        import multiprocessing as mp
        with mp.get_context("fork").Pool(min(args.procs, len(tasks))) as pool:
            results = pool.map(_worker, tasks, chunksize=1)
    for r in results:
        if "harness_error" in r:
            print("HARNESS-ERROR property=%s subcheck=%s\n%s" % (prop, r["subcheck"], r["harness_error"]))
            return 2

    digests_all = set()
    total_eval = 0
    samples = []
    for s in subs:
        rs = [r for r in results if r["subcheck"] == s.name]
        dig = set()
        labels = {}
        ek = {}
        ev = 0
        inc = 0
        smp = []
        for r in rs:
            b = r["digests"]
            dig.update(b[i:i + 8] for i in range(0, len(b), 8))
            for k, n in r["labels"].items():
                labels[k] = labels.get(k, 0) + n
            for k, n in r["excluded_known"].items():
                ek[k] = ek.get(k, 0) + n
                known_hits[k] = known_hits.get(k, 0) + n
            ev += r["evaluations"]
            inc += r["inconclusive"]
            for c in r["samples"]:
                if c not in smp and len(smp) < 4:
                    smp.append(c)
            for v in r["violations"]:
                violations.append(v)
        per_sub[s.name] = {
            "evaluations": ev, "distinct_nontrivial": len(dig), "labels": dict(sorted(labels.items())),
            "excluded_known": ek, "inconclusive": inc, "rule": s.rule,
            "exhaustive": (bool(rs and all(r["exhaustive"] for r in rs)) if s.enumerate is not None else False),
            "tolerances": s.tolerances, "wall_s": round(max([r["wall_s"] for r in rs] or [0]), 2),
            "shards": len(rs),
        }
        digests_all.update((s.name.encode() + d) for d in dig)
        total_eval += ev
        for c in smp[:3]:
            samples.append({"subcheck": s.name, "case": c})

    # 3. report
    seen = set()
    lines = []
    nviol = 0
    for v in violations:
        key = (v["subcheck"], v["clause"])
        if key in seen:
            continue
        seen.add(key)
        nviol += 1
        path = v.get("path") or harness.write_replay(prop, v, seed, tier)
        print("violation: subcheck=%s clause=%s detail=%s case=%s" % (
            v["subcheck"], v["clause"], harness.short(v["detail"], 600), harness.short(v["case"], 600)))
        lines.append("VIOLATION property=%s replay=%s" % (prop, path))
    for e in known.open:
        key = e.get("id", e.get("what", "?"))
        print("KNOWN-FINDING: property=%s %s: %s (seen %d times in this run)" % (prop, key, e.get("what", ""), known_hits.get(key, 0)))

    wall = time.time() - t0
    level = getattr(mod, "LEVEL", "exploration")
    cov = {
        "evaluations": total_eval + n_corpus,
        "distinct_nontrivial": len(digests_all),
        "rule": mod.RULE,
        "samples": samples,
        "exhaustive": False,
        "corpus_replayed": n_corpus,
        "subchecks": per_sub,
        "known_findings_hit": known_hits,
    }
    if level == "translation_validation":
        cov["programs"] = sum(per_sub[n]["evaluations"] for n in per_sub)
        cov["disagreements_checked"] = sum(
            sum(v for k, v in per_sub[n]["labels"].items() if k.startswith("cmp:")) for n in per_sub)
    evid = {
        "property_id": prop, "tier": tier, "seed": seed, "level": level, "coverage": cov,
        "assumptions": list(getattr(mod, "ASSUMPTIONS", [])), "wall_s": round(wall, 2), "violations": nviol,
    }
    from vlib import env as _env
    evid_dir = harness.EVID_DIR
    if _env.REPO != "/repo":   # self-test against a scratch copy: never overwrite the evidence of /repo
        evid_dir = os.path.join(_env.VERIF_DIR, "out", "selftest_evidence")
    os.makedirs(evid_dir, exist_ok=True)
    if not args.only:
        with open(os.path.join(evid_dir, "%s.json" % prop), "w") as fh:
            fh.write(json.dumps(json.loads(harness.canon(evid)), indent=1, sort_keys=True))
    print("%s tier=%s seed=%d evaluations=%d distinct_nontrivial=%d violations=%d wall=%.1fs" % (
        prop, tier, seed, cov["evaluations"], cov["distinct_nontrivial"], nviol, wall))
    for n, ps in per_sub.items():
        print("  %-14s eval=%-7d nontrivial=%-7d inconclusive=%-4d known=%s %.1fs" % (
            n, ps["evaluations"], ps["distinct_nontrivial"], ps["inconclusive"], ps["excluded_known"] or "-", ps["wall_s"]))
    for ln in lines:
        print(ln)
    sys.stdout.flush()
    return 1 if nviol else 0


if __name__ == "__main__":
    sys.exit(main())

"""Make sure the chempy under test is the working tree, not the installed copy.

Importing this module (before anything imports chempy) puts $VERIF_REPO
(default /repo) first on sys.path and verifies, after import, that chempy was
loaded from there.  chempy is pure Python: "rebuilding from the working tree"
is this import.
"""
import os
import sys
import warnings

VERIF_DIR = os.path.dirname(os.path.dirname(os.path.abspath(__file__)))
REPO = os.path.abspath(os.environ.get("VERIF_REPO", "/repo"))
DEPS = os.path.join(VERIF_DIR, ".deps")

sys.dont_write_bytecode = True
if REPO in sys.path:
    sys.path.remove(REPO)
sys.path.insert(0, REPO)
if os.path.isdir(DEPS) and DEPS not in sys.path:
    sys.path.append(DEPS)

# the guard is declared in MANIFEST.hooks; no hook exists, but checks run with it on
os.environ.setdefault("CHEMPY_VERIF", "1")

# chempy / pyparsing / pulp / quantities emit deprecation noise unrelated to any property
warnings.filterwarnings("ignore", category=DeprecationWarning)
warnings.filterwarnings("ignore", category=PendingDeprecationWarning)


class HarnessError(Exception):
    """A defect of the verification machinery (exit 2), never a violation."""


def import_chempy():
    try:
        import chempy
    except Exception as e:  # the tree does not even import: every property is undecidable
        raise HarnessError("cannot import chempy from %s: %r" % (REPO, e))
    f = os.path.abspath(chempy.__file__)
    if not f.startswith(REPO + os.sep):
        raise HarnessError("chempy imported from %s, expected under %s" % (f, REPO))
    return chempy

# -*- coding: utf-8 -*-
"""C06 helpers: reaction systems written as text (JSON-able description), their reference kinetics and the
exact solutions used as oracle.  Nothing here calls chempy.

System description (shared by the 'net' and 'bimol' sub-checks)
    {"species": [{"key": "C2H4*", "comp": {"1": 4, "6": 2}}, ...],    # comp: Z -> count, "0" -> signed charge
     "subst": {"mode": "none" | "list" | "str" | "explicit", "order": [permutation of species indices]},
     "rxns":  [{"reac": [[i, n], ...], "prod": [[j, n], ...], "k": float, "style": 0|1|2, "swap": bool,
                "inact": [[j, n], ...]            # optional: inactive (zeroth-order) co-reactants, written "(n Y)"
                }, ...],
     "comment": bool,
     "c0": [float >= 0 per species], "t0": float, "times": [increasing floats > t0],
     "c0_euler": [float >= 0 per species],      # optional second state at which only the Euler-step clause is judged
     "builder": {"dep_scaling": s, "indep_scaling": u}   # optional: get_odesys(rsys, SymbolicSys=ScaledSys, ...); the
     }                                                  #   physical system, hence every expected value, is unchanged

Reference semantics (law of mass action, computed with Fractions from the description only):
    rate_j = k_j * prod_i c_i**reac_ij ;  dc_i/dt = sum_j (prod_ij - reac_ij - inact_ij) * rate_j
(an inactive co-reactant is consumed but does not enter the rate; a species may occur on both sides of a reaction).
"""
from fractions import Fraction
import math

from hypothesis import strategies as st

# own small element table (symbol, Z); formulas below use only these
ELEMENTS = [("H", 1), ("C", 6), ("N", 7), ("O", 8), ("S", 16), ("Cl", 17)]
SYM_OF_Z = {z: s for s, z in ELEMENTS}
# i-th species with the same composition gets the i-th decoration (all are "same composition" writings of the
# formula grammar: primes, phase suffixes, greek prefixes)
# (prefix, primes on the last term - written before the charge -, phase suffix after the charge): grammar G1
DECOR = [("", "", ""), ("", "*", ""), ("", "'", ""), ("", "", "(g)"), ("", "", "(aq)"), ("alpha-", "", ""),
         ("", "", "(l)"), ("", "**", ""), ("beta-", "", ""), ("", "", "(s)"), ("", "''", ""), ("gamma-", "", ""),
         ("", "*", "(g)"), ("", "'", "(aq)"), ("alpha-", "*", ""), ("beta-", "'", "")]


# ---------------------------------------------------------------------------------------------------------
# text
# ---------------------------------------------------------------------------------------------------------

def formula_text(comp, isomer):
    """comp: {Z(int): count, 0: charge}; isomer: index of the writing variant."""
    s = ""
    for z in sorted(k for k in comp if k != 0):
        n = comp[z]
        s += SYM_OF_Z[z] + (str(n) if n != 1 else "")
    pre, primes, suf = DECOR[isomer]
    s += primes
    q = comp.get(0, 0)
    if q:
        s += ("+" if q > 0 else "-") + (str(abs(q)) if abs(q) != 1 else "")
    return pre + s + suf


def _side(pairs, keys, style):
    out = []
    for i, n in pairs:
        if n == 1:
            out.append(keys[i])
        elif style == 0:
            out.append("%d %s" % (n, keys[i]))
        elif style == 1:
            out.append("%d * %s" % (n, keys[i]))
        else:
            out.extend([keys[i]] * n)
    return " + ".join(out)


def _inact_side(pairs, keys, style):
    """Inactive co-reactants: every group in its own pair of parentheses, '(Y)', '(2 Y)', '(2 * Y)' or '(Y) + (Y)'."""
    out = []
    for i, n in pairs:
        if n == 1:
            out.append("(%s)" % keys[i])
        elif style == 0:
            out.append("(%d %s)" % (n, keys[i]))
        elif style == 1:
            out.append("(%d * %s)" % (n, keys[i]))
        else:
            out.extend(["(%s)" % keys[i]] * n)
    return out


def _kstr(k):
    """Rate constant as written in the text: integral values below 10**6 as int literal, else repr(float)
    (both are read back exactly by Python's eval)."""
    return repr(int(k)) if (float(k).is_integer() and abs(k) < 1e6) else repr(float(k))


def system_text(sysd):
    keys = [s["key"] for s in sysd["species"]]
    lines = []
    if sysd.get("comment"):
        lines.append("# generated system")
        lines.append("")
    for r in sysd["rxns"]:
        reac = list(reversed(r["reac"])) if r.get("swap") else r["reac"]
        prod = list(reversed(r["prod"])) if r.get("swap") else r["prod"]
        lhs = _side(reac, keys, r.get("style", 0))
        groups = _inact_side(r.get("inact", []), keys, r.get("style", 0))
        if groups:      # after the active reactants, or (swap) before them
            lhs = " + ".join((list(reversed(groups)) + [lhs]) if r.get("swap") else ([lhs] + groups))
        lines.append("%s -> %s; %s" % (lhs, _side(prod, keys, r.get("style", 0)), _kstr(r["k"])))
    return "\n".join(lines)


# ---------------------------------------------------------------------------------------------------------
# reference model (exact)
# ---------------------------------------------------------------------------------------------------------

def comps(sysd):
    return [{int(z): int(n) for z, n in s["comp"].items()} for s in sysd["species"]]


def validate(sysd):
    """Generator/replay sanity: every reaction balanced, every species used, keys distinct."""
    cs = comps(sysd)
    n = len(cs)
    keys = [s["key"] for s in sysd["species"]]
    assert len(set(keys)) == n, "duplicate keys"
    used = set()
    seen = set()
    for r in sysd["rxns"]:
        tot = {}
        for sign, side in ((-1, r["reac"]), (-1, r.get("inact", [])), (1, r["prod"])):
            for i, m in side:
                assert 0 <= i < n and m >= 1
                used.add(i)
                for z, c in cs[i].items():
                    tot[z] = tot.get(z, 0) + sign * m * c
        assert all(v == 0 for v in tot.values()), "unbalanced reaction in description"
        sig = (tuple(sorted(map(tuple, r["reac"]))), tuple(sorted(map(tuple, r["prod"]))),
               tuple(sorted(map(tuple, r.get("inact", [])))))
        assert sig not in seen, "duplicate reaction"
        seen.add(sig)
        assert r["k"] > 0
    assert used == set(range(n)), "species without reaction"
    assert len(sysd["c0"]) == n and all(c >= 0 for c in sysd["c0"]) and any(c > 0 for c in sysd["c0"])
    ts = [sysd["t0"]] + list(sysd["times"])
    assert all(b > a for a, b in zip(ts, ts[1:])), "times not increasing"
    assert sorted(sysd["subst"]["order"]) == list(range(n))
    if sysd.get("c0_euler") is not None:
        assert len(sysd["c0_euler"]) == n and all(c >= 0 for c in sysd["c0_euler"])


def rates_exact(sysd, c):
    """c: list of Fractions.  Returns (f, abs_terms): f_i exact, abs_terms_i = sum of |terms| entering f_i."""
    n = len(sysd["species"])
    f = [Fraction(0)] * n
    a = [Fraction(0)] * n
    for r in sysd["rxns"]:
        rate = Fraction(r["k"])
        for i, m in r["reac"]:
            rate *= c[i] ** m
        net = {}
        for i, m in r["reac"]:
            net[i] = net.get(i, 0) - m
        for i, m in r.get("inact", []):
            net[i] = net.get(i, 0) - m
        for i, m in r["prod"]:
            net[i] = net.get(i, 0) + m
        for i, m in net.items():
            f[i] += m * rate
            a[i] += abs(m) * rate
    return f, a


def element_totals(sysd, c):
    tot = {}
    for ci, comp in zip(c, comps(sysd)):
        for z, m in comp.items():
            if z != 0:
                tot[z] = tot.get(z, 0) + m * ci
    return tot


def elemental_bounds(sysd, c):
    """Upper bound of each concentration = min over its constituent elements of supply / atoms per molecule
    (inf for a species without elements)."""
    tot = element_totals(sysd, c)
    out = []
    for comp in comps(sysd):
        cand = [tot[z] / m for z, m in comp.items() if z != 0]
        out.append(min(cand) if cand else math.inf)    # no element (charge-only species such as e-): nothing bounds it
    return out


def scale(sysd, c):
    """S = largest elemental total: every admissible concentration is <= S."""
    tot = element_totals(sysd, c)
    return max(tot.values()) if tot else Fraction(0)


# ---------------------------------------------------------------------------------------------------------
# exact solution of linear networks: fixed-point integer scaling-and-squaring exp(A) with explicit error budget
# ---------------------------------------------------------------------------------------------------------

def linear_matrix(sysd, no_production_into=()):
    """dc/dt = M c of a first-order network.  An inactive co-reactant Y of a step with active reactant X contributes
    M[Y][X] -= n k (consumed at the rate of the step, which does not depend on [Y]).  `no_production_into`: species
    whose *formation* terms are left out (consumption-only variant used to size the supply of a reagent)."""
    n = len(sysd["species"])
    M = [[Fraction(0)] * n for _ in range(n)]
    for r in sysd["rxns"]:
        assert len(r["reac"]) == 1 and r["reac"][0][1] == 1, "not first order"
        i = r["reac"][0][0]
        k = Fraction(r["k"])
        M[i][i] -= k
        for j, m in r.get("inact", []):
            M[j][i] -= m * k
        for j, m in r["prod"]:
            if j not in no_production_into:
                M[j][i] += m * k
    return M


def foreign_reagents(sysd):
    """Species that are an inactive co-reactant of a step whose active reactant is another species."""
    out = set()
    for r in sysd["rxns"]:
        act = set(i for i, _ in r["reac"])
        out.update(j for j, _ in r.get("inact", []) if j not in act)
    return sorted(out)


def _matmul(A, B, n):
    return [[sum(A[i][l] * B[l][j] for l in range(n)) for j in range(n)] for i in range(n)]


def expm_fixed(A, guard=96):
    """exp(A) for a matrix of Fractions; returns (Y, P): integers Y_ij ~ exp(A)_ij * 2**P.

    A/2**j has inf-norm <= 2**-6; Taylor series until the term underflows; j squarings.  Every rounding is
    <= 1 unit of 2**-P per entry and a squaring at most doubles a relative error, so with P = guard + 2 j + 32 the
    result is accurate to ~2**-(guard) relative to the largest entry (verified against mpmath.expm at 60 digits in
    selfcheck())."""
    n = len(A)
    norm = max(sum(abs(x) for x in row) for row in A)
    j = 0
    if norm > 0:
        j = max(0, int(math.ceil(math.log2(float(norm) + 1e-300))) + 7)
    P = guard + 2 * j + 32
    one = 1 << P
    Afp = [[(x.numerator << P) // (x.denominator << j) for x in row] for row in A]
    T = [row[:] for row in Afp]
    Y = [[(one if i == l else 0) + Afp[i][l] for l in range(n)] for i in range(n)]
    k = 2
    while True:
        T = [[(v >> P) // k for v in row] for row in _matmul(T, Afp, n)]
        if all(v in (0, -1) for row in T for v in row):
            break
        Y = [[Y[i][l] + T[i][l] for l in range(n)] for i in range(n)]
        k += 1
    for _ in range(j):
        Y = [[v >> P for v in row] for row in _matmul(Y, Y, n)]
    return Y, P


def linear_solution(sysd):
    """[(t, [c_i(t)])] for every output time, as Fractions: c(t) = exp(M (t - t0)) c0."""
    M = linear_matrix(sysd)
    n = len(M)
    c0 = [Fraction(x) for x in sysd["c0"]]
    out = []
    for t in sysd["times"]:
        dt = Fraction(t) - Fraction(sysd["t0"])
        Y, P = expm_fixed([[x * dt for x in row] for row in M])
        out.append([sum(Fraction(Y[i][l], 1 << P) * c0[l] for l in range(n)) for i in range(n)])
    return out


# ---------------------------------------------------------------------------------------------------------
# exact solution of one bimolecular step (own closed form, mpmath 50 digits)
# ---------------------------------------------------------------------------------------------------------

def riccati_extent(alpha, beta, gamma, ts):
    """x(t) with x(0) = 0 solving dx/dt = alpha x^2 + beta x + gamma (alpha > 0, exact Fractions, discriminant >= 0).

    Roots r1 <= r2:  (x - r1)/(x - r2) = (r1/r2) exp(alpha (r1 - r2) t);  double root r: x = r - r/(alpha r t + 1)."""
    import mpmath
    with mpmath.workdps(60):
        def mpf(q):
            return mpmath.mpf(q.numerator) / mpmath.mpf(q.denominator)
        if gamma == 0:
            return [mpmath.mpf(0) for _ in ts]
        D = beta * beta - 4 * alpha * gamma
        assert D >= 0 and alpha > 0
        if D == 0:
            r = mpf(-beta / (2 * alpha))
            return [r - r / (mpf(alpha) * r * mpf(Fraction(t)) + 1) for t in ts]
        sq = mpmath.sqrt(mpf(D))
        r1 = (mpf(-beta) - sq) / (2 * mpf(alpha))
        r2 = (mpf(-beta) + sq) / (2 * mpf(alpha))
        out = []
        for t in ts:
            E = (r1 / r2) * mpmath.exp(mpf(alpha) * (r1 - r2) * mpf(Fraction(t)))
            out.append((r1 - E * r2) / (1 - E))
        return out


def bimol_kind(sysd):
    """'assoc' (A + B -> C), 'dimer' (2 A -> C), 'auto' (A + B -> 2 B: the product is one of the two reactants) or
    'cat' (A + C -> B + C: one reactant is returned unchanged), read from reaction 0 of the description."""
    fw = sysd["rxns"][0]
    reac = dict(map(tuple, fw["reac"]))
    prod = dict(map(tuple, fw["prod"]))
    if len(reac) == 1:
        return "dimer"
    common = sorted(set(reac) & set(prod))
    if not common:
        return "assoc"
    if len(prod) == 1:
        return "auto"
    return "cat"


def _check_reverse(sysd):
    fw = sysd["rxns"][0]
    kb = Fraction(0)
    assert len(sysd["rxns"]) <= 2
    if len(sysd["rxns"]) == 2:
        bw = sysd["rxns"][1]
        assert sorted(map(tuple, bw["reac"])) == sorted(map(tuple, fw["prod"]))
        assert sorted(map(tuple, bw["prod"])) == sorted(map(tuple, fw["reac"]))
        kb = Fraction(bw["k"])
    assert not any(r.get("inact") for r in sysd["rxns"])
    return Fraction(fw["k"]), kb


def bimol_solution(sysd):
    """Closed-form concentrations of one bimolecular step, optionally with its reverse reaction:

        A + B -> C,  2 A -> C        x' = kf (a0 - x)(b0 - x) - kb (p0 + x)   resp.  kf (a0 - 2x)^2 - kb (p0 + x)
        A + B -> 2 B  (autocatalytic, reverse 2 B -> A + B; logistic growth)
                                     x' = kf (a0 - x)(b0 + x) - kb (b0 + x)^2        (a = a0 - x, b = b0 + x)
        A + C -> B + C  (catalysed, reverse B + C -> A + C; [C] constant)
                                     a(t) = a_inf + (a0 - a_inf) exp(-(kf + kb) c0 t),  a_inf = kb (a0 + b0)/(kf + kb)

    The roles are read from the description: reaction 0 is the forward step, an optional reaction 1 its reverse."""
    import mpmath
    fw = sysd["rxns"][0]
    kf, kb = _check_reverse(sysd)
    kind = bimol_kind(sysd)
    c0 = [Fraction(x) for x in sysd["c0"]]
    ts = [Fraction(t) - Fraction(sysd["t0"]) for t in sysd["times"]]

    def mpf(q):
        return mpmath.mpf(q.numerator) / mpmath.mpf(q.denominator)

    if kind == "cat":
        assert len(fw["reac"]) == 2 and len(fw["prod"]) == 2 and all(m == 1 for _, m in fw["reac"] + fw["prod"])
        (ic,) = set(i for i, _ in fw["reac"]) & set(i for i, _ in fw["prod"])
        (ia,) = [i for i, _ in fw["reac"] if i != ic]
        (ib,) = [i for i, _ in fw["prod"] if i != ic]
        assert len({ia, ib, ic}) == 3
        a0, b0, cc = c0[ia], c0[ib], c0[ic]
        a_inf = kb * (a0 + b0) / (kf + kb)
        out = []
        with mpmath.workdps(60):
            for t in ts:
                a = mpf(a_inf) + mpf(a0 - a_inf) * mpmath.exp(-mpf((kf + kb) * cc * t))
                row = [None] * len(c0)
                row[ia], row[ib], row[ic] = float(a), float(mpf(a0 + b0) - a), float(cc)
                out.append(row)
        return out

    if kind == "auto":
        assert len(fw["reac"]) == 2 and all(m == 1 for _, m in fw["reac"]) and len(c0) == 2
        ((iw, mw),) = fw["prod"]
        assert mw == 2
        (io,) = [i for i, _ in fw["reac"] if i != iw]
        o0, w0 = c0[io], c0[iw]
        # x' = alpha x^2 + beta x + gamma with alpha = -(kf + kb) < 0: u = -x solves u' = -alpha u^2 + beta u - gamma
        alpha, beta, gamma = -(kf + kb), kf * (o0 - w0) - 2 * kb * w0, kf * o0 * w0 - kb * w0 * w0
        xs = riccati_extent(-alpha, beta, -gamma, ts)      # u = -x: the other isomer is o0 + u, the autocatalyst w0 - u
        cols = {io: (o0, 1), iw: (w0, -1)}
    else:
        assert len(fw["prod"]) == 1 and fw["prod"][0][1] == 1
        ic = fw["prod"][0][0]
        p0 = c0[ic]
        if kind == "assoc":
            (ia, na), (ib, nb) = fw["reac"]
            assert na == 1 and nb == 1 and ia != ib
            a0, b0 = c0[ia], c0[ib]
            xs = riccati_extent(kf, -kf * (a0 + b0) - kb, kf * a0 * b0 - kb * p0, ts)
            cols = {ia: (a0, -1), ib: (b0, -1), ic: (p0, 1)}
        else:
            ((ia, na),) = fw["reac"]
            assert na == 2
            a0 = c0[ia]
            xs = riccati_extent(4 * kf, -4 * kf * a0 - kb, kf * a0 * a0 - kb * p0, ts)
            cols = {ia: (a0, -2), ic: (p0, 1)}
    out = []
    with mpmath.workdps(60):
        for x in xs:
            row = [None] * len(c0)
            for i, (v0, nu) in cols.items():
                row[i] = float(mpmath.mpf(v0.numerator) / v0.denominator + nu * x)
            out.append(row)
    return out


# ---------------------------------------------------------------------------------------------------------
# structure labels
# ---------------------------------------------------------------------------------------------------------

def structure(sysd):
    n = len(sysd["species"])
    succ = {i: set() for i in range(n)}
    out_deg = {i: 0 for i in range(n)}
    branch = False
    stoich2 = False
    for r in sysd["rxns"]:
        for i, _ in r["reac"]:
            out_deg[i] += 1
            for j, m in r["prod"]:
                succ[i].add(j)
        if len(r["prod"]) >= 2:
            branch = True
        if any(m >= 2 for _, m in r["prod"]) or any(m >= 2 for _, m in r["reac"]):
            stoich2 = True
    if any(d >= 2 for d in out_deg.values()):
        branch = True
    both_sides = any(set(i for i, _ in r["reac"] + r.get("inact", [])) & set(j for j, _ in r["prod"])
                     for r in sysd["rxns"])
    self_inact = any(set(i for i, _ in r["reac"]) & set(j for j, _ in r.get("inact", [])) for r in sysd["rxns"])
    # cycle: DFS colouring
    colour = [0] * n
    cyc = [False]

    def dfs(u):
        colour[u] = 1
        for v in sorted(succ[u]):
            if colour[v] == 1:
                cyc[0] = True
            elif colour[v] == 0:
                dfs(v)
        colour[u] = 2
    for u in range(n):
        if colour[u] == 0:
            dfs(u)
    # longest simple path (chain length), n <= 12
    best = [0]

    def walk(u, seen, d):
        best[0] = max(best[0], d)
        for v in sorted(succ[u]):
            if v not in seen:
                walk(v, seen | {v}, d + 1)
    if n <= 8:
        for u in range(n):
            walk(u, {u}, 0)
    ks = [r["k"] for r in sysd["rxns"]]
    dec = math.log10(max(ks) / min(ks)) if ks else 0.0
    cs = comps(sysd)
    tot = element_totals(sysd, [Fraction(x) for x in sysd["c0"]])
    distinct_bounds = False
    for comp in cs:
        cand = set(tot[z] / m for z, m in comp.items() if z != 0)
        if len(cand) >= 2:
            distinct_bounds = True
    return {"branch": branch, "cycle": cyc[0], "stoich2": stoich2, "decades": dec, "chain": best[0],
            "charged": any(0 in c for c in cs), "distinct_bounds": distinct_bounds,
            "zeros": sum(1 for x in sysd["c0"] if x == 0), "n": n, "nr": len(sysd["rxns"]),
            "both_sides": both_sides, "self_inact": self_inact, "reagents": len(foreign_reagents(sysd)),
            "inact_rxns": sum(1 for r in sysd["rxns"] if r.get("inact"))}


# ---------------------------------------------------------------------------------------------------------
# generators
# ---------------------------------------------------------------------------------------------------------

def _log_uniform(draw, lo, hi):
    """10**u, u in [lo, hi]; shrinks towards 1 (u = 0 must be inside)."""
    k = draw(st.integers(0, 9))
    if k == 0:
        return 1.0
    if k == 1:
        return float(draw(st.sampled_from([1, 2, 3, 5, 10, 100, 1000])))
    u = draw(st.floats(lo, hi, allow_nan=False, allow_infinity=False))
    return float(10.0 ** u)


DEP_SCALINGS = [10.0, 1000.0, 1e6, 1.0]
INDEP_SCALINGS = [1.0, 1.0, 1e-3, 100.0]


def _builder(draw):
    """Arguments of get_odesys(rsys, SymbolicSys=ScaledSys, dep_scaling=..., indep_scaling=...)."""
    return {"dep_scaling": draw(st.sampled_from(DEP_SCALINGS)), "indep_scaling": draw(st.sampled_from(INDEP_SCALINGS))}


def _subst(draw, n, allow_explicit=True):
    mode = draw(st.sampled_from(["none", "list", "explicit", "str"] if allow_explicit else ["none", "list", "str"]))
    order = list(draw(st.permutations(list(range(n))))) if mode != "none" else list(range(n))
    return {"mode": mode, "order": order}


def _assign_keys(species_comps, explicit):
    """Distinct keys: formula text + the next free decoration for equal compositions, or S<i>."""
    keys = []
    count = {}
    for i, comp in enumerate(species_comps):
        sig = tuple(sorted(comp.items()))
        j = count.get(sig, 0)
        count[sig] = j + 1
        keys.append("S%d" % i if explicit else formula_text(comp, j))
    return keys


def _float_at_least(q):
    """Smallest-effort float >= the Fraction q."""
    f = float(q)
    while Fraction(f) < q:
        f = math.nextafter(f, math.inf)
    return f


@st.composite
def networks(draw, max_species=7, max_rxns=8, decades=8, inact=False, scaled=False):
    """First-order networks balanced by construction: a species is a base fragment, an isomer of an earlier
    species, or the sum of a multiset of earlier species; a reaction X -> products is obtained from [X] by
    rewriting entries into an isomer or into their defining multiset.

    inact=True widens the left-hand side: [root] is rewritten as well (0-2 steps) into a multiset L, one entry of L is
    the active reactant X and the others are written as inactive co-reactants '(n Y)' (consumed, zeroth order), the
    right-hand side is another rewriting of [root] - hence balanced, and still linear: d[Y]/dt = -n k [X].  Y = X
    ('X + (X) -> ...', X consumed twice per event at a first-order rate) is allowed; a Y different from the active
    reactant (a *reagent*) is never an active reactant anywhere, so that nothing depends on [Y] and the rest of the
    network keeps non-negative solutions.  The initial amount of every reagent is its exact total consumption up to
    the last output time (its formation by other steps not counted) times a drawn factor >= 1, plus a drawn extra
    amount: the exact solution is non-negative throughout.  Output times of such a network end at 10/k of its
    fastest reagent-consuming step (a persistent X would otherwise turn over k*t >> 1 equivalents of reagent, whose
    supply would then dwarf every other concentration) and, where the reagent lets the other species multiply
    ('X + (Y) -> 2 X'), at 3/lambda of that growth.  "c0_euler" is a second state with *scarce* reagents
    (theta * consumption rate * a lower estimate of the step allowed by the other species, theta mostly < 1) at which
    only the explicit-Euler-step clause is judged."""
    n_base = draw(st.integers(1, 3))
    cs = []          # composition dicts (int keys)
    defn = []        # None | list of indices (multiset) the species is the sum of
    for _ in range(n_base):
        e1 = draw(st.integers(0, len(ELEMENTS) - 1))
        comp = {ELEMENTS[e1][1]: draw(st.integers(1, 3))}
        if draw(st.integers(0, 3)) == 3:
            e2 = draw(st.integers(0, len(ELEMENTS) - 1))
            if e2 != e1:
                comp[ELEMENTS[e2][1]] = draw(st.integers(1, 3))
        if draw(st.integers(0, 7)) == 7:
            comp[0] = draw(st.sampled_from([1, -1, 2, -2]))
        cs.append(comp)
        defn.append(None)
    n_more = draw(st.integers(1, max(1, max_species - n_base)))
    for _ in range(n_more):
        m = len(cs)
        if draw(st.integers(0, 2)) == 0:
            src = draw(st.integers(0, m - 1))      # isomer
            cs.append(dict(cs[src]))
            defn.append(None)
        else:
            parts = [draw(st.integers(0, m - 1)) for _ in range(draw(st.integers(2, 3)))]
            comp = {}
            for p in parts:
                for z, c in cs[p].items():
                    comp[z] = comp.get(z, 0) + c
            if comp.get(0, 1) == 0:
                del comp[0]
            if sum(v for z, v in comp.items() if z != 0) > 60:   # keep formulas small: make it an isomer instead
                cs.append(dict(cs[parts[0]]))
                defn.append(None)
            else:
                cs.append(comp)
                defn.append(sorted(parts))
    n = len(cs)
    sig = [tuple(sorted(c.items())) for c in cs]
    isomers = {i: [j for j in range(n) if j != i and sig[j] == sig[i]] for i in range(n)}

    def options(i):
        o = [[j] for j in isomers[i]]
        if defn[i] is not None:
            o.append(list(defn[i]))
        return o

    rxns = []
    seen = set()
    reagents = set()       # species used as inactive co-reactant of another species' step: never an active reactant
    active = set()         # species used as active reactant
    n_rx = draw(st.integers(1, max_rxns))
    cands = [i for i in range(n) if options(i)]     # never empty: the last species has a source, isomers are mutual
    for _ in range(n_rx):
        i = cands[draw(st.integers(0, len(cands) - 1))]
        lhs = [i]
        if inact and draw(st.integers(0, 2)) != 0:
            for _s in range(draw(st.integers(1, 2))):
                pos = draw(st.integers(0, len(lhs) - 1))
                o = options(lhs[pos])
                if o:
                    new = o[draw(st.integers(0, len(o) - 1))]
                    if len(lhs) - 1 + len(new) <= 4:
                        lhs[pos:pos + 1] = new
            lhs.sort()
        ms = [i]
        for _s in range(draw(st.integers(1, 3))):
            pos = draw(st.integers(0, len(ms) - 1))
            o = options(ms[pos])
            if o and len(ms) < 6:
                ms[pos:pos + 1] = o[draw(st.integers(0, len(o) - 1))]
        ms.sort()
        if ms == lhs:
            if lhs != [i]:
                ms = [i]
            else:
                o = options(i)
                if not o:
                    continue
                ms = sorted(o[0])
        # the active reactant: one entry of lhs that is not a reagent; the other entries are inactive co-reactants
        act_pos = [q for q, x in enumerate(lhs) if x not in reagents]
        if not act_pos:
            continue
        q = act_pos[draw(st.integers(0, len(act_pos) - 1))] if len(lhs) > 1 else act_pos[0]
        a = lhs[q]
        rest = lhs[:q] + lhs[q + 1:]
        foreign = set(rest) - {a}
        if foreign & active:
            continue
        prod = [[j, ms.count(j)] for j in sorted(set(ms))]
        ina = [[j, rest.count(j)] for j in sorted(set(rest))]
        key = (a, tuple(map(tuple, ina)), tuple(map(tuple, prod)))
        if key in seen:
            continue
        seen.add(key)
        reagents |= foreign
        active.add(a)
        k = _log_uniform(draw, -decades / 2.0, decades / 2.0)
        rx = {"reac": [[a, 1]], "prod": prod, "k": k, "style": draw(st.integers(0, 2)), "swap": draw(st.booleans())}
        if ina:
            rx["inact"] = ina
        rxns.append(rx)
    if not rxns:
        # the last species always has a source (isomer of / sum of earlier ones)
        i = n - 1
        o = options(i)
        ms = sorted(o[-1]) if o else None
        if ms is None:      # isomer source without back-link cannot happen: isomers are symmetric
            raise AssertionError("no reaction possible")
        rxns.append({"reac": [[i, 1]], "prod": [[j, ms.count(j)] for j in sorted(set(ms))], "k": 1.0, "style": 0,
                     "swap": False})
    # prune species that occur in no reaction (chempy's builders reject them; outside the property)
    used = sorted(set(i for r in rxns for side in (r["reac"], r["prod"], r.get("inact", [])) for i, _ in side))
    remap = {old: new for new, old in enumerate(used)}
    for r in rxns:
        for side in ("reac", "prod", "inact"):
            if side in r:
                r[side] = [[remap[i], m] for i, m in r[side]]
    cs = [cs[i] for i in used]
    n = len(cs)
    subst = _subst(draw, n)
    keys = _assign_keys(cs, subst["mode"] == "explicit")
    c0 = []
    for i in range(n):
        c0.append(draw(st.one_of(st.just(1.0), st.just(0.0), st.floats(-3, 3).map(lambda u: float(10.0 ** u)))))
    if not any(c0):
        c0[rxns[0]["reac"][0][0]] = 1.0
    ks = [r["k"] for r in rxns]
    lo = math.log10(0.01 / max(ks))
    hi = math.log10(10.0 / min(ks))
    reag = sorted(remap[y] for y in reagents)
    if reag:
        hi = min(hi, math.log10(10.0 / max(r["k"] for r in rxns
                                           if any(j != r["reac"][0][0] for j, _ in r.get("inact", [])))))
        # fed by a reagent, the other species may multiply ('X + (Y) -> 2 X'): c ~ exp(lam t) with lam the dominant
        # (Perron) eigenvalue of their block of M.  The horizon ends at lam t = 3 (growth x 20); beyond that the
        # problem itself amplifies every solver error by exp(lam t) and the supply of reagent dwarfs everything else
        import numpy as np
        Mf = np.array([[float(x) for x in row] for row in linear_matrix({"species": [None] * n, "rxns": rxns})])
        nn = [i for i in range(n) if i not in reag]
        lam = float(max(np.linalg.eigvals(Mf[np.ix_(nn, nn)]).real))
        if lam > 0:
            hi = max(min(hi, math.log10(3.0 / lam)), lo + 1.0)
    nt = draw(st.integers(3, 8))
    fr = sorted(set(draw(st.lists(st.integers(0, 1000), min_size=nt, max_size=nt))))
    t0 = draw(st.sampled_from([0.0, 0.0, 0.0, 1.5, -2.0, 100.0]))
    times = []
    for q in fr:
        t = t0 + float(10.0 ** (lo + (hi - lo) * q / 1000.0))
        if t > (times[-1] if times else t0):
            times.append(t)
    while len(times) < 3:
        base = times[-1] if times else t0
        times.append(base + (abs(base - t0) if base != t0 else float(10.0 ** lo)))
    out = {"species": [{"key": k, "comp": {str(z): c for z, c in sorted(comp.items())}} for k, comp in zip(keys, cs)],
           "subst": subst, "rxns": rxns, "comment": draw(st.booleans()), "c0": c0, "t0": t0, "times": times}
    if reag:
        extra = [c0[y] for y in reag]
        for y in reag:
            c0[y] = 0.0
        if not any(c0):
            c0[rxns[0]["reac"][0][0]] = 1.0
        # exact consumption of every reagent up to the last output time (nothing depends on a reagent: column = 0)
        M = linear_matrix(out, no_production_into=set(reag))
        dt = Fraction(times[-1]) - Fraction(t0)
        Y, P = expm_fixed([[x * dt for x in row] for row in M])
        scarce = list(c0)
        # lower estimate of the Euler step allowed by the other species: 1/(largest total first-order loss constant)
        loss = {}
        for r in rxns:
            a = r["reac"][0][0]
            loss[a] = loss.get(a, 0.0) + r["k"] * (1 + sum(m for j, m in r.get("inact", []) if j == a))
        h_ref = min(1.0, 1.0 / max(loss.values()))
        for y, ex in zip(reag, extra):
            need = -sum(Fraction(Y[y][l], 1 << P) * Fraction(c0[l]) for l in range(n))
            need = max(need, Fraction(0))
            factor = draw(st.sampled_from([Fraction(101, 100), 2, 10, 1000]))
            c0[y] = _float_at_least(Fraction(_float_at_least(need * factor)) + Fraction(ex))
            rate = sum(m * r["k"] * c0[r["reac"][0][0]] for r in rxns for j, m in r.get("inact", []) if j == y)
            theta = draw(st.sampled_from([0.5, 0.1, 0.9, 0.01, 0.999, 3.0]))
            scarce[y] = theta * rate * h_ref if rate > 0 else 1.0
        out["c0_euler"] = scarce
    if scaled and draw(st.integers(0, 3)) == 3:       # a quarter of the networks through ScaledSys
        out["builder"] = _builder(draw)
    return out


# bimolecular triples: (A, B, C) with hand-written compositions (Z -> count, 0 -> charge); B None = "2 A -> C"
TRIPLES = [
    ("H+", {1: 1, 0: 1}, "OH-", {8: 1, 1: 1, 0: -1}, "H2O", {1: 2, 8: 1}),
    ("Fe+3", {26: 1, 0: 3}, "SCN-", {16: 1, 6: 1, 7: 1, 0: -1}, "FeSCN+2", {26: 1, 16: 1, 6: 1, 7: 1, 0: 2}),
    ("NH3", {7: 1, 1: 3}, "H+", {1: 1, 0: 1}, "NH4+", {7: 1, 1: 4, 0: 1}),
    ("Cu+2", {29: 1, 0: 2}, "NH3", {7: 1, 1: 3}, "CuNH3+2", {29: 1, 7: 1, 1: 3, 0: 2}),
    ("Ag+", {47: 1, 0: 1}, "Cl-", {17: 1, 0: -1}, "AgCl", {47: 1, 17: 1}),
    ("CO2", {6: 1, 8: 2}, "H2O", {1: 2, 8: 1}, "H2CO3", {1: 2, 6: 1, 8: 3}),
    ("NO", {7: 1, 8: 1}, "NO2", {7: 1, 8: 2}, "N2O3", {7: 2, 8: 3}),
    ("H", {1: 1}, "OH", {8: 1, 1: 1}, "H2O", {1: 2, 8: 1}),
    ("NO2", {7: 1, 8: 2}, None, None, "N2O4", {7: 2, 8: 4}),
    ("H", {1: 1}, None, None, "H2", {1: 2}),
    ("CH3", {6: 1, 1: 3}, None, None, "C2H6", {6: 2, 1: 6}),
    ("OH", {8: 1, 1: 1}, None, None, "H2O2", {8: 2, 1: 2}),
    ("Cl", {17: 1}, None, None, "Cl2", {17: 2}),
    # a species whose composition is its charge alone (no element bounds it: upper_conc_bounds gives inf), written
    # first or second, so that it is the scarcer partner in about half of the unequal-amount cases (seeded/C06_7)
    ("e-", {0: -1}, "H+", {1: 1, 0: 1}, "H", {1: 1}),
    ("Ag+", {47: 1, 0: 1}, "e-", {0: -1}, "Ag", {47: 1}),
    ("e-(aq)", {0: -1}, "OH", {8: 1, 1: 1}, "OH-", {8: 1, 1: 1, 0: -1}),
    ("Fe+3", {26: 1, 0: 3}, "e-(aq)", {0: -1}, "Fe+2", {26: 1, 0: 2}),
]


# pairs of isomers (A, B, shared composition) for the autocatalytic step A + B -> 2 B and the catalysed step
# A + C -> B + C; catalysts C (hand-written compositions)
ISOMER_PAIRS = [
    ("HNC", "HCN", {1: 1, 6: 1, 7: 1}),
    ("CH3NC", "CH3CN", {1: 3, 6: 2, 7: 1}),
    ("HOCN", "HNCO", {1: 1, 6: 1, 7: 1, 8: 1}),
    ("NH4OCN", "(NH2)2CO", {1: 4, 6: 1, 7: 2, 8: 1}),
    ("HOC+", "HCO+", {1: 1, 6: 1, 8: 1, 0: 1}),
    ("alpha-C6H12O6", "beta-C6H12O6", {1: 12, 6: 6, 8: 6}),
]
CATALYSTS = [("H+", {1: 1, 0: 1}), ("OH-", {1: 1, 8: 1, 0: -1}), ("H2O", {1: 2, 8: 1}), ("Cl-", {17: 1, 0: -1}),
             ("I2", {53: 2}), ("Pt", {78: 1})]
BIMOL_KINDS = ["assoc", "assoc", "auto", "cat"]      # 'assoc' covers A + B -> C and 2 A -> C (table TRIPLES)


@st.composite
def bimolecular(draw, decades=6, kinds=BIMOL_KINDS):
    kind = kinds[draw(st.integers(0, len(kinds) - 1))]
    half = decades / 2.0
    if kind == "assoc":
        tr = TRIPLES[draw(st.integers(0, len(TRIPLES) - 1))]
    else:
        pair = ISOMER_PAIRS[draw(st.integers(0, len(ISOMER_PAIRS) - 1))]
    rev = draw(st.booleans())
    kf = _log_uniform(draw, -half, half)
    kb = _log_uniform(draw, -half, half)
    a0 = _log_uniform(draw, -half, half)
    eq = draw(st.integers(0, 3)) == 0
    b0 = a0 if eq else _log_uniform(draw, -half, half)
    p0 = draw(st.one_of(st.just(0.0), st.floats(-half, half).map(lambda u: float(10.0 ** u))))
    kb_eff = kb if rev else 0.0
    if kind == "auto":
        # A + B -> 2 B (flip: the first-written species is the autocatalyst, A + B -> 2 A); the autocatalyst starts at
        # b0 > 0, the other isomer at a0 or (one case in eight, interesting with the reverse step only) at 0
        flip = draw(st.booleans())
        if draw(st.integers(0, 7)) == 7:
            a0 = 0.0
        w, o = (0, 1) if flip else (1, 0)
        sp = [(pair[0], pair[2]), (pair[1], pair[2])]
        reac, prod = [[0, 1], [1, 1]], [[w, 2]]
        c0 = [0.0, 0.0]
        c0[w], c0[o] = b0, a0
        tau = 1.0 / ((kf + kb_eff) * (a0 + b0))
    elif kind == "cat":
        # A + C -> B + C; the catalyst C at b0 (the drawn second amount), the product isomer B at p0
        cat = CATALYSTS[draw(st.integers(0, len(CATALYSTS) - 1))]
        sp = [(pair[0], pair[2]), (pair[1], pair[2]), cat]
        reac, prod, c0 = [[0, 1], [2, 1]], [[1, 1], [2, 1]], [a0, p0, b0]
        tau = 1.0 / ((kf + kb_eff) * b0)
    elif tr[2] is None:
        sp = [(tr[0], tr[1]), (tr[4], tr[5])]
        reac, prod, c0 = [[0, 2]], [[1, 1]], [a0, p0]
        tau = 1.0 / (4 * kf * a0 + kb_eff)
    else:
        sp = [(tr[0], tr[1]), (tr[2], tr[3]), (tr[4], tr[5])]
        reac, prod, c0 = [[0, 1], [1, 1]], [[2, 1]], [a0, b0, p0]
        tau = 1.0 / (kf * max(a0, b0) + kb_eff)
    subst = _subst(draw, len(sp))
    explicit = subst["mode"] == "explicit"
    rxns = [{"reac": reac, "prod": prod, "k": kf, "style": draw(st.integers(0, 2)), "swap": draw(st.booleans())}]
    if rev:
        rxns.append({"reac": prod, "prod": reac, "k": kb, "style": draw(st.integers(0, 2)), "swap": draw(st.booleans())})
    nt = draw(st.integers(3, 8))
    fr = sorted(set(draw(st.lists(st.integers(0, 1000), min_size=nt, max_size=nt))))
    t0 = draw(st.sampled_from([0.0, 0.0, 0.0, 1.5, -2.0]))
    times = []
    for q in fr:
        t = t0 + tau * float(10.0 ** (-2.0 + 4.0 * q / 1000.0))
        if t > (times[-1] if times else t0):
            times.append(t)
    while len(times) < 3:
        base = times[-1] if times else t0
        times.append(base + (abs(base - t0) if base != t0 else tau * 0.01))
    out = {"species": [{"key": ("S%d" % i if explicit else k), "comp": {str(z): c for z, c in sorted(comp.items())}}
                       for i, (k, comp) in enumerate(sp)],
           "subst": subst, "rxns": rxns, "comment": draw(st.booleans()), "c0": c0, "t0": t0, "times": times}
    if draw(st.booleans()):                            # half of the second-order systems through ScaledSys
        out["builder"] = _builder(draw)
    return out


# ---------------------------------------------------------------------------------------------------------
# development-time self check of the oracles (not used by the harness):  python -m vlib.gen_c06
# ---------------------------------------------------------------------------------------------------------

def selfcheck(n=200):   # pragma: no cover
    import random
    import mpmath
    rnd = random.Random(7)
    worst = 0.0
    for _ in range(n):
        m = rnd.randint(2, 7)
        A = [[Fraction(0)] * m for _ in range(m)]
        for i in range(m):
            for j in range(m):
                if i != j and rnd.random() < 0.4 and not (j < 2 <= i and m > 4):   # species 0,1 only feed 2..
                    k = Fraction(10 ** rnd.uniform(-6, 6))
                    A[j][i] += (rnd.randint(1, 3) if (j > i and m > 4 and i < 2 <= j) else 1) * k   # no amplifying cycles
                    A[i][i] -= k
        t = Fraction(10 ** rnd.uniform(-3, 4))
        At = [[x * t for x in row] for row in A]
        Y, P = expm_fixed(At)
        with mpmath.workdps(60):
            E = mpmath.expm(mpmath.matrix([[mpmath.mpf(x.numerator) / x.denominator for x in row] for row in At]))
            big = max(abs(E[i, j]) for i in range(m) for j in range(m))
            err = max(abs(mpmath.mpf(Y[i][j]) / mpmath.mpf(2) ** P - E[i, j]) for i in range(m) for j in range(m))
            worst = max(worst, float(err / big))
    print("expm_fixed vs mpmath.expm: worst relative-to-largest-entry error %.3g over %d matrices" % (worst, n))
    # closed forms against mpmath.odefun
    worst = 0.0
    for _ in range(40):
        kf, kb, a0, b0, p0 = [Fraction(10 ** rnd.uniform(-2, 2)) for _ in range(5)]
        if rnd.random() < 0.3:
            kb = Fraction(0)
        if rnd.random() < 0.3:
            b0 = a0
        for form in ("AB", "AA"):
            if form == "AB":
                al, be, ga = kf, -kf * (a0 + b0) - kb, kf * a0 * b0 - kb * p0
            else:
                al, be, ga = 4 * kf, -4 * kf * a0 - kb, kf * a0 * a0 - kb * p0
            tau = 1 / float(-be)
            ts = [Fraction(tau * s) for s in (0.1, 1.0, 5.0)]
            xs = riccati_extent(al, be, ga, ts)
            from scipy.integrate import solve_ivp
            fa, fb, fg = float(al), float(be), float(ga)
            sol = solve_ivp(lambda t, x: [fa * x[0] ** 2 + fb * x[0] + fg], (0.0, float(ts[-1])), [0.0],
                            t_eval=[float(t) for t in ts], rtol=1e-12, atol=1e-14 * float(a0 + p0), method="LSODA")
            for ref, x in zip(sol.y[0], xs):
                worst = max(worst, abs(ref - float(x)) / (float(a0) + float(p0)))
    print("riccati closed form vs scipy LSODA rtol=1e-12: worst deviation / (a0+p0) = %.3g" % worst)


if __name__ == "__main__":   # pragma: no cover
    selfcheck()

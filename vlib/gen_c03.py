# -*- coding: utf-8 -*-
"""G2 (part): reaction systems as JSON-able descriptions, their Hypothesis strategies, the reference
semantics of mass-action kinetics / of the reaction graph, and (last section only) chempy builders.

Description
    system = {"subs": [key, ...],            # substance keys in the order handed to ReactionSystem
              "rxns": [rxn, ...]}
    rxn    = {"reac": {key: int}, "prod": {key: int}, "inact_reac": {key: int}, "inact_prod": {key: int},
              "k": num | [num, num],         # rate constant (pair = (kf, kb) of an Equilibrium member, C15 only)
              "ktype": "plain" | "named" | "massaction",
              "eq": bool}                    # Equilibrium member (C15 only)
    num    = int | float | "p/q" | {"sym": name} | {"arr": [float, ...]}   (arr: one value per state, class 'ndarray')

Sections 1-3 never import chempy (reference semantics are computed from the description alone).
Section 4 (builders) turns a description into chempy objects; imports are lazy.
"""
from fractions import Fraction

from hypothesis import strategies as st

KEYS = ["S%d" % i for i in range(12)]          # note: lexicographic order differs from numeric (S10 < S2)
SIDES = ("reac", "prod", "inact_reac", "inact_prod")

# ---------------------------------------------------------------------------
# 1. numbers
# ---------------------------------------------------------------------------


def is_sym(n):
    return isinstance(n, dict) and "sym" in n


def is_arr(n):
    return isinstance(n, dict) and "arr" in n


def exact(n):
    """int | float | 'p/q' -> Fraction (floats are taken at their exact binary value)."""
    if isinstance(n, bool) or isinstance(n, dict):
        raise TypeError("not a number description: %r" % (n,))
    if isinstance(n, (int, float)):
        return Fraction(n)
    p, q = n.split("/")
    return Fraction(int(p), int(q))


def native(n):
    """The Python object handed to chempy: int, float, fractions.Fraction, sympy.Symbol or a float numpy array."""
    if is_sym(n):
        import sympy
        return sympy.Symbol(n["sym"])
    if is_arr(n):
        import numpy as np
        return np.array(n["arr"], dtype=float)
    if isinstance(n, str):
        return exact(n)
    return n


def refval(n, cls):
    """Value used by the reference computation: Fraction (classes 'exact', 'float', scalars of 'ndarray'), a Vec of
    Fractions (arrays of class 'ndarray': one entry per state) or a sympy object ('sym')."""
    if is_arr(n):
        return Vec([Fraction(float(x)) for x in n["arr"]])
    if cls == "sym":
        import sympy
        if is_sym(n):
            return sympy.Symbol(n["sym"])
        f = exact(n)
        return sympy.Rational(f.numerator, f.denominator)
    return exact(n)


_CACHE = {}


def ints(lo, hi):
    """Cached st.integers(lo, hi): building (and validating) a strategy per draw dominates generation time."""
    key = ("i", lo, hi)
    if key not in _CACHE:
        _CACHE[key] = st.integers(lo, hi)
    return _CACHE[key]


def _cached(key, make):
    if key not in _CACHE:
        _CACHE[key] = make()
    return _CACHE[key]


def pick(draw, seq):
    """Element of a non-empty sequence; index 0 is the shrink target."""
    return seq[draw(ints(0, len(seq) - 1))]


def pick_distinct(draw, seq, lo, hi):
    """lo..hi distinct elements of seq (clipped to its length), in drawn order."""
    n = draw(ints(min(lo, len(seq)), min(hi, len(seq))))
    rest = list(seq)
    out = []
    for _ in range(n):
        out.append(rest.pop(draw(ints(0, len(rest) - 1))))
    return out


def permutation(draw, seq):
    """Permutation by successive picks; all indices 0 = identity (shrink target)."""
    rest = list(seq)
    out = []
    while rest:
        out.append(rest.pop(draw(ints(0, len(rest) - 1))))
    return out


def fracs(max_p=20, max_q=9, min_p=0):
    return _cached(("f", max_p, max_q, min_p),
                   lambda: st.builds(lambda p, q: "%d/%d" % (p, q), st.integers(min_p, max_p), st.integers(1, max_q)))


def floats_pos(lo_exp, hi_exp):
    """Positive floats, log-uniform over 10**lo_exp .. 10**(hi_exp+1); shrinks towards 1.0."""
    return _cached(("fl", lo_exp, hi_exp), lambda: st.builds(
        lambda m, e: float(m * 10.0 ** e),
        st.floats(min_value=1.0, max_value=9.999, allow_nan=False, allow_infinity=False), st.integers(lo_exp, hi_exp)))


class Vec(object):
    """Reference value of an array-valued quantity: one Fraction per state; + - * abs and ** int act state by state
    (a plain int / Fraction operand is the same in every state).  This is all the reference semantics need."""
    __slots__ = ("v",)

    def __init__(self, v):
        self.v = list(v)

    def _other(self, o):
        if isinstance(o, Vec):
            if len(o.v) != len(self.v):
                raise ValueError("state counts differ")
            return o.v
        if isinstance(o, (int, Fraction)) and not isinstance(o, bool):
            return [o] * len(self.v)
        return None

    def _bin(self, o, f):
        w = self._other(o)
        return NotImplemented if w is None else Vec([f(a, b) for a, b in zip(self.v, w)])

    def __add__(self, o):
        return self._bin(o, lambda a, b: a + b)
    __radd__ = __add__

    def __sub__(self, o):
        return self._bin(o, lambda a, b: a - b)

    def __rsub__(self, o):
        return self._bin(o, lambda a, b: b - a)

    def __mul__(self, o):
        return self._bin(o, lambda a, b: a * b)
    __rmul__ = __mul__

    def __pow__(self, n):
        if not isinstance(n, int) or n < 0:
            return NotImplemented
        return Vec([a ** n for a in self.v])

    def __abs__(self):
        return Vec([abs(a) for a in self.v])

    def __neg__(self):
        return Vec([-a for a in self.v])

    def __repr__(self):
        return "Vec(%s)" % ", ".join(str(a) for a in self.v)


def states_of(x, m):
    """The per-state values of a reference value (Vec, or a number that is the same in all m states)."""
    return list(x.v) if isinstance(x, Vec) else [x] * m


def arr_values(m, kind):
    """{"arr": [m floats]}: concentrations (with an occasional exact 0) or rate constants."""
    if kind == "c":
        el = _cached(("ae", "c"), lambda: st.one_of(floats_pos(-8, 3), floats_pos(-2, 1), st.integers(0, 9).map(float)))
    else:
        el = _cached(("ae", "k"), lambda: st.one_of(floats_pos(-3, 3), floats_pos(-15, 14)))
    return _cached(("arr", m, kind), lambda: st.lists(el, min_size=m, max_size=m).map(lambda v: {"arr": v}))


def conc_values(cls, key):
    if cls == "exact":
        return _cached(("c", cls), lambda: st.one_of(st.integers(0, 9), fracs()))
    if cls == "float":
        return _cached(("c", cls), lambda: st.one_of(floats_pos(-8, 3), floats_pos(-8, 3), st.integers(0, 9)))
    return _cached(("c", cls, key), lambda: st.one_of(st.just({"sym": "c_" + key}), st.just({"sym": "c_" + key}),
                                                      st.integers(0, 5), fracs(9, 5)))


def k_values(cls, idx):
    if cls == "exact":
        return _cached(("k", cls), lambda: st.one_of(st.integers(1, 12), fracs(20, 9, 1)))
    if cls == "float":
        return _cached(("k", cls), lambda: st.one_of(floats_pos(-15, 14), floats_pos(-3, 3), st.integers(1, 12)))
    return _cached(("k", cls, idx), lambda: st.one_of(st.just({"sym": "k%d" % idx}), st.just({"sym": "k%d" % idx}),
                                                      st.integers(1, 12), fracs(20, 9, 1)))


# ---------------------------------------------------------------------------
# 2. strategies for reactions and systems (built by construction, no filtering)
# ---------------------------------------------------------------------------

def _side(draw, pool, lo, hi, max_coeff):
    ks = pick_distinct(draw, pool, lo, hi)
    return {k: draw(ints(1, max_coeff)) for k in ks}


def _bump(d, key, n):
    d[key] = d.get(key, 0) + n


def net(r, key):
    return r["prod"].get(key, 0) - r["reac"].get(key, 0) + r["inact_prod"].get(key, 0) - r["inact_reac"].get(key, 0)


def rxn_keys(r):
    s = set()
    for side in SIDES:
        s.update(r[side])
    return sorted(s)


def has_effect(r):
    return any(net(r, k) != 0 for k in rxn_keys(r))


def _draw_rxn(draw, pool, small, max_coeff=3, allow_zero_order=True):
    """One reaction over the keys of `pool` (non-empty).  Catalysts (key on both sides), inactive parts and
    zeroth-order reactions are drawn explicitly so that their frequency does not depend on pool size."""
    hi = 1 if small else 3
    shape = draw(ints(0, 19))
    lo_r = 0 if (allow_zero_order and shape == 19) else 1
    reac = _side(draw, pool, lo_r, hi if lo_r else 0, max_coeff)
    prod = _side(draw, pool, 0 if reac else 1, hi, max_coeff)
    ir, ip = {}, {}
    flags = draw(ints(0, 127))      # 0 = plain (shrink target)
    if (flags & 3) == 3 and reac:          # catalyst: an active reactant is also a product            (p = 1/4)
        k = pick(draw, sorted(reac))
        prod[k] = draw(ints(1, max_coeff))
    if (flags & 12) == 12:                 # inactive reactant (possibly of a species that is also active) (p = 1/4)
        k = pick(draw, pool)
        ir[k] = draw(ints(1, 4))
    if (flags & 112) == 112:               # inactive product                                           (p = 1/8)
        k = pick(draw, pool)
        ip[k] = draw(ints(1, 4))
    r = {"reac": reac, "prod": prod, "inact_reac": ir, "inact_prod": ip}
    if not has_effect(r):                  # Reaction() rejects reactions without any net effect: repair, do not filter
        _bump(prod, pool[0], 1)            # all nets were zero, so the net of pool[0] is now +1
    return r


def reverse_of(r, variant=0):
    """variant 0: exact reverse (all four parts swapped);
    1: reverse with the inactive parts folded into the active ones (same total stoichiometry, other active one);
    2: reverse of the active parts only (inactive parts dropped: a different total stoichiometry if there were any)."""
    if variant == 0:
        return {"reac": dict(r["prod"]), "prod": dict(r["reac"]),
                "inact_reac": dict(r["inact_prod"]), "inact_prod": dict(r["inact_reac"])}
    if variant == 1:
        reac, prod = dict(r["prod"]), dict(r["reac"])
        for k, v in r["inact_prod"].items():
            _bump(reac, k, v)
        for k, v in r["inact_reac"].items():
            _bump(prod, k, v)
        return {"reac": reac, "prod": prod, "inact_reac": {}, "inact_prod": {}}
    return {"reac": dict(r["prod"]), "prod": dict(r["reac"]), "inact_reac": {}, "inact_prod": {}}


def stoich_sig(r):
    return tuple(tuple(sorted(r[s].items())) for s in SIDES)


def _k_sig(k):
    """Parameters compare by value in chempy (1 == Fraction(1, 1) == 1.0)."""
    if isinstance(k, list):
        return tuple(_k_sig(x) for x in k)
    if is_sym(k):
        return ("sym", k["sym"])
    if is_arr(k):
        return ("arr", tuple(k["arr"]))
    return ("num", exact(k))


def _param_sigs(r):
    """What must be unique in a system: (stoichiometry, parameter) of every reaction, and of both directions of an
    Equilibrium member (categorize_substances expands those into a forward and a backward Reaction)."""
    if r.get("eq"):
        return [(stoich_sig(r), _k_sig(r["k"])), (stoich_sig(r), _k_sig(r["k"][0])),
                (stoich_sig(reverse_of(r)), _k_sig(r["k"][1]))]
    return [(stoich_sig(r), _k_sig(r["k"]))]


def dedupe_params(rxns):
    """ReactionSystem rejects two reactions that are equal in stoichiometry *and* parameter.  Later duplicates get a
    different (still valid) parameter; same stoichiometry with different parameters stays (interesting for sums)."""
    seen = set()
    for r in rxns:
        j = 0
        while any(sig in seen for sig in _param_sigs(r)) or len(set(_param_sigs(r))) != len(_param_sigs(r)):
            j += 1
            r["k"] = _other_k(r["k"], j)
        seen.update(_param_sigs(r))
    return rxns


def _other_k(k, j):
    if isinstance(k, list):
        return [_other_k(k[0], j), _other_k(k[1], j + 1)]
    if is_sym(k):
        return {"sym": k["sym"] + "_%d" % j}
    if is_arr(k):
        return {"arr": [x * 2.0 for x in k["arr"]]}
    if isinstance(k, int):
        return k + j
    if isinstance(k, float):
        return k * 2.0
    f = exact(k) + j
    return "%d/%d" % (f.numerator, f.denominator)


@st.composite
def systems(draw, cls="exact", max_subs=8, max_rxns=8, min_rxns=1, ktypes=("plain",), p_eq=0, reorder_subs=True,
            keys=None):
    """A reaction system.  Graph shape is controlled: the participating keys are dealt into 1..4 blocks and each
    reaction lives in one block (several connected components; reactions with one reactant and one product give chains
    whose fusion depends on the order), `n_iso` keys take part in no reaction, reverse partners are appended."""
    keys = list(keys or KEYS)
    ns = draw(ints(1, min(max_subs, len(keys))))
    n_iso = draw(ints(0, max(0, min(2, ns - 1)))) if draw(ints(0, 3)) == 3 else 0
    used = keys[:ns - n_iso]
    nblocks = draw(ints(1, min(4, len(used))))
    blocks = [used[b::nblocks] for b in range(nblocks)]
    nr = draw(ints(min_rxns, max_rxns))
    small_all = draw(ints(0, 3)) == 3
    rxns = []
    while len(rxns) < nr:
        b = draw(ints(0, nblocks - 1))
        bridge = nblocks > 1 and draw(ints(0, 11)) == 11
        pool = sorted(set(blocks[b] + blocks[(b + 1) % nblocks])) if bridge else blocks[b]
        small = small_all or draw(ints(0, 2)) == 2
        r = _draw_rxn(draw, pool, small)
        rxns.append(r)
        if len(rxns) < nr and draw(ints(0, 5)) == 5:     # reverse partner of some earlier reaction
            src = rxns[draw(ints(0, len(rxns) - 1))]
            rv = reverse_of(src, draw(ints(0, 2)))
            if not has_effect(rv):                              # e.g. active-only reverse of S0 -> S0 + (S0)
                _bump(rv["prod"], rxn_keys(src)[0], 1)
            pos = draw(ints(0, len(rxns)))               # anywhere, also before its partner
            rxns.insert(pos, rv)
    eq_on = bool(p_eq and draw(ints(0, 99)) < p_eq)            # p_eq: percentage of systems with Equilibrium members
    kmode = draw(ints(0, 9)) if len(ktypes) > 1 else 0          # 0-5 all plain, 6-7 mixed, 8/9 all of one other kind
    for i, r in enumerate(rxns):
        r["eq"] = bool(eq_on and draw(ints(0, 2)) == 2)
        if r["eq"]:
            r["ktype"] = "plain"
            r["k"] = [draw(k_values(cls, i)), draw(k_values(cls, i))]
        else:
            if kmode <= 5:
                r["ktype"] = ktypes[0]
            elif kmode <= 7:
                r["ktype"] = pick(draw, ktypes)
            else:
                r["ktype"] = ktypes[1 + (kmode - 8) % (len(ktypes) - 1)]
            r["k"] = draw(k_values(cls, i))
    dedupe_params(rxns)
    subs = list(keys[:ns])
    if reorder_subs:
        subs = permutation(draw, subs)
    return {"subs": subs, "rxns": rxns}


@st.composite
def reactions_over(draw, keys, max_n=3, cls="exact", start_index=0):
    """1..max_n reactions over the given (non-empty) key list, plain parameters (used by the C15 state machine)."""
    keys = list(keys)
    out = []
    for i in range(draw(ints(1, max_n))):
        pool = pick_distinct(draw, keys, 1, 4) if draw(ints(0, 1)) else keys
        r = _draw_rxn(draw, sorted(pool), draw(ints(0, 2)) == 2)
        r["eq"] = False
        r["ktype"] = "plain"
        r["k"] = draw(k_values(cls, start_index + i))
        out.append(r)
    return out


SUBS_KINDS = ["keys", "keys", "species", "keys", "substance", "species_formula", "keys", "species"]
PHASE_SUFFIX = {0: "", 1: "(s)", 2: "(l)", 3: "(g)"}


def rename_keys(sysd, ren):
    """The same system with other substance keys (every part of the description that mentions a key)."""
    out = {"subs": [ren[k] for k in sysd["subs"]], "rxns": []}
    for r in sysd["rxns"]:
        r2 = dict(r)
        for side in SIDES:
            r2[side] = {ren[k]: v for k, v in r[side].items()}
        out["rxns"].append(r2)
    return out


@st.composite
def rate_cases(draw, cls=None, cstr=False, max_subs=8, max_rxns=8, subs_kinds=None):
    """Case of C03: a system, a concentration vector (plus an alternative one), a permutation of the reactions and
    optionally stirred-tank feed terms."""
    if cls is None:
        cls = pick(draw, ["exact", "exact", "float", "float", "sym", "ndarray", "ndarray"])
    # 'ndarray': every concentration is a float array with one entry per state (vectorised evaluation over m states);
    # rate constants stay scalars except (half of the) named ones, which travel in `variables` like the concentrations
    scalar_cls = "float" if cls == "ndarray" else cls
    m = draw(ints(2, 4)) if cls == "ndarray" else None
    sysd = draw(systems(cls=scalar_cls, max_subs=max_subs, max_rxns=max_rxns,
                        ktypes=("plain", "named", "massaction")))
    if m:
        for r in sysd["rxns"]:
            if r["ktype"] == "named" and draw(ints(0, 1)):
                r["k"] = draw(arr_values(m, "k"))
        conc = {k: draw(arr_values(m, "c")) for k in sorted(sysd["subs"])}
        alt = {k: draw(arr_values(m, "c")) for k in sorted(sysd["subs"])}
    else:
        conc = {k: draw(conc_values(cls, k)) for k in sorted(sysd["subs"])}
        alt = {}
        for k in sorted(sysd["subs"]):
            if cls == "sym":
                alt[k] = {"sym": "d_" + k}
            else:
                alt[k] = draw(conc_values(cls, k))
    case = {"cls": cls, "sys": sysd, "conc": conc, "alt": alt,
            "perm": permutation(draw, list(range(len(sysd["rxns"]))))}
    if m:
        case["m"] = m
    # how the substances are handed to ReactionSystem: key strings (default), Substance objects, or Species objects
    # that carry a phase (phase_idx 0-3, given directly or through the key's suffix '(s)' '(l)' '(g)').  The phase has
    # no place in the reference semantics.
    skind = pick(draw, subs_kinds or SUBS_KINDS)
    if skind != "keys":
        case["subs_kind"] = skind
    if skind in ("species", "species_formula"):
        phase = {k: pick(draw, [0, 1, 3, 2, 0, 1]) for k in sorted(sysd["subs"])}
        if skind == "species_formula":
            ren = {k: "S%d%s" % (int(k[1:]) + 1, PHASE_SUFFIX[phase[k]]) for k in sysd["subs"]}
            phase = {ren[k]: p for k, p in phase.items()}
            case["sys"] = sysd = rename_keys(sysd, ren)
            case["conc"] = {ren[k]: v for k, v in conc.items()}
            case["alt"] = {ren[k]: v for k, v in alt.items()}
        case["phase"] = phase
    if cstr:
        which = draw(ints(0, 7))
        part = sorted(set(k for r in sysd["rxns"] for k in rxn_keys(r)))
        if which >= 6:
            fkeys = list(sysd["subs"])                          # what get_odesys(cstr=True) does
        elif which == 5:
            fkeys = pick_distinct(draw, sorted(sysd["subs"]), 1, len(sysd["subs"]))
        else:                                                   # feeds to species that take part in some reaction
            fkeys = pick_distinct(draw, part, 1, len(part))
        if cls == "sym":
            fr = draw(_cached("symF", lambda: st.one_of(st.just({"sym": "F"}), st.integers(0, 5), fracs(9, 5))))
            fc = {k: ({"sym": "f_" + k} if draw(ints(0, 3)) else draw(ints(0, 9))) for k in sorted(fkeys)}
        elif m:
            fr = draw(arr_values(m, "c")) if draw(ints(0, 1)) else draw(conc_values("float", "F"))
            fc = {k: draw(arr_values(m, "c")) for k in sorted(fkeys)}
        else:
            fr = draw(conc_values(cls, "F"))
            fc = {k: draw(conc_values(cls, k)) for k in sorted(fkeys)}
        case["cstr"] = {"fr": fr, "fc": fc}
    # the optional `variables` argument of the array form (law_of_mass_action_rates): omitted, {}, unrelated keys only,
    # or a whole state dict that also holds substance keys (with other values than the concentration vector)
    case["vmode"] = pick(draw, VMODES)
    # explicit `substance_keys` requests that are proper subsets of the substances, in drawn order: a single key, an
    # arbitrary subset, and one made only of substances no reaction touches (if there are any, else arbitrary)
    subs = list(sysd["subs"])
    touched = set(k for r in sysd["rxns"] for k in rxn_keys(r))
    idle = [k for k in subs if k not in touched]
    case["subsets"] = [pick_distinct(draw, subs, 1, 1), pick_distinct(draw, subs, 1, len(subs)),
                       pick_distinct(draw, idle or subs, 1, len(idle or subs))]
    return case


VMODES = ["empty", "state", "none", "unrelated", "state"]


@st.composite
def history_cases(draw):
    """One ReactionSystem object that is evaluated, changed in place and evaluated again:
    steps = [eval, (change+, eval)+]; change = sort_substances_inplace() | sort_substances_inplace(key=<an order>) |
    rsys += [reactions over the present substances] | rsys += ReactionSystem(reactions, present + new substances).
    `conc` / `alt` give a value for every key that ever exists; evaluations use them alternately."""
    case = draw(rate_cases(max_subs=6, max_rxns=5, subs_kinds=["keys", "keys", "species", "substance"]))
    cls = case["cls"]
    scalar_cls = "float" if cls == "ndarray" else cls
    m = case.get("m")
    subs = list(case["sys"]["subs"])
    all_rxns = list(case["sys"]["rxns"])
    spare = [k for k in KEYS if k not in subs]
    steps = [{"op": "eval"}]
    for _ in range(draw(ints(1, 3))):
        for _ in range(1 if draw(ints(0, 3)) else 2):
            op = pick(draw, ["sort", "reorder", "add_system", "sort", "add_rxns"])
            if op == "sort":
                steps.append({"op": "sort"})
                subs = sorted(subs)
            elif op == "reorder":
                subs = permutation(draw, subs)
                steps.append({"op": "reorder", "order": list(subs)})
            else:
                if op == "add_system":
                    new = [spare.pop(0) for _ in range(min(len(spare), draw(ints(1, 2))))]
                    osubs = permutation(draw, pick_distinct(draw, subs, 0, 2) + new)
                else:
                    osubs = subs
                rx = draw(reactions_over(osubs, max_n=2, cls=scalar_cls, start_index=len(all_rxns)))
                all_rxns.extend(rx)
                dedupe_params(all_rxns)          # only ever changes the reactions added last
                if op == "add_system":
                    steps.append({"op": "add_system", "subs": osubs, "rxns": rx})
                    subs = subs + [k for k in osubs if k not in subs]
                else:
                    steps.append({"op": "add_rxns", "rxns": rx})
        steps.append({"op": "eval"})
    for k in sorted(set(subs) - set(case["conc"])):
        if m:
            case["conc"][k], case["alt"][k] = draw(arr_values(m, "c")), draw(arr_values(m, "c"))
        elif cls == "sym":
            case["conc"][k], case["alt"][k] = {"sym": "c_" + k}, {"sym": "d_" + k}
        else:
            case["conc"][k], case["alt"][k] = draw(conc_values(cls, k)), draw(conc_values(cls, k))
        if "phase" in case:
            case["phase"][k] = pick(draw, [0, 1, 3, 2])
    case["steps"] = steps
    return case


# ---------------------------------------------------------------------------
# 3. reference semantics (description only; generic over Fraction / sympy arithmetic)
# ---------------------------------------------------------------------------

def all_reac(r, key):
    return r["reac"].get(key, 0) + r["inact_reac"].get(key, 0)


def all_prod(r, key):
    return r["prod"].get(key, 0) + r["inact_prod"].get(key, 0)


def ref_rate(r, k, conc):
    """k * prod(c_i ** nu_i) over the *active* reactants only."""
    v = k
    for key in sorted(r["reac"]):
        v = v * conc[key] ** r["reac"][key]
    return v


def ref_contributions(r, k, conc, keys):
    """{key: net stoichiometry (inactive parts included) * rate} for every key asked for (bystanders: 0)."""
    q = ref_rate(r, k, conc)
    return {key: net(r, key) * q for key in keys}


def ref_system_rates(sysd, ks, conc, cstr=None):
    """Per substance: sum over reactions (+ F*(c_feed - c) for the feed keys).  Returns (rates, scale) where scale is
    the sum of the absolute values of all terms (meaningful for Fractions only; None for symbolic input)."""
    rates = {s: 0 for s in sysd["subs"]}
    scale = {s: 0 for s in sysd["subs"]}
    numeric = True
    for r, k in zip(sysd["rxns"], ks):
        q = ref_rate(r, k, conc)
        numeric = numeric and isinstance(q, (int, Fraction, Vec))
        for s in sysd["subs"]:
            n = net(r, s)
            if n:
                rates[s] = rates[s] + n * q
                if numeric:
                    scale[s] = scale[s] + abs(n * q)
    if cstr is not None:
        fr, fc = cstr
        for s in sorted(fc):
            rates[s] = rates[s] + fr * (fc[s] - conc[s])
            if numeric and isinstance(fr, (int, Fraction, Vec)):
                scale[s] = scale[s] + abs(fr * fc[s]) + abs(fr * conc[s])
            else:
                numeric = False
    return rates, (scale if numeric else None)


def components(rxns):
    """Connected components of the reactions (two reactions are connected when they share a species), own union-find.
    Returns a list of sorted index lists, ordered by smallest index."""
    parent = list(range(len(rxns)))

    def find(i):
        while parent[i] != i:
            parent[i] = parent[parent[i]]
            i = parent[i]
        return i

    owner = {}
    for i, r in enumerate(rxns):
        for k in rxn_keys(r):
            if k in owner:
                a, b = find(owner[k]), find(i)
                if a != b:
                    parent[max(a, b)] = min(a, b)
            else:
                owner[k] = i
    groups = {}
    for i in range(len(rxns)):
        groups.setdefault(find(i), []).append(i)
    return [groups[g] for g in sorted(groups)]


def system_stats(sysd):
    rx = sysd["rxns"]
    touched = {}
    for r in rx:
        for k in rxn_keys(r):
            touched[k] = touched.get(k, 0) + 1
    both = any(any(k in r["prod"] or k in r["inact_prod"] for k in list(r["reac"]) + list(r["inact_reac"])) for r in rx)
    inactive = any(r["inact_reac"] or r["inact_prod"] for r in rx)
    return {"nr": len(rx), "ns": len(sysd["subs"]), "shared": any(v >= 2 for v in touched.values()),
            "both_sides": both, "inactive": inactive, "zero_order": any(not r["reac"] for r in rx),
            "isolated": sum(1 for s in sysd["subs"] if s not in touched),
            "components": len(components(rx)),
            "active_and_inactive": any(set(r["reac"]) & set(r["inact_reac"]) for r in rx),
            "order_max": max([sum(r["reac"].values()) for r in rx] or [0])}


def system_labels(sysd):
    s = system_stats(sysd)
    out = ["nr=%s" % (s["nr"] if s["nr"] <= 2 else "3-5" if s["nr"] <= 5 else "6+"),
           "ns=%s" % (s["ns"] if s["ns"] <= 2 else "3-5" if s["ns"] <= 5 else "6+"),
           "components=%s" % (s["components"] if s["components"] <= 2 else "3+")]
    for k in ("shared", "both_sides", "inactive", "zero_order", "active_and_inactive"):
        if s[k]:
            out.append(k)
    if s["isolated"]:
        out.append("isolated")
    return out, s


# ---------------------------------------------------------------------------
# 4. builders: description -> chempy objects (the only part that touches chempy)
# ---------------------------------------------------------------------------

def k_name(i):
    return "kname%d" % i


def build_reaction(r, idx=0, named_fk=False):
    """named_fk: a named constant becomes MassAction.fk(name) (what Reaction.rate_expr() makes of a string), the form
    in which the array API can look the name up in its `variables` argument."""
    from chempy import Reaction, Equilibrium
    parts = dict(inact_reac=dict(r["inact_reac"]) or None, inact_prod=dict(r["inact_prod"]) or None)
    if r.get("eq"):
        return Equilibrium(dict(r["reac"]), dict(r["prod"]), (native(r["k"][0]), native(r["k"][1])), **parts)
    kt = r.get("ktype", "plain")
    if kt == "named" and named_fk:
        from chempy.kinetics.rates import MassAction
        param = MassAction.fk(k_name(idx))
    elif kt == "named":
        param = k_name(idx)
    elif kt == "massaction":
        from chempy.kinetics.rates import MassAction
        param = MassAction([native(r["k"])])
    else:
        param = native(r["k"])
    return Reaction(dict(r["reac"]), dict(r["prod"]), param, **parts)


def build_system(sysd, rxn_objs=None, order=None, subs_arg="list", phase=None):
    """ReactionSystem over the description; `order` = permutation of reaction indices; substances are passed as an
    ordered container unless subs_arg says otherwise ('none', 'set', 'tuple', 'str', 'odict' = 'substance';
    'species': Species(key, phase_idx=phase[key]); 'species_formula': Species.from_formula(key), the phase is read from
    the key's suffix and the keys are sulfur allotropes 'S8(s)', so the element balance check is switched off)."""
    from collections import OrderedDict
    from chempy import ReactionSystem, Substance
    if rxn_objs is None:
        rxn_objs = [build_reaction(r, i) for i, r in enumerate(sysd["rxns"])]
    if order is not None:
        rxn_objs = [rxn_objs[i] for i in order]
    subs = list(sysd["subs"])
    if subs_arg == "none":
        return ReactionSystem(rxn_objs)
    if subs_arg == "set":
        return ReactionSystem(rxn_objs, set(subs))
    if subs_arg == "tuple":
        return ReactionSystem(rxn_objs, tuple(subs))
    if subs_arg == "str":
        return ReactionSystem(rxn_objs, " ".join(subs))
    if subs_arg in ("odict", "substance"):
        return ReactionSystem(rxn_objs, OrderedDict((k, Substance(k)) for k in subs))
    if subs_arg == "species":
        from chempy import Species
        return ReactionSystem(rxn_objs, OrderedDict((k, Species(k, phase_idx=phase[k])) for k in subs))
    if subs_arg == "species_formula":
        from chempy import Species
        return ReactionSystem(rxn_objs, OrderedDict((k, Species.from_formula(k)) for k in subs),
                              dont_check={"balance"})
    return ReactionSystem(rxn_objs, subs)


def native_variables(case, conc_key="conc"):
    """The `variables` dict handed to Reaction.rate / ReactionSystem.rates."""
    v = {k: native(n) for k, n in case[conc_key].items()}
    for i, r in enumerate(case["sys"]["rxns"]):
        if r.get("ktype") == "named":
            v[k_name(i)] = native(r["k"])
    return v

# -*- coding: utf-8 -*-
"""Equilibrium systems for C07 / C08: species/reaction pools, JSON case generators and the reference model.

Everything the oracles need is computed here from the JSON case description with Fractions / floats / mpmath:
compositions come from the hand-checked table COMP (never from chempy's parser), reactions are coefficient dicts,
Q = prod c_i^nu_i, element/charge totals = sum comp_ik c_i.  chempy objects are built (lazily imported) only by
`build_eqsys`, which hands chempy the *names* (formulas) and coefficient dicts.
"""
from fractions import Fraction as F
import math

from hypothesis import strategies as st

# ---------------------------------------------------------------------------------------------------------------
# species: formula -> composition {Z: count, 0: charge}   (hand-checked; Z: H1 C6 N7 O8 F9 Na11 P15 S16 Cl17 K19
#                                                           Ca20 Fe26 Cu29 Ag47 Ba56)
# ---------------------------------------------------------------------------------------------------------------
COMP = {
    "H2O": {1: 2, 8: 1},
    "H+": {1: 1, 0: 1},
    "OH-": {8: 1, 1: 1, 0: -1},
    "NH4+": {7: 1, 1: 4, 0: 1},
    "NH3": {7: 1, 1: 3},
    "CH3COOH": {6: 2, 1: 4, 8: 2},
    "CH3COO-": {6: 2, 1: 3, 8: 2, 0: -1},
    "H2CO3": {1: 2, 6: 1, 8: 3},
    "HCO3-": {1: 1, 6: 1, 8: 3, 0: -1},
    "CO3-2": {6: 1, 8: 3, 0: -2},
    "H3PO4": {1: 3, 15: 1, 8: 4},
    "H2PO4-": {1: 2, 15: 1, 8: 4, 0: -1},
    "HPO4-2": {1: 1, 15: 1, 8: 4, 0: -2},
    "PO4-3": {15: 1, 8: 4, 0: -3},
    "HF": {1: 1, 9: 1},
    "F-": {9: 1, 0: -1},
    "HCN": {1: 1, 6: 1, 7: 1},
    "CN-": {6: 1, 7: 1, 0: -1},
    "Cu+2": {29: 1, 0: 2},
    "Cu(NH3)+2": {29: 1, 7: 1, 1: 3, 0: 2},
    "Cu(NH3)2+2": {29: 1, 7: 2, 1: 6, 0: 2},
    "Cu(NH3)3+2": {29: 1, 7: 3, 1: 9, 0: 2},
    "Cu(NH3)4+2": {29: 1, 7: 4, 1: 12, 0: 2},
    "Fe+3": {26: 1, 0: 3},
    "SCN-": {16: 1, 6: 1, 7: 1, 0: -1},
    "FeSCN+2": {26: 1, 16: 1, 6: 1, 7: 1, 0: 2},
    "Ag+": {47: 1, 0: 1},
    "Ag(NH3)+": {47: 1, 7: 1, 1: 3, 0: 1},
    "Ag(NH3)2+": {47: 1, 7: 2, 1: 6, 0: 1},
    # spectators (never in a homogeneous pool reaction)
    "Na+": {11: 1, 0: 1},
    "Cl-": {17: 1, 0: -1},
    "K+": {19: 1, 0: 1},
    "NO3-": {7: 1, 8: 3, 0: -1},
    # precipitation systems
    "Ba+2": {56: 1, 0: 2},
    "SO4-2": {16: 1, 8: 4, 0: -2},
    "Ca+2": {20: 1, 0: 2},
    "NaCl(s)": {11: 1, 17: 1},
    "AgCl(s)": {47: 1, 17: 1},
    "BaSO4(s)": {56: 1, 16: 1, 8: 4},
    "KNO3(s)": {19: 1, 7: 1, 8: 3},
    "CaF2(s)": {20: 1, 9: 2},
    # average / empirical formulas with non-integer (dyadic decimal) counts, exact as Fractions; chempy's parser returns
    # the same numbers as float64 (2.5, 0.125, ... are exactly representable).  Used by the C07 pool BASE_FRAC only
    "CH2.5O": {6: 1, 1: F(5, 2), 8: 1},
    "C2H5O2": {6: 2, 1: 5, 8: 2},
    "CH3.5O+": {6: 1, 1: F(7, 2), 8: 1, 0: 1},
    "C0.25H0.5": {6: F(1, 4), 1: F(1, 2)},
    "CH2": {6: 1, 1: 2},
    "N0.75H2.25": {7: F(3, 4), 1: F(9, 4)},
    "N0.25H0.75": {7: F(1, 4), 1: F(3, 4)},
    "S0.125O0.375": {16: F(1, 8), 8: F(3, 8)},
    "SO3": {16: 1, 8: 3},
    "N0.5H1.5": {7: F(1, 2), 1: F(3, 2)},
}
ORDER = list(COMP)                        # canonical species order
SPECTATORS = ["Na+", "Cl-", "K+", "NO3-"]

# base pool of homogeneous equilibria: (tag, reac, prod, log10 K).  Every reaction introduces a species of its own, so
# the pool is linearly independent; dependent systems arise from integer combinations (C07 generator).
# log10 K: textbook 25 C values (water as a reactant with [H2O] = 55.5: K = 1e-14 / 55.5).
BASE = [
    ("water", {"H2O": 1}, {"H+": 1, "OH-": 1}, -14.0 - math.log10(55.5)),
    ("NH4+", {"NH4+": 1}, {"H+": 1, "NH3": 1}, -9.25),
    ("HOAc", {"CH3COOH": 1}, {"H+": 1, "CH3COO-": 1}, -4.76),
    ("H2CO3", {"H2CO3": 1}, {"H+": 1, "HCO3-": 1}, -6.35),
    ("HCO3-", {"HCO3-": 1}, {"H+": 1, "CO3-2": 1}, -10.33),
    ("H3PO4", {"H3PO4": 1}, {"H+": 1, "H2PO4-": 1}, -2.15),
    ("H2PO4-", {"H2PO4-": 1}, {"H+": 1, "HPO4-2": 1}, -7.20),
    ("HPO4-2", {"HPO4-2": 1}, {"H+": 1, "PO4-3": 1}, -12.35),
    ("HF", {"HF": 1}, {"H+": 1, "F-": 1}, -3.17),
    ("HCN", {"HCN": 1}, {"H+": 1, "CN-": 1}, -9.21),
    ("CuNH3_1", {"Cu+2": 1, "NH3": 1}, {"Cu(NH3)+2": 1}, 4.04),
    ("CuNH3_2", {"Cu(NH3)+2": 1, "NH3": 1}, {"Cu(NH3)2+2": 1}, 3.43),
    ("CuNH3_3", {"Cu(NH3)2+2": 1, "NH3": 1}, {"Cu(NH3)3+2": 1}, 2.80),
    ("CuNH3_4", {"Cu(NH3)3+2": 1, "NH3": 1}, {"Cu(NH3)4+2": 1}, 1.48),
    ("FeSCN", {"Fe+3": 1, "SCN-": 1}, {"FeSCN+2": 1}, 2.95),
    ("AgNH3_1", {"Ag+": 1, "NH3": 1}, {"Ag(NH3)+": 1}, 3.31),
    ("AgNH3_2", {"Ag(NH3)+": 1, "NH3": 1}, {"Ag(NH3)2+": 1}, 3.91),
]
NBASE = len(BASE)

# C07 only: equilibria over species with non-integer formula counts (.5, .25, .75, .125, .375); again every reaction
# introduces a species of its own, so BASE + BASE_FRAC stays linearly independent.  Some share H+, NH3, Cu+2, Cu(NH3)+2
# with BASE (coupling).  The constants are placeholders (C07 defines K := Q(c_eq)).
BASE_FRAC = [
    ("dimer_half", {"CH2.5O": 2}, {"C2H5O2": 1}, 0.3),
    ("protonation_half", {"CH2.5O": 1, "H+": 1}, {"CH3.5O+": 1}, 2.0),
    ("tetramer_quarter", {"C0.25H0.5": 4}, {"CH2": 1}, 1.0),
    ("NH3_three_quarters", {"N0.75H2.25": 1, "N0.25H0.75": 1}, {"NH3": 1}, 1.5),
    ("SO3_eighths", {"S0.125O0.375": 8}, {"SO3": 1}, 0.5),
    ("CuNH3_halves", {"Cu+2": 1, "N0.5H1.5": 2}, {"Cu(NH3)+2": 1}, 4.0),
]
POOL07 = BASE + BASE_FRAC
NPOOL07 = len(POOL07)

# single salts  solid = cation + n anion
SALTS = [
    ("NaCl(s)", "Na+", "Cl-", 1),
    ("AgCl(s)", "Ag+", "Cl-", 1),
    ("BaSO4(s)", "Ba+2", "SO4-2", 1),
    ("KNO3(s)", "K+", "NO3-", 1),
    ("CaF2(s)", "Ca+2", "F-", 2),
]


def net_of(reac, prod):
    out = {}
    for k, v in prod.items():
        out[k] = out.get(k, 0) + v
    for k, v in reac.items():
        out[k] = out.get(k, 0) - v
    return {k: v for k, v in out.items() if v != 0}


def comp_keys(species):
    ks = set()
    for s in species:
        ks.update(COMP[s])
    return sorted(ks)


def totals(conc, species):
    """{composition key: sum_i comp_ik * conc_i}; conc: {name: number}."""
    out = {}
    for k in comp_keys(species):
        out[k] = sum(COMP[s].get(k, 0) * conc[s] for s in species)
    return out


def abs_totals(conc, species):
    out = {}
    for k in comp_keys(species):
        out[k] = sum(abs(COMP[s].get(k, 0) * conc[s]) for s in species)
    return out


def is_balanced(net):
    ks = set()
    for s in net:
        ks.update(COMP[s])
    return all(sum(COMP[s].get(k, 0) * n for s, n in net.items()) == 0 for k in ks)


for _tag, _r, _p, _lk in POOL07:
    assert is_balanced(net_of(_r, _p)), _tag
for _s, _m, _x, _n in SALTS:
    assert is_balanced(net_of({_s: 1}, {_m: 1, _x: _n})), _s


def quotient(conc, net):
    """Exact mass-action quotient prod c^nu for Fraction concentrations."""
    q = F(1)
    for s, n in net.items():
        q *= F(conc[s]) ** n
    return q


def rank(rows):
    """Rank of a list of rows of Fractions (plain Gauss elimination)."""
    m = [[F(x) for x in r] for r in rows]
    rk = 0
    ncol = len(m[0]) if m else 0
    for c in range(ncol):
        piv = None
        for r in range(rk, len(m)):
            if m[r][c] != 0:
                piv = r
                break
        if piv is None:
            continue
        m[rk], m[piv] = m[piv], m[rk]
        pv = m[rk][c]
        m[rk] = [x / pv for x in m[rk]]
        for r in range(len(m)):
            if r != rk and m[r][c] != 0:
                f = m[r][c]
                m[r] = [a - f * b for a, b in zip(m[r], m[rk])]
        rk += 1
    return rk


def frac(s):
    if isinstance(s, str):
        p, _, q = s.partition("/")
        return F(int(p), int(q or 1))
    return F(s)


def fstr(x):
    x = F(x)
    return "%d/%d" % (x.numerator, x.denominator)


# ---------------------------------------------------------------------------------------------------------------
# C07: exact model
# ---------------------------------------------------------------------------------------------------------------
K_FACTORS = ["2", "1/2", "3/2", "1001/1000", "999999/1000000", "1000000", "1/1000"]
INIT_SHIFTS = ["1", "-1/2", "1/1000", "10", "-1/1000000"]
STATE_FACTORS = ["2", "1/2", "1001/1000", "1/100", "1000"]
DIR_FRACS = ["1/2", "-1/2", "1/1000", "-1/1000", "9/10", "-9/10"]
XI_FRACS = ["0", "1/2", "-1/2", "1", "-1", "1/3", "-2/3", "7/8", "-1/100", "1/1000"]


class Model07(object):
    """Reference quantities of one C07 case (all exact)."""

    def __init__(self, case):
        self.species = list(case["species"])
        self.rxns = [(dict(r["reac"]), dict(r["prod"])) for r in case["rxns"]]
        self.nets = [net_of(r, p) for r, p in self.rxns]
        self.ns, self.nr = len(self.species), len(self.rxns)
        self.ceq = {s: frac(case["ceq"][s]) for s in self.species}
        assert all(v > 0 for v in self.ceq.values())
        assert all(is_balanced(n) and n for n in self.nets)
        self.K = [quotient(self.ceq, n) for n in self.nets]
        # initial state: apply the reactions one after the other backwards, each by a fraction of what keeps c >= 0
        c = dict(self.ceq)
        for n, t in zip(self.nets, case["xi"]):
            c = self.move(c, n, frac(t))
        self.init = c
        self.N = [[n.get(s, 0) for s in self.species] for n in self.nets]
        self.keys = comp_keys(self.species)
        self.B = [[COMP[s].get(k, 0) for s in self.species] for k in self.keys]
        self.rank_N = rank(self.N)
        self.rank_B = rank(self.B)

    @staticmethod
    def move(c, net, t):
        """c + t*bound*net with bound = largest extent (in the direction of sign t) that keeps every c_i >= 0."""
        if t == 0:
            return dict(c)
        sgn = 1 if t > 0 else -1
        lim = [c[s] / abs(n) for s, n in net.items() if n * sgn < 0]
        bound = min(lim)          # a balanced non-empty reaction has species on both sides
        ext = t * bound
        out = dict(c)
        for s, n in net.items():
            out[s] = c[s] + ext * n
        return out

    def coupled(self):
        for i in range(self.nr):
            for j in range(i + 1, self.nr):
                if set(self.nets[i]) & set(self.nets[j]):
                    return True
        return False

    def charged(self):
        return any(COMP[s].get(0, 0) != 0 for n in self.nets for s in n)

    def fractional(self):
        """Species with a non-integer formula count (chempy then carries float64 composition entries)."""
        return [s for s in self.species if any(F(v).denominator != 1 for v in COMP[s].values())]

    def n_equations(self, rref_equil, rref_preserv):
        return (self.rank_N if rref_equil else self.nr) + (self.rank_B if rref_preserv else len(self.keys))


@st.composite
def c07_cases(draw, max_base=3, max_rxn=4, max_spect=2):
    nb = draw(st.integers(1, max_base))
    base = draw(st.lists(st.integers(0, NPOOL07 - 1), min_size=nb, max_size=nb, unique=True))
    nr = draw(st.integers(1, max_rxn))
    # drawn early (Hypothesis simplifies the tail of long draw sequences); indices are taken modulo nr / ns by the check
    pert = {
        "k_idx": draw(st.integers(0, nr - 1)), "k_fac": draw(st.sampled_from(K_FACTORS)),
        "init_sp": draw(st.integers(0, 11)), "init_shift": draw(st.sampled_from(INIT_SHIFTS)),
        "state_sp": draw(st.integers(0, 11)), "state_fac": draw(st.sampled_from(STATE_FACTORS)),
        "dir_idx": draw(st.integers(0, nr - 1)), "dir_frac": draw(st.sampled_from(DIR_FRACS)),
        "n_states": draw(st.sampled_from([3, 2, 4])),      # rows of the 2-D batch handed to equilibrium_quotients
    }
    xi = [draw(st.sampled_from(XI_FRACS)) for _ in range(nr)]
    rxns = []
    seen = set()
    for j in range(nr):
        m = [draw(st.sampled_from([0, 1, -1, 2, -2])) for _ in base]
        if not any(m):
            m[j % nb] = 1                       # simplest shape: the j-th reaction is a plain pool reaction
        while tuple(m) in seen or not any(m):   # ReactionSystem rejects duplicate reactions (precondition): the pool
            m[j % nb] += 1                      # is independent, so distinct multiplier vectors = distinct reactions
        seen.add(tuple(m))
        net = {}
        for mult, bi in zip(m, base):
            for s, n in net_of(POOL07[bi][1], POOL07[bi][2]).items():
                net[s] = net.get(s, 0) + mult * n
        net = {s: n for s, n in net.items() if n != 0}
        rxns.append({"reac": {s: -n for s, n in net.items() if n < 0}, "prod": {s: n for s, n in net.items() if n > 0}})
    used = set()
    for bi in base:
        used.update(POOL07[bi][1])
        used.update(POOL07[bi][2])
    nsp = draw(st.integers(0, max_spect))
    spect = draw(st.lists(st.sampled_from(SPECTATORS), min_size=nsp, max_size=nsp, unique=True)) if nsp else []
    species = [s for s in ORDER if s in used] + [s for s in SPECTATORS if s in spect]
    species = list(draw(st.permutations(species)))
    ceq = {}
    for s in species:
        mant = draw(st.integers(1, 99))
        dec = draw(st.integers(0, 6))
        ceq[s] = fstr(F(mant, 10 ** dec))
    return {"species": species, "rxns": rxns, "ceq": ceq, "xi": xi, "pert": pert}


def build_eqsys(species, rxns, Ks):
    """chempy objects from names, coefficient dicts and constants (lazy import)."""
    from chempy import Species, Equilibrium
    from chempy.equilibria import EqSystem
    subs = [Species.from_formula(s) for s in species]
    eqs = [Equilibrium(dict(r), dict(p), k) for (r, p), k in zip(rxns, Ks)]
    return EqSystem(eqs, subs), subs


# ---------------------------------------------------------------------------------------------------------------
# C08: floating-point model
# ---------------------------------------------------------------------------------------------------------------
CHAINS = ["default", "loglin", "lin", "solve"]
WATER_CONC = 55.5


class Model08(object):
    def __init__(self, case):
        self.idx = list(case["eqs"])
        assert len(set(self.idx)) == len(self.idx) and 1 <= len(self.idx) <= 4
        self.rxns = [(dict(BASE[i][1]), dict(BASE[i][2])) for i in self.idx]
        self.nets = [net_of(r, p) for r, p in self.rxns]
        self.logK = [BASE[i][3] + d / 1000.0 for i, d in zip(self.idx, case["dlogk"])]
        self.K = [10.0 ** lk for lk in self.logK]
        used = set()
        for n in self.nets:
            used.update(n)
        self.species = [s for s in ORDER if s in used]
        self.c0 = {}
        for s in self.species:
            self.c0[s] = WATER_CONC if s == "H2O" else 10.0 ** (case["lc0"][s] / 1000.0)

    def coupled(self):
        for i in range(len(self.nets)):
            for j in range(i + 1, len(self.nets)):
                if set(self.nets[i]) & set(self.nets[j]):
                    return True
        return False


def _c08_body(draw, max_eq=4):
    n = draw(st.integers(1, max_eq))
    eqs = draw(st.lists(st.integers(0, NBASE - 1), min_size=n, max_size=n, unique=True))
    dlogk = [draw(st.integers(-2000, 2000)) for _ in eqs]        # log10 K shift in 1/1000 decade: U(-2, 2)
    used = set()
    for i in eqs:
        used.update(BASE[i][1])
        used.update(BASE[i][2])
    lc0 = {}
    for s in ORDER:
        if s in used and s != "H2O":
            lc0[s] = -draw(st.integers(0, 6000))                  # log10 c0 in 1/1000 decade: [1e-6, 1], shrinks to 1
    return {"eqs": eqs, "dlogk": dlogk, "lc0": lc0}


@st.composite
def c08_cases(draw, chains=CHAINS):
    chain = draw(st.sampled_from(chains))      # drawn first: Hypothesis simplifies the tail of long draw sequences
    body = _c08_body(draw)
    body["chain"] = chain
    return body


@st.composite
def c08_single(draw):
    chain = draw(st.sampled_from(["default", "loglin", "lin"]))
    body = _c08_body(draw, max_eq=1)
    body["chain"] = chain
    return body


@st.composite
def c08_batches(draw, size=200):
    return {"batch": [_c08_body(draw) for _ in range(size)]}


PRECIP_CHAINS = ["lin", "log", "loglin"]
PRECIP_SHAPES = ["ions", "solid", "ions+solid", "cation+solid", "anion+solid"]


class ModelPrecip(object):
    def __init__(self, case):
        self.solid, self.cat, self.an, self.n_an = SALTS[case["salt"]]
        self.species = [self.cat, self.an, self.solid]
        self.Ksp = 10.0 ** (case["lksp"] / 1000.0)
        self.c0 = {}
        self.near = case.get("near")
        if self.near is not None:
            # near-saturation state, built so that the ion product of the *all-dissolved* state is Ksp * (1 + delta):
            # total cation C (all solid dissolved) is drawn, total anion A = (Ksp (1 + delta) / C)^(1/n), and a fraction
            # solid_pm/1000 of the largest amount of solid those totals allow (min(C, A/n)) starts as solid.
            nr = self.near
            self.delta = nr["sign"] * 10.0 ** (nr["ld"] / 1000.0)
            ctot = 10.0 ** (nr["lcat"] / 1000.0)
            atot = (self.Ksp * (1.0 + self.delta) / ctot) ** (1.0 / self.n_an)
            s0 = nr["solid_pm"] / 1000.0 * min(ctot, atot / self.n_an)
            self.c0 = {self.cat: ctot - s0, self.an: atot - self.n_an * s0, self.solid: s0}
        else:
            for s, code in zip(self.species, case["amounts"]):
                self.c0[s] = 0.0 if code is None else 10.0 ** (code / 1000.0)
        self.net = {self.solid: -1, self.cat: 1, self.an: self.n_an}
        # orientation handed to chempy: dissolution  MX(s) = M + nX  (K = Ksp)  or precipitation  M + nX = MX(s)  (1/Ksp)
        self.reverse = bool(case.get("reverse", False))
        if self.reverse:
            self.rxn = ({self.cat: 1, self.an: self.n_an}, {self.solid: 1})
            self.K = 1.0 / self.Ksp
        else:
            self.rxn = ({self.solid: 1}, {self.cat: 1, self.an: self.n_an})
            self.K = self.Ksp


@st.composite
def precip_cases(draw, salts=(0, 1, 2, 3)):
    chain = draw(st.sampled_from(PRECIP_CHAINS))
    reverse = draw(st.booleans())
    salt = draw(st.sampled_from(list(salts)))
    lksp = -draw(st.integers(0, 4000))                 # Ksp over 4 decades: [1e-4, 1]
    shape = draw(st.sampled_from(PRECIP_SHAPES))

    def amount():
        return draw(st.integers(-3000, 1000))          # [1e-3, 10]
    cat = amount() if shape in ("ions", "ions+solid", "cation+solid") else None
    an = amount() if shape in ("ions", "ions+solid", "anion+solid") else None
    sol = amount() if shape != "ions" else None
    return {"salt": salt, "lksp": lksp, "amounts": [cat, an, sol], "shape": shape,
            "chain": chain, "reverse": reverse}


NEAR_DECADES = list(range(2, 9))       # |delta| = 10^-(d + f/1000), d in 2..8, f in 0..1000: log-uniform over [1e-9, 1e-2]


def _decade_code(draw, decades):
    """-(1000 d + f): the decade comes from sampled_from (Hypothesis' bounded integers are strongly biased towards
    their shrink target, which would put most cases into the first decade), the position inside it from integers."""
    return -(1000 * draw(st.sampled_from(decades)) + draw(st.integers(0, 1000)))


@st.composite
def precip_near_cases(draw, salts=(0, 1, 2, 3)):
    """Initial states *near saturation*: the ion product of the all-dissolved state is Ksp * (1 + delta), delta of
    either sign with |delta| log-uniform in [1e-9, 1e-2]; with and without solid initially present.  Both total ion
    amounts stay inside [1e-3, 10] (the domain of `precip_cases`)."""
    chain = draw(st.sampled_from(PRECIP_CHAINS))
    reverse = draw(st.booleans())
    salt = draw(st.sampled_from(list(salts)))
    n_an = SALTS[salt][3]
    lksp = _decade_code(draw, [0, 1, 2, 3])
    sign = draw(st.sampled_from([1, -1]))
    ld = _decade_code(draw, NEAR_DECADES)
    # log10 C in [-3, 1] such that log10 A = (lksp - log10 C) / n is in [-3, 1] as well
    lo, hi = max(-3000, lksp - 1000 * n_an), min(1000, lksp + 3000 * n_an)
    lcat = max(lo, hi - ((hi - lo) * draw(st.sampled_from(range(8)))) // 8 - draw(st.integers(0, (hi - lo) // 8)))
    with_solid = draw(st.booleans())
    solid_pm = draw(st.sampled_from([500, 1, 10, 100, 250, 750, 900, 990, 999])) if with_solid else 0
    return {"salt": salt, "lksp": lksp, "near": {"sign": sign, "ld": ld, "lcat": lcat, "solid_pm": solid_pm},
            "shape": "near+solid" if with_solid else "near", "chain": chain, "reverse": reverse}


# ---------------------------------------------------------------------------------------------------------------
# C08: series / grid solves (EqSystem.roots, EqSystem.solve(init_concs, varied))
# ---------------------------------------------------------------------------------------------------------------
SERIES_ROOTS_CHAINS = ["default", "loglin", "lin", "linrel", "loglinrel"]     # linrel = (NumSysLinRel,), loglinrel = (Log, LinRel)


class ModelSeries(Model08):
    """Model08 plus the varied substances: `varied` = [[name, [log10 value in 1/1000 decade, ...]], ...] in the order in
    which the keys are handed to chempy."""

    def __init__(self, case):
        Model08.__init__(self, case)
        self.api = case["api"]
        self.varied = [(k, [10.0 ** (c / 1000.0) for c in codes]) for k, codes in case["varied"]]
        self.keys = [k for k, _ in self.varied]
        assert len(set(self.keys)) == len(self.keys) and all(k in self.species and k != "H2O" for k in self.keys)
        assert (self.api == "roots" and len(self.keys) == 1) or (self.api == "solve" and 1 <= len(self.keys) <= 2)
        self.values = dict(self.varied)

    def in_substance_order(self):
        pos = [self.species.index(k) for k in self.keys]
        return pos == sorted(pos)

    def point(self, assignment):
        """The initial state of one grid point: base c0 with the varied entries replaced ({name: value})."""
        import copy
        m = copy.copy(self)
        m.c0 = dict(self.c0)
        m.c0.update(assignment)
        return m


SERIES_LAYOUTS = ["solve:1", "solve:2:in_order", "solve:2:out_of_order", "roots"]


@st.composite
def c08_series_cases(draw):
    """Series / grid solves over the homogeneous domain: EqSystem.roots (one varied substance) and
    EqSystem.solve(init_concs, varied) with one or two varied substances, 2-4 values each (10^U(-6, 0)), the two keys
    handed over in substance order or reversed."""
    layout = draw(st.sampled_from(SERIES_LAYOUTS))
    api = layout.split(":")[0]
    chain = "solve" if api == "solve" else draw(st.sampled_from(SERIES_ROOTS_CHAINS))
    body = _c08_body(draw, max_eq=3)
    names = [s for s in ORDER if s in body["lc0"]]          # substance order, water excluded (it stays at 55.5)
    a = draw(st.integers(0, len(names) - 2))                 # every pool reaction has >= 2 species besides water
    if ":2:" in layout:
        b = draw(st.integers(a + 1, len(names) - 1))
        picks = [a, b] if layout.endswith("in_order") else [b, a]
    else:
        picks = [a]
    varied = []
    for i in picks:
        nv = draw(st.sampled_from([2, 3, 4]))
        varied.append([names[i], [_decade_code(draw, [0, 1, 2, 3, 4, 5]) for _ in range(nv)]])
    body.update({"api": api, "chain": chain, "varied": varied})
    return body


# ---------------------------------------------------------------------------------------------------------------
# C08: optional arguments of EqSystem.root - the explicit guess x0 and the formulation / solver options
# ---------------------------------------------------------------------------------------------------------------
X0_KINDS = ["scaled", "random", "other_solution", "own_solution"]
X0_SCALES = [-1000, -700, -500, -301, -100, 100, 301, 500, 700, 900]      # log10 factor in 1/1000 decade (+ 0..100)
ROOT_CHAINS = ["lin", "default", "loglin"]      # (NumSysLin,) first: the only chain whose start depends on x0
NEQSYS_TYPES = ["chained_conditional", "conditional_chained", "static_conditions"]
ROOT_TOLS = [None, -10000, -12000]              # log10 tol in 1/1000 decade; None = pyneqsys default 1e-8


def _x0_spec(draw, body, kinds):
    kind = draw(st.sampled_from(kinds))
    spec = {"kind": kind}
    if kind == "scaled":
        spec["scale"] = draw(st.sampled_from(X0_SCALES)) + draw(st.integers(0, 100))
    elif kind in ("random", "other_solution"):
        # random: the guess itself; other_solution: a second initial state whose default-chain solution is the guess
        spec["codes"] = {s: _decade_code(draw, [0, 1, 2, 3, 4, 5]) for s in ORDER if s in body["lc0"]}
    return spec


class ModelRootArgs(Model08):
    def __init__(self, case):
        Model08.__init__(self, case)
        self.x0 = case.get("x0")
        o = dict(case.get("opts") or {})
        self.opts = {}
        if o.get("rref_equil"):
            self.opts["rref_equil"] = True
        if o.get("rref_preserv"):
            self.opts["rref_preserv"] = True
        if o.get("neqsys_type", NEQSYS_TYPES[0]) != NEQSYS_TYPES[0]:
            self.opts["neqsys_type"] = o["neqsys_type"]
        if o.get("tol") is not None:
            self.opts["tol"] = 10.0 ** (o["tol"] / 1000.0)
        if o.get("method"):
            self.opts["method"] = o["method"]

    def guess_state(self):
        """{name: value} described by the x0 spec ('scaled', 'random') or the second initial state ('other_solution')."""
        k = self.x0["kind"]
        if k == "scaled":
            f = 10.0 ** (self.x0["scale"] / 1000.0)
            return {s: v * f for s, v in self.c0.items()}
        if k in ("random", "other_solution"):
            return {s: (WATER_CONC if s == "H2O" else 10.0 ** (self.x0["codes"][s] / 1000.0)) for s in self.species}
        return dict(self.c0)


@st.composite
def c08_x0_cases(draw):
    chain = draw(st.sampled_from(ROOT_CHAINS))
    body = _c08_body(draw, max_eq=3)
    body["chain"] = chain
    body["x0"] = _x0_spec(draw, body, X0_KINDS)
    return body


@st.composite
def c08_option_cases(draw):
    chain = draw(st.sampled_from(["default", "loglin", "lin"]))
    opts = {"rref_equil": draw(st.sampled_from([False, True])), "rref_preserv": draw(st.sampled_from([False, True])),
            "neqsys_type": draw(st.sampled_from(NEQSYS_TYPES)), "tol": draw(st.sampled_from(ROOT_TOLS)),
            "method": draw(st.sampled_from([None, "lm"]))}
    with_x0 = draw(st.sampled_from([False, False, True]))
    body = _c08_body(draw)
    body["chain"] = chain
    body["opts"] = opts
    if with_x0:
        body["x0"] = _x0_spec(draw, body, ["scaled", "random"])
    return body


# ---------------------------------------------------------------------------------------------------------------
# C08: one solver object serving several initial states (the `neqsys=` argument of EqSystem.root)
# ---------------------------------------------------------------------------------------------------------------
REUSE_CHAINS = ["linrel", "loglinrel", "default", "loglin", "lin"]


class ModelReuse(Model08):
    """Model08 (= state 0) plus 1-2 further initial states of the same species: `more` = [{name: log10 c0 code}, ...]."""

    def __init__(self, case):
        Model08.__init__(self, case)
        self.states = [dict(self.c0)]
        for codes in case["more"]:
            self.states.append({s: (WATER_CONC if s == "H2O" else 10.0 ** (codes[s] / 1000.0)) for s in self.species})

    def state(self, k):
        import copy
        m = copy.copy(self)
        m.c0 = dict(self.states[k])
        return m


@st.composite
def c08_reuse_cases(draw):
    chain = draw(st.sampled_from(REUSE_CHAINS))
    body = _c08_body(draw, max_eq=3)
    n_more = draw(st.sampled_from([1, 2]))
    body["more"] = [{s: _decade_code(draw, [0, 1, 2, 3, 4, 5]) for s in ORDER if s in body["lc0"]} for _ in range(n_more)]
    body["chain"] = chain
    return body

# -*- coding: utf-8 -*-
"""G2 (C04/C05 flavour): JSON-able reaction systems with an elementary reference semantics.

Two families of cases

* ``programs()``   - kinetic "programs" for C04: free stoichiometry (catalysts, inactive coefficients, zeroth
  order, several reactions per species), a permuted substance order, per-reaction rate-law kind
  ("ma" | "arr" | "eyr") with numeric parameters in one exactness mode ("int" | "frac" | "float"; rate constants
  may be exactly zero), an evaluation point and the knobs of the build configurations (including how the optional
  symbol arguments of the explicit builder are given: ``case["sym"]``).
* ``composed_systems()`` - systems whose substances all carry a composition (explicit dicts, real formulas
  from hand-checked families, G1-style association complexes), reactions balanced *by construction* from an
  exact integer null-space of the composition matrix, optionally broken in a controlled way for C05.  With
  ``dyadic_share`` compositions, charges and coefficients may be non-integers, all dyadic (exact in binary floating
  point): numbers in compositions are int | float, coefficients int | float | "p/q" (``rx["coef"]`` says which,
  ``rx["checks"]`` how the Reaction constructor is told to admit them).

Numbers in a case: int -> int, exact rational -> "p/q" string, float -> float.
Nothing here calls chempy.  The reference semantics lives in ``RefPoly``/``net``/``comp_matrix``.
"""
from fractions import Fraction
from math import gcd

from hypothesis import strategies as st

from .refdata import Z_OF
from . import gen_formula as G

# ---------------------------------------------------------------------------------------------------
# numbers
# ---------------------------------------------------------------------------------------------------


def num(x):
    """JSON number -> the Python object handed to chempy (int | Fraction | float)."""
    if isinstance(x, str):
        return Fraction(x)
    return x


def frac(x):
    """JSON number -> exact Fraction (a float stands for its exact binary value)."""
    if isinstance(x, str):
        return Fraction(x)
    return Fraction(x)


def zero(mode):
    """The exact zero of an exactness mode: int 0 | Fraction(0) (written "0/1") | 0.0."""
    return 0 if mode == "int" else "0/1" if mode == "frac" else 0.0


def _rate_constant(draw, mode, lo_exp, hi_exp):
    """A rate constant (pre-exponential factor): positive, or - about one in nine - exactly zero (a reaction that is
    switched off but still a member of the system)."""
    if draw(st.integers(0, 8)) == 8:
        return zero(mode)
    return _number(draw, mode, lo_exp, hi_exp)


def _number(draw, mode, lo_exp=-3, hi_exp=3, allow_zero=False):
    """Positive number in the given exactness mode; shrinks towards 1."""
    if allow_zero and draw(st.integers(0, 11)) == 11:
        return 0 if mode != "float" else 0.0
    if mode == "int":
        return draw(st.integers(1, 9))
    if mode == "frac":
        p = draw(st.integers(1, 12))
        q = draw(st.integers(1, 12))
        return "%d/%d" % (p, q)
    m = draw(st.integers(1, 9999))
    e = draw(st.integers(lo_exp, hi_exp))
    return float("%de%d" % (m, e))


# ---------------------------------------------------------------------------------------------------
# reactions (shared description):  {"reac": {key: n}, "prod": {...}, "ireac": {...}, "iprod": {...}}
# ---------------------------------------------------------------------------------------------------

def _coef(x):
    """Stoichiometric coefficient as written in a case (int | dyadic float | "p/q") -> int or exact Fraction."""
    return x if isinstance(x, int) else frac(x)


def net(rx, key):
    """Net stoichiometric coefficient (int for integer coefficients, exact Fraction otherwise)."""
    return (_coef(rx["prod"].get(key, 0)) - _coef(rx["reac"].get(key, 0))
            + _coef(rx.get("iprod", {}).get(key, 0)) - _coef(rx.get("ireac", {}).get(key, 0)))


def dyadic(x):
    """Exact Fraction with a power-of-two denominator -> the JSON number used in a case: int when integral, else the
    float that represents it exactly."""
    x = Fraction(x)
    if x.denominator == 1:
        return int(x)
    f = float(x)
    if Fraction(f) != x:
        raise ValueError("not a dyadic rational: %s" % x)
    return f


def dyadic_text(x):
    """Decimal text of a positive dyadic rational as written in a formula subscript ('' for 1, '2', '2.25', '0.03125')."""
    x = Fraction(x)
    if x == 1:
        return ""
    if x.denominator == 1:
        return str(int(x))
    t = ("%.20f" % float(x)).rstrip("0")
    if Fraction(t) != x:
        raise ValueError("no exact decimal text: %s" % x)
    return t


def encode_coef(x, style):
    """Fraction -> coefficient as written in a case: style 'int' (must be integral), 'float' (always a float, also for
    integral values: 2.0), 'frac' (always "p/q": handed to chempy as a Fraction)."""
    x = Fraction(x)
    if style == "int":
        if x.denominator != 1:
            raise ValueError("non-integer coefficient in integer style")
        return int(x)
    if style == "float":
        return float(dyadic(x))
    return "%d/%d" % (x.numerator, x.denominator)


def rx_keys(rx):
    out = []
    for part in ("reac", "prod", "ireac", "iprod"):
        for k in rx.get(part, {}):
            if k not in out:
                out.append(k)
    return out


def stoich_signature(rx):
    return tuple(tuple(sorted(rx.get(p, {}).items())) for p in ("reac", "prod", "ireac", "iprod"))


PLAIN_KEYS = ["A", "B", "C", "D", "E", "F", "G", "H", "J", "K", "L", "M"]
FORMULA_KEYS = ["H2O", "H+", "OH-", "Fe+3", "NO2", "e-(aq)", "N2O4", "FeOH+2", "O2", "H2O2", "Cl-", "NH3"]


def _side(draw, keys):
    k = draw(st.integers(0, 9))
    n = 1 if k < 5 else 2 if k < 8 else 3 if k < 9 else 0
    n = min(n, len(keys))
    chosen = draw(st.lists(st.sampled_from(keys), min_size=n, max_size=n, unique=True)) if n else []
    out = {}
    for s in chosen:
        c = draw(st.integers(0, 9))
        out[s] = 1 if c < 6 else 2 if c < 9 else 3
    return out


def _free_reaction(draw, keys):
    rx = {"reac": _side(draw, keys), "prod": _side(draw, keys), "ireac": {}, "iprod": {}}
    if draw(st.integers(0, 9)) >= 8:
        rx["ireac"] = {draw(st.sampled_from(keys)): draw(st.integers(1, 2))}
    if draw(st.integers(0, 9)) >= 8:
        rx["iprod"] = {draw(st.sampled_from(keys)): draw(st.integers(1, 2))}
    if all(net(rx, k) == 0 for k in keys):
        # a reaction must have some effect (Reaction.check_any_effect): add one product molecule
        s = draw(st.sampled_from(keys))
        rx["prod"][s] = rx["prod"].get(s, 0) + 1
    return rx


@st.composite
def programs(draw, max_sub=6, max_rxn=6):
    """A kinetic program for C04 (see module docstring)."""
    mode = draw(st.sampled_from(["int", "frac", "float"]))
    ns = draw(st.integers(1, max_sub))
    pool = PLAIN_KEYS if draw(st.integers(0, 3)) < 3 else FORMULA_KEYS
    keys = pool[:ns]
    order = draw(st.permutations(keys))
    nr = draw(st.integers(1, max_rxn))
    thermal = draw(st.integers(0, 99)) >= 55
    rxns = [_free_reaction(draw, keys) for _ in range(nr)]
    # every substance must occur in some reaction (both builders reject isolated substances)
    used = set()
    for rx in rxns:
        used.update(rx_keys(rx))
    for i, k in enumerate(keys):
        if k not in used:
            rx = rxns[i % nr]
            rx["prod"][k] = rx["prod"].get(k, 0) + 1
    # identical active stoichiometries are made distinct: ReactionSystem.check_duplicate compares reac, prod and then
    # the parameters, and comparing unlike parameter objects (Fraction vs Expr) raises inside the constructor
    seen = set()
    for rx in rxns:
        while stoich_signature(rx)[:2] in seen or all(net(rx, k) == 0 for k in keys):
            s = keys[0]
            rx["prod"][s] = rx["prod"].get(s, 0) + 1
        seen.add(stoich_signature(rx)[:2])
    for rx in rxns:
        kind = "ma"
        if thermal:
            kind = draw(st.sampled_from(["ma", "arr", "arr", "eyr"]))
        rx["kind"] = kind
        if kind == "ma":
            rx["par"] = [_rate_constant(draw, mode, -15, 15)]
        elif kind == "arr":       # A, Ea/R [K]
            rx["par"] = [_rate_constant(draw, mode, -3, 12), _tnum(draw, mode, 100, 9000)]
        else:                      # c0 = kB/h exp(dS/R), dH/R [K], conc0
            rx["par"] = [_rate_constant(draw, mode, -3, 12), _tnum(draw, mode, 100, 9000), _number(draw, mode, -1, 1)]
    # one rate-expression *object* serving as `param` of several reactions (same constant, different stoichiometries):
    # rx["share"] = index of the earlier reaction (the group's leader) whose kind, parameters and object it takes over
    for j in range(1, nr):
        if draw(st.integers(0, 4)) == 4:
            lead = leader(rxns, draw(st.integers(0, j - 1)))
            rxns[j]["share"] = lead
            rxns[j]["kind"] = rxns[lead]["kind"]
            rxns[j]["par"] = list(rxns[lead]["par"])
    conc = {k: _number(draw, mode, -3, 0, allow_zero=True) for k in keys}
    t = _number(draw, mode, -3, -1, allow_zero=True)
    case = {
        "mode": mode, "subs": list(order), "rxns": rxns, "conc": conc, "t": t,
        "T0": _tnum(draw, mode, 250, 900), "dTdt": _number(draw, mode, -3, -1),
        "fr": _number(draw, mode, -3, 0), "fc": {k: _number(draw, mode, -3, 0, allow_zero=True) for k in keys},
        # configuration knobs
        "feed_keys": sorted(draw(st.sets(st.sampled_from(keys), min_size=1))),
        "cstr_true": draw(st.booleans()),
        "cstr_inline": draw(st.booleans()),
        "ramp_unique": draw(st.booleans()),
        "ramp_inline": draw(st.booleans()),
        "subst_idx": draw(st.integers(0, nr - 1)),
        "pexpr_idx": draw(st.integers(0, nr - 1)),
        "pexpr_coef": [_number(draw, "int" if mode == "float" else mode), _number(draw, "int" if mode == "float" else mode)],
        # what parameter_expressions of the explicit builder overrides and by what (see configurations() in props/c04.py)
        "pexpr": {"style": draw(st.sampled_from(["named", "unique"])), "kind": draw(st.sampled_from(["polyT", "num", "polyK"])),
                  "other": draw(st.integers(0, 7)), "keep_key": draw(st.booleans())},
        # the optional symbol arguments of the explicit builder (_create_odesys)
        "sym": _symbol_arguments(draw, keys),
        # Substance.name of the objects stored under the substance keys
        "subnames": _substance_names(draw, keys),
    }
    return case


def leader(rxns, j):
    """Index of the reaction whose rate-expression object reaction j uses (j itself unless it shares)."""
    return rxns[j].get("share", j)


def _substance_names(draw, keys):
    """{"style": ..., "names": {key: name | None}} - only the substances whose Substance.name differs from their key.

    same | descriptive (every name differs) | partial (some differ) | none (some substances created without a name) |
    shifted (every substance carries the *key of the next one* as its name: the names are a permutation of the keys)"""
    style = draw(st.sampled_from(["same"] * 8 + ["descriptive", "descriptive", "partial", "partial", "none", "shifted"]))
    names = {}
    if style == "descriptive":
        names = {k: "species %d (%s)" % (i, k) for i, k in enumerate(keys)}
    elif style in ("partial", "none"):
        chosen = draw(st.sets(st.sampled_from(keys), min_size=1))
        names = {k: (None if style == "none" else "alias_" + k) for k in sorted(chosen)}
    elif style == "shifted" and len(keys) > 1:
        names = {k: keys[(i + 1) % len(keys)] for i, k in enumerate(keys)}
    if not names:
        style = "same"
    return {"style": style, "names": names}


SYMBOL_ASSUMPTIONS = [{}, {"real": True}, {"nonnegative": True}, {"positive": True}]


def _symbol_arguments(draw, keys):
    """How substance_symbols / parameter_symbols / time_symbol are handed to _create_odesys.

    subst : "default" (None) | "dict_perm" (plain dict listing the keys in `order`) | "odict" (OrderedDict in substance
            order) | "dict" (plain dict in substance order)
    names : how the caller names its own symbols: "prefix" c_<key> | "index" y<i> (i = position in `order`) |
            "shifted" (the symbol of a substance carries the *name* of the next key: names are the caller's business)
    params: None (default symbols) | {"rot": r, "rev": bool}: an OrderedDict over the expected parameter keys, sorted,
            rotated by r and possibly reversed, with symbols named q<i>
    time  : None | name of the caller's time symbol
    """
    subst = draw(st.sampled_from(["default", "dict_perm", "dict_perm", "odict", "dict"]))
    out = {"subst": subst, "order": list(keys), "names": "prefix", "assume": {}, "params": None, "time": None}
    if subst != "default":
        if subst == "dict_perm":
            out["order"] = list(draw(st.permutations(keys)))
        out["names"] = draw(st.sampled_from(["prefix", "index", "shifted"]))
        out["assume"] = draw(st.sampled_from(SYMBOL_ASSUMPTIONS))
    if draw(st.integers(0, 2)) == 2:
        out["params"] = {"rot": draw(st.integers(0, 5)), "rev": draw(st.booleans())}
    if draw(st.integers(0, 3)) == 3:
        out["time"] = draw(st.sampled_from(["tau", "x", "t_"]))
    return out


def _tnum(draw, mode, lo, hi):
    """A temperature-like number in [lo, hi] in the given mode."""
    n = draw(st.integers(lo, hi))
    if mode == "int":
        return n
    if mode == "frac":
        return "%d/%d" % (2 * n + 1, 2)
    return float(n) + draw(st.integers(0, 99)) / 128.0


# ---------------------------------------------------------------------------------------------------
# reference polynomials: {monomial: Fraction}, monomial = tuple(sorted((generator_name, exponent)))
# ---------------------------------------------------------------------------------------------------

class RefPoly(object):
    """Sparse polynomial with Fraction coefficients; also accumulates sum of |contributions| per monomial."""

    def __init__(self):
        self.c = {}
        self.a = {}

    def add_term(self, coeff, powers):
        """coeff * prod gen**e;  powers: iterable of (gen, e) (generators may repeat)."""
        mono = {}
        for g, e in powers:
            if e:
                mono[g] = mono.get(g, 0) + e
        key = tuple(sorted(mono.items()))
        coeff = Fraction(coeff)
        self.c[key] = self.c.get(key, Fraction(0)) + coeff
        self.a[key] = self.a.get(key, Fraction(0)) + abs(coeff)

    def nonzero(self):
        return {k: v for k, v in self.c.items() if v != 0}


# ---------------------------------------------------------------------------------------------------
# exact linear algebra (generator side + oracle side; elementary)
# ---------------------------------------------------------------------------------------------------

def rref(rows):
    """Reduced row echelon form over Fractions.  Returns (matrix, pivot_columns)."""
    m = [[Fraction(x) for x in r] for r in rows]
    nrow = len(m)
    ncol = len(m[0]) if m else 0
    piv = []
    r = 0
    for c in range(ncol):
        p = None
        for i in range(r, nrow):
            if m[i][c] != 0:
                p = i
                break
        if p is None:
            continue
        m[r], m[p] = m[p], m[r]
        pv = m[r][c]
        m[r] = [x / pv for x in m[r]]
        for i in range(nrow):
            if i != r and m[i][c] != 0:
                f = m[i][c]
                m[i] = [a - f * b for a, b in zip(m[i], m[r])]
        piv.append(c)
        r += 1
        if r == nrow:
            break
    return m, piv


def rank(rows):
    if not rows or not rows[0]:
        return 0
    return len(rref(rows)[1])


def nullspace_int(rows, ncol):
    """Basis of {x: rows @ x = 0} as coprime integer vectors (one per free column)."""
    if not rows:
        return [[1 if i == j else 0 for i in range(ncol)] for j in range(ncol)]
    m, piv = rref(rows)
    free = [c for c in range(ncol) if c not in piv]
    out = []
    for f in free:
        v = [Fraction(0)] * ncol
        v[f] = Fraction(1)
        for r, pc in enumerate(piv):
            v[pc] = -m[r][f]
        den = 1
        for x in v:
            den = den * x.denominator // gcd(den, x.denominator)
        iv = [int(x * den) for x in v]
        g = 0
        for x in iv:
            g = gcd(g, abs(x))
        out.append([x // g for x in iv])
    return out


def comp_keys(subs):
    ks = set()
    for s in subs:
        ks.update(int(k) for k in s["comp"])
    return sorted(ks)


def comp_matrix(subs):
    """rows = sorted composition keys (0 = charge), columns = substances in the given order."""
    ck = comp_keys(subs)
    return [[s["comp"].get(str(k), 0) for s in subs] for k in ck], ck


def violations(subs, rx):
    """{composition key: net amount produced} for the non-zero entries (exact: int, or Fraction when compositions or
    coefficients are not integers)."""
    out = {}
    for s in subs:
        n = net(rx, s["key"])
        if n:
            for k, v in s["comp"].items():
                out[int(k)] = out.get(int(k), 0) + n * _coef(v)
    return {k: v for k, v in out.items() if v != 0}


# ---------------------------------------------------------------------------------------------------
# substances with compositions
# ---------------------------------------------------------------------------------------------------

def charge_text(q):
    if q == 0:
        return ""
    s = "+" if q > 0 else "-"
    return s if abs(q) == 1 else "%s%d" % (s, abs(q))


def _sp(body, q, **elems):
    comp = {str(Z_OF[e]): n for e, n in elems.items()}
    if q:
        comp["0"] = q
    return {"body": body, "q": q, "comp": comp}


# hand-checked families; text = body + charge_text(q)
FAMILIES = {
    "water": [_sp("H2O", 0, H=2, O=1), _sp("H", 1, H=1), _sp("OH", -1, O=1, H=1), _sp("H2", 0, H=2), _sp("O2", 0, O=2),
              _sp("H2O2", 0, H=2, O=2), _sp("HO2", 0, H=1, O=2), _sp("HO2", -1, H=1, O=2), _sp("O2", -1, O=2),
              _sp("OH", 0, O=1, H=1), _sp("H", 0, H=1), _sp("e", -1), _sp("O3", 0, O=3), _sp("H3O", 1, H=3, O=1)],
    "carbonate": [_sp("CO2", 0, C=1, O=2), _sp("H2CO3", 0, H=2, C=1, O=3), _sp("HCO3", -1, H=1, C=1, O=3),
                  _sp("CO3", -2, C=1, O=3), _sp("H2O", 0, H=2, O=1), _sp("H", 1, H=1), _sp("OH", -1, O=1, H=1),
                  _sp("CH4", 0, C=1, H=4), _sp("O2", 0, O=2), _sp("CO", 0, C=1, O=1), _sp("Ca", 2, Ca=1),
                  _sp("CaCO3", 0, Ca=1, C=1, O=3)],
    "copper": [_sp("NH3", 0, N=1, H=3), _sp("NH4", 1, N=1, H=4), _sp("Cu", 2, Cu=1), _sp("CuNH3", 2, Cu=1, N=1, H=3),
               _sp("Cu(NH3)2", 2, Cu=1, N=2, H=6), _sp("Cu(NH3)4", 2, Cu=1, N=4, H=12), _sp("H", 1, H=1),
               _sp("OH", -1, O=1, H=1), _sp("H2O", 0, H=2, O=1), _sp("Cu(OH)2", 0, Cu=1, O=2, H=2),
               _sp("Cu", 1, Cu=1), _sp("e", -1)],
    "iron": [_sp("Fe", 3, Fe=1), _sp("Fe", 2, Fe=1), _sp("FeOH", 2, Fe=1, O=1, H=1), _sp("Fe(OH)2", 1, Fe=1, O=2, H=2),
             _sp("SCN", -1, S=1, C=1, N=1), _sp("FeSCN", 2, Fe=1, S=1, C=1, N=1), _sp("H2O", 0, H=2, O=1),
             _sp("H", 1, H=1), _sp("OH", -1, O=1, H=1), _sp("e", -1), _sp("H2O2", 0, H=2, O=2), _sp("O2", 0, O=2),
             _sp("Fe2(SO4)3", 0, Fe=2, S=3, O=12), _sp("SO4", -2, S=1, O=4)],
    "nitrogen": [_sp("NO", 0, N=1, O=1), _sp("NO2", 0, N=1, O=2), _sp("N2O4", 0, N=2, O=4), _sp("HNO2", 0, H=1, N=1, O=2),
                 _sp("HNO3", 0, H=1, N=1, O=3), _sp("NO3", -1, N=1, O=3), _sp("NO2", -1, N=1, O=2),
                 _sp("H2O", 0, H=2, O=1), _sp("H", 1, H=1), _sp("N2", 0, N=2), _sp("O2", 0, O=2), _sp("NH3", 0, N=1, H=3),
                 _sp("N2O", 0, N=2, O=1)],
    "combustion": [_sp("CH4", 0, C=1, H=4), _sp("C2H6", 0, C=2, H=6), _sp("C3H8", 0, C=3, H=8), _sp("O2", 0, O=2),
                   _sp("CO2", 0, C=1, O=2), _sp("CO", 0, C=1, O=1), _sp("H2O", 0, H=2, O=1), _sp("H2", 0, H=2),
                   _sp("C2H5OH", 0, C=2, H=6, O=1), _sp("C6H12O6", 0, C=6, H=12, O=6), _sp("C", 0, C=1)],
    "salts": [_sp("Na", 1, Na=1), _sp("Cl", -1, Cl=1), _sp("NaCl", 0, Na=1, Cl=1), _sp("SO4", -2, S=1, O=4),
              _sp("HSO4", -1, H=1, S=1, O=4), _sp("H2SO4", 0, H=2, S=1, O=4), _sp("(NH4)2SO4", 0, N=2, H=8, S=1, O=4),
              _sp("NH4", 1, N=1, H=4), _sp("BaSO4", 0, Ba=1, S=1, O=4), _sp("Ba", 2, Ba=1), _sp("H", 1, H=1),
              _sp("BaCl2", 0, Ba=1, Cl=2), _sp("CuSO4..5H2O", 0, Cu=1, S=1, O=9, H=10), _sp("Cu", 2, Cu=1),
              _sp("H2O", 0, H=2, O=1), _sp("HCl", 0, H=1, Cl=1)],
}
FAMILY_NAMES = ["water", "iron", "carbonate", "copper", "nitrogen", "combustion", "salts"]
# non-stoichiometric compounds: decimal subscripts (all dyadic, so every balanced reaction has an exactly zero float net)
FAMILIES["urania"] = [_sp("UO2", 0, U=1, O=2), _sp("UO2.25", 0, U=1, O=2.25), _sp("UO2.5", 0, U=1, O=2.5),
                      _sp("U4O9", 0, U=4, O=9), _sp("U3O8", 0, U=3, O=8), _sp("(UO2.25)2", 0, U=2, O=4.5), _sp("O2", 0, O=2),
                      _sp("O", -2, O=1), _sp("U", 4, U=1), _sp("UO2", 2, U=1, O=2), _sp("e", -1), _sp("UO2.125", 0, U=1, O=2.125),
                      _sp("U0.5O", 0, U=0.5, O=1), _sp("O3", 0, O=3)]
FAMILIES["ferrites"] = [_sp("Fe0.875O", 0, Fe=0.875, O=1), _sp("FeO", 0, Fe=1, O=1), _sp("Fe2O3", 0, Fe=2, O=3),
                        _sp("Fe3O4", 0, Fe=3, O=4), _sp("Fe", 2, Fe=1), _sp("Fe", 3, Fe=1), _sp("O2", 0, O=2), _sp("O", -2, O=1),
                        _sp("e", -1), _sp("Fe0.75O", 0, Fe=0.75, O=1), _sp("Na0.5WO3", 0, Na=0.5, W=1, O=3),
                        _sp("WO3", 0, W=1, O=3), _sp("Na", 1, Na=1), _sp("Na0.25WO3", 0, Na=0.25, W=1, O=3),
                        _sp("[Fe0.5O]2.5", 0, Fe=1.25, O=2.5)]
DYADIC_FAMILY_NAMES = ["urania", "ferrites"]

_EL_SMALL = ["H", "C", "O", "N", "Fe", "Cl", "Na", "Cu", "S", "Co"]


def _g1_base(draw, dy=False):
    """A small G1 AST (no hydrates, prefixes, suffixes; decimal subscripts only with dy, all dyadic) plus its integer
    charge."""
    terms = []
    inner_counts = ["", "2", "3"] + (["0.5", "1.5", "0.125"] if dy else [])
    group_counts = ["2", "3", "4"] + (["0.5", "2.5", "1.25"] if dy else [])
    counts = ["", "", "2", "3", "12"] + (["2.25", "0.5", "0.875", "1.5", "2.125"] if dy else [])
    for _ in range(draw(st.integers(1, 3))):
        if draw(st.integers(0, 9)) >= 7:
            inner = [{"el": draw(st.sampled_from(_EL_SMALL)), "count": draw(st.sampled_from(inner_counts)), "primes": ""}
                     for _ in range(draw(st.integers(1, 2)))]
            terms.append({"br": draw(st.sampled_from(["(", "[", "{"])), "terms": inner,
                          "count": draw(st.sampled_from(group_counts)), "primes": ""})
        else:
            terms.append({"el": draw(st.sampled_from(_EL_SMALL)), "count": draw(st.sampled_from(counts)),
                          "primes": ""})
    q = draw(st.sampled_from([0, 0, 1, -1, 2, -2, 3]))
    return terms, q


def _ast(terms, q):
    ch = None
    if q:
        ch = {"sign": "+" if q > 0 else "-", "mag": abs(q), "explicit1": False}
    return {"prefix": "", "parts": [{"n": 1, "terms": terms}], "hyd": "..", "charge": ch, "suffix": "", "electron": False}


def _ast_species(terms, q):
    f = _ast(terms, q)
    comp = {}
    for z, v in G.composition(f).items():
        if v != 0:
            comp[str(z)] = dyadic(v)
    return {"key": G.text(f), "comp": comp}


def _nullity(subs):
    rows, _ = comp_matrix(subs)
    return len(subs) - rank(rows)


SYNTHETIC_CHARGES = [0, 0, 1, -1, 2, -2]
SYNTHETIC_COUNTS_DYADIC = [0, 1, 2, 3, 1, 2, 0.5, 1.5, 2.25, 0.25, 0.125, 2.5, 0.875]
SYNTHETIC_CHARGES_DYADIC = [0, 0, 0.5, -0.5, 1, 0.25, -1.5, -1, 0.125, 2.5]


MASSLESS = [{"key": "hv", "how": "explicit", "comp": {}},                 # a photon: composition == {}
            {"key": "site", "how": "explicit", "comp": {"0": 0}},           # composition == {0: 0}
            {"key": "M", "how": "explicit", "comp": {"0": 0}, "charge_arg": True}]      # Substance(charge=0, composition={})


def _draw_substances(draw, dy=False, massless_share=0):
    """Returns (kind, [ {key, how, comp, [charge_arg]} ]) with nullity >= 1 by construction.

    dy: compositions and charges need not be integers (multiples of 1/8; decimal subscripts in formulas).
    massless_share: tenths of the cases with one or two explicitly composed substances that carry no element and no
    charge (composition {} or {0: 0}); explicitly composed charged substances may be pure charge (an electron or hole
    written Substance('S3', charge=-1, composition={}) or Substance('S3', composition={0: -1}))."""
    kind, subs = _draw_substances_of_kind(draw, dy)
    if massless_share and draw(st.integers(0, 9)) < massless_share:
        n = draw(st.integers(1, 2))
        for sp in draw(st.permutations(MASSLESS))[:n]:
            subs.append({k: (dict(v) if isinstance(v, dict) else v) for k, v in sp.items()})
    return kind, subs


def _draw_substances_of_kind(draw, dy=False):
    kind = draw(st.sampled_from(["synthetic", "family", "family", "g1"]))
    subs = []
    if kind == "synthetic":
        ne = draw(st.integers(1, 3))
        charged = draw(st.booleans())
        elems = draw(st.permutations([1, 6, 8, 26]))[:ne]
        ns = draw(st.integers(ne + (2 if charged else 1), 7))
        for i in range(ns):
            comp = {}
            for z in elems:
                c = draw(st.sampled_from(SYNTHETIC_COUNTS_DYADIC)) if dy else draw(st.integers(0, 3))
                if c:
                    comp[str(z)] = c
            pure_charge = False
            if not comp:
                # no element drawn: a pure charge carrier (electron / hole) in one third of the charged systems
                pure_charge = charged and draw(st.integers(0, 2)) == 0
                if not pure_charge:
                    comp[str(elems[0])] = 1
            s = {"key": "S%d" % i, "how": "explicit", "comp": comp}
            if charged:
                if pure_charge:
                    q = draw(st.sampled_from([-1, 1, -2, 2] + ([0.5, -0.5] if dy else [])))
                else:
                    q = draw(st.sampled_from(SYNTHETIC_CHARGES_DYADIC if dy else SYNTHETIC_CHARGES))
                if q:
                    comp["0"] = q
                    s["charge_arg"] = draw(st.booleans())     # charge passed as Substance(charge=..)
            subs.append(s)
    elif kind == "family":
        fam = FAMILIES[draw(st.sampled_from(DYADIC_FAMILY_NAMES if dy else FAMILY_NAMES))]
        perm = draw(st.permutations(fam))
        want = draw(st.integers(1, 3))
        how = draw(st.sampled_from(["formula", "explicit", "explicit"] if dy else ["formula", "formula", "explicit"]))
        for sp in perm:
            subs.append({"key": sp["body"] + charge_text(sp["q"]), "how": how, "comp": dict(sp["comp"]),
                         "body": sp["body"], "q": sp["q"]})
            if how == "explicit" and sp["q"]:
                # charge passed as Substance(charge=..): 'e-' then is Substance('e-', charge=-1, composition={})
                subs[-1]["charge_arg"] = draw(st.booleans())
            if len(subs) >= 2 and _nullity(subs) >= want and len(subs) >= 3:
                break
            if len(subs) >= 9 and _nullity(subs) >= 1:
                break
    else:
        bases = []
        texts = set()
        for _ in range(draw(st.integers(1, 3))):
            terms, q = _g1_base(draw, dy)
            sp = _ast_species(terms, q)
            if sp["key"] not in texts:
                texts.add(sp["key"])
                bases.append((terms, q))
                subs.append(dict(sp, how="formula"))
        for _ in range(draw(st.integers(1, 3))):
            i = draw(st.integers(0, len(bases) - 1))
            j = draw(st.integers(0, len(bases) - 1))
            a = draw(st.integers(1, 3))
            b = draw(st.integers(1, 3))
            br = draw(st.sampled_from(["(", "[", "{"]))
            terms = [{"br": br, "terms": bases[i][0], "count": "" if a == 1 else str(a), "primes": ""},
                     {"br": br, "terms": bases[j][0], "count": "" if b == 1 else str(b), "primes": ""}]
            sp = _ast_species(terms, a * bases[i][1] + b * bases[j][1])
            if sp["key"] not in texts:
                texts.add(sp["key"])
                subs.append(dict(sp, how="formula"))
        if _nullity(subs) < 1:
            # every complex collided with an existing key: add a dimer/trimer/... of the first base
            for n in range(2, 12):
                terms = [{"br": "(", "terms": bases[0][0], "count": str(n), "primes": ""}]
                sp = _ast_species(terms, n * bases[0][1])
                if sp["key"] not in texts:
                    subs.append(dict(sp, how="formula"))
                    break
    return kind, subs


def _vector_to_rx(draw, vec, subs):
    rx = {"reac": {}, "prod": {}, "ireac": {}, "iprod": {}}
    for v, s in zip(vec, subs):
        if v < 0:
            rx["reac"][s["key"]] = -v
        elif v > 0:
            rx["prod"][s["key"]] = v
    k = draw(st.integers(0, 9))
    if k >= 8:      # catalyst / spectator on both sides
        s = draw(st.sampled_from(subs))["key"]
        n = draw(st.integers(1, 2))
        rx["reac"][s] = rx["reac"].get(s, 0) + n
        rx["prod"][s] = rx["prod"].get(s, 0) + n
    elif k == 7 and rx["reac"]:    # part of a reactant coefficient made inactive
        s = sorted(rx["reac"])[0]
        if rx["reac"][s] >= 2:
            rx["reac"][s] -= 1
            rx["ireac"][s] = 1
    elif k == 6 and rx["prod"]:
        s = sorted(rx["prod"])[0]
        if rx["prod"][s] >= 2:
            rx["prod"][s] -= 1
            rx["iprod"][s] = 1
    return rx


PARTS = ("reac", "prod", "ireac", "iprod")


def _scale_reaction(draw, rx):
    """Non-integer stoichiometric coefficients: every coefficient times a dyadic factor (the reaction stays balanced),
    written as floats or as "p/q" (Fractions), and the way the Reaction constructor is told to admit them
    (Reaction.default_checks contains 'all_integral': dont_check={'all_integral'} or an explicit checks=...).
    Integral values written as floats (2.0) pass the default checks."""
    k = draw(st.integers(0, 5))
    if k < 3:
        return
    f = Fraction(1) if k == 3 else Fraction(draw(st.sampled_from([1, 1, 3, 5])), draw(st.sampled_from([2, 4, 8])))
    rx["coef"] = draw(st.sampled_from(["float", "frac"]))
    integral = True
    for part in PARTS:
        for key in list(rx[part]):
            v = f * _coef(rx[part][key])
            integral = integral and v.denominator == 1
            rx[part][key] = encode_coef(v, rx["coef"])
    rx["checks"] = draw(st.sampled_from((["default"] if integral else []) + ["dont_check", "checks"]))


def _balanced_reactions(draw, subs, max_rxn, dy=False):
    rows, _ = comp_matrix(subs)
    basis = nullspace_int(rows, len(subs))
    nr = draw(st.integers(1, max_rxn))
    rxns = []
    seen = set()
    for _ in range(nr):
        i = draw(st.integers(0, len(basis) - 1))
        a = draw(st.sampled_from([1, -1, 2, -2]))
        vec = [a * x for x in basis[i]]
        if len(basis) > 1 and draw(st.booleans()):
            j = draw(st.integers(0, len(basis) - 1))
            if j != i:
                b = draw(st.sampled_from([1, -1, 2]))
                vec = [x + b * y for x, y in zip(vec, basis[j])]
        plain = list(vec)
        for col, sp in enumerate(subs):
            if not any(v for v in sp["comp"].values()):
                # a substance without elements and charge takes part in any amount (emitted / absorbed photon, third body)
                k = draw(st.integers(0, 5))
                vec[col] += 1 if k == 4 else -1 if k == 5 else 0
        if not any(vec):
            vec = plain
        rx = _vector_to_rx(draw, vec, subs)
        if stoich_signature(rx) in seen:
            continue
        seen.add(stoich_signature(rx))
        if dy:
            _scale_reaction(draw, rx)
        rxns.append(rx)
    return rxns


def _bump_coef(rx, part, key, d):
    """Coefficient of `key` in rx[part] increased by d; the way the reaction is written follows (float coefficients and
    dont_check={'all_integral'} once a coefficient is not an integer)."""
    style = rx.get("coef", "int")
    v = _coef(rx[part].get(key, 0)) + d
    if Fraction(v).denominator != 1:
        if style == "int":
            style = rx["coef"] = "float"
            for p_ in PARTS:
                for k_ in list(rx[p_]):
                    rx[p_][k_] = encode_coef(_coef(rx[p_][k_]), style)
        if rx.get("checks", "default") == "default":
            rx["checks"] = "dont_check"
    rx[part][key] = encode_coef(v, style)


def _break_small(draw, subs, rxns, r, mode, active):
    """Dyadic variant of the single-key classes: the charge (explicitly composed substances only: a formula cannot carry
    a fractional charge) or one element count of one substance of reaction r changes by d = m / P, where m is 1/8 .. 3/2
    and P the smallest power of two >= the largest |net coefficient| of that substance in any reaction; the largest
    imbalance in the system is then in (m/2, m] in that one key, and every number stays exactly representable."""
    rx = rxns[r]
    bykey = {s["key"]: s for s in subs}
    pool = sorted(active)
    if mode == "charge":
        pool = [k for k in pool if bykey[k]["how"] != "formula"] or pool
    s = bykey[draw(st.sampled_from(pool))]
    nmax = max(abs(net(x, s["key"])) for x in rxns)
    p2 = Fraction(1, 8)
    while p2 < nmax:
        p2 *= 2
    d = Fraction(draw(st.sampled_from([1, 2, 3, 4, 4, 6, 8, 12])), 8) / p2
    if d.denominator > 2 ** 16:
        return None
    if mode == "charge" and s["how"] != "formula":
        q = _coef(s["comp"].get("0", 0)) + d * draw(st.sampled_from([1, -1]))
        if q:
            s["comp"]["0"] = dyadic(q)
        else:
            s["comp"].pop("0", None)
            s.pop("charge_arg", None)
        return "broken:charge_only", r
    if s["how"] == "formula":
        for el in draw(st.permutations(["He", "H", "O", "Ar"])):
            new_key = el + dyadic_text(d) + s["key"]
            if new_key in bykey:
                continue
            _rename(subs, rxns, s["key"], new_key)
            if "body" in s:
                s["body"] = el + dyadic_text(d) + s["body"]
            z = str(Z_OF[el])
            s["comp"][z] = dyadic(_coef(s["comp"].get(z, 0)) + d)
            return "broken:one_element", r
        return None
    ks = sorted(k for k in s["comp"] if k != "0")
    z = draw(st.sampled_from(ks + ["2"]))
    s["comp"][z] = dyadic(_coef(s["comp"].get(z, 0)) + d)
    return "broken:one_element", r


def _break(draw, subs, rxns, dy=False):
    """Breaks the balance of one reaction in a controlled way.  Returns a label (the description is edited in place).

    dy: the change need not be an integer (imbalances of 1/8 .. 1/2 in one key must be rejected like any other)."""
    r = draw(st.integers(0, len(rxns) - 1))
    rx = rxns[r]
    bykey = {s["key"]: s for s in subs}
    active = [k for k in rx_keys(rx) if net(rx, k) != 0 and k != "e-"]
    mode = draw(st.sampled_from(["charge", "charge", "element", "element", "coef", "drop"]))
    if dy and mode in ("charge", "element") and draw(st.integers(0, 4)):
        done = _break_small(draw, subs, rxns, r, mode, active)
        if done is not None:
            return done
        mode = "coef"
    if mode in ("charge", "element"):
        s = bykey[draw(st.sampled_from(sorted(active)))]
        taken = set(bykey)
        if mode == "charge":
            q0 = s["comp"].get("0", 0)
            for d in draw(st.permutations([1, -1, 2, -2])):
                q = dyadic(_coef(q0) + d)
                if s["how"] == "formula":
                    if "body" not in s:      # G1 species: re-render is not available -> fall back to the coefficient class
                        break
                    new_key = s["body"] + charge_text(q)
                    if new_key in taken:
                        continue
                    _rename(subs, rxns, s["key"], new_key)
                    s["q"] = q
                if q:
                    s["comp"]["0"] = q
                else:
                    s["comp"].pop("0", None)
                    s.pop("charge_arg", None)
                return "broken:charge_only", r
            mode = "coef"
        else:
            if s["how"] == "formula":
                for el in draw(st.permutations(["He", "H", "O", "Ar"])):
                    new_key = el + s["key"]
                    if new_key in taken:
                        continue
                    _rename(subs, rxns, s["key"], new_key)
                    if "body" in s:
                        s["body"] = el + s["body"]
                    z = str(Z_OF[el])
                    s["comp"][z] = dyadic(_coef(s["comp"].get(z, 0)) + 1)
                    return "broken:one_element", r
                mode = "coef"
            else:
                ks = sorted(k for k in s["comp"] if k != "0")
                z = draw(st.sampled_from(ks + ["2"]))
                s["comp"][z] = dyadic(_coef(s["comp"].get(z, 0)) + 1)
                return "broken:one_element", r
    if mode == "coef":
        s = draw(st.sampled_from(subs))["key"]
        part = draw(st.sampled_from(["reac", "prod", "prod", "ireac", "iprod"]))
        d = Fraction(1, draw(st.sampled_from([1, 2, 4, 8]))) if dy else 1
        _bump_coef(rx, part, s, d)
        if not any(net(rx, k) for k in rx_keys(rx)):
            _bump_coef(rx, part, s, d)      # a reaction must keep some effect (Reaction.check_any_effect)
        return "broken:coefficient", r
    # drop one species from one side (if that leaves the reaction with an effect), else bump a coefficient
    part = "prod" if rx["prod"] else "reac"
    cand = sorted(k for k in rx[part] if net(rx, k) != 0)
    if cand and len([k for k in rx_keys(rx) if net(rx, k) != 0]) >= 2:
        del rx[part][draw(st.sampled_from(cand))]
        if any(net(rx, k) != 0 for k in rx_keys(rx)):
            return "broken:dropped_species", r
    s = draw(st.sampled_from(subs))["key"]
    _bump_coef(rx, "prod", s, 1)
    if not any(net(rx, k) for k in rx_keys(rx)):
        _bump_coef(rx, "prod", s, 1)
    return "broken:coefficient", r


def _rename(subs, rxns, old, new):
    for s in subs:
        if s["key"] == old:
            s["key"] = new
    for rx in rxns:
        for part in ("reac", "prod", "ireac", "iprod"):
            if old in rx[part]:
                rx[part] = {(new if k == old else k): v for k, v in rx[part].items()}


# ReactionSystem.default_checks as read from chempy/reactionsystem.py (names of the constructor's optional checks)
SYSTEM_CHECKS = ["balance", "substance_keys", "duplicate", "duplicate_names"]


@st.composite
def composed_systems(draw, max_rxn=6, broken=None, kinetics=False, dyadic_share=0, massless_share=0, history=False):
    """A system whose substances all carry compositions.

    broken: None -> drawn (about half of the cases get one broken reaction); False -> always balanced.
    kinetics: add rate constants, an initial state, output times and the knobs of the C05 dynamic checks.
    dyadic_share: tenths of the cases whose compositions, charges and stoichiometric coefficients need not be integers
    (multiples of 1/8 .. 1/64: exactly representable, so "balanced" still means an exactly zero float net).
    massless_share: tenths of the cases with substances whose composition is {} or {0: 0} (see _draw_substances).
    history: case["before"] = 0-2 earlier constructions in the same process (of the same description) through the
    constructor's optional arguments: {"arg": "dont_check" | "checks", "names": subset of SYSTEM_CHECKS, "route": ...}.
    """
    dy = dyadic_share > 0 and draw(st.integers(0, 9)) >= 10 - dyadic_share
    kind, subs = _draw_substances(draw, dy, massless_share)
    rxns = _balanced_reactions(draw, subs, max_rxn, dy)
    # only substances that take part in some reaction stay (the ODE builders reject isolated substances);
    # the order of the remaining ones is permuted
    used = []
    for rx in rxns:
        for k in rx_keys(rx):
            if k not in used:
                used.append(k)
    subs = [s for s in subs if s["key"] in used]
    subs = list(draw(st.permutations(subs)))
    case = {"kind": kind, "subs": subs, "rxns": rxns, "cls": "balanced", "broken_at": None, "dyadic": dy,
            # how the system is constructed: OrderedDict of Substance objects | list of keys + from_formula |
            # EqSystem of Equilibrium objects (only used by the admission check)
            "route": draw(st.sampled_from(["objects", "objects", "keys", "eqsys"]))}
    do_break = (draw(st.integers(0, 9)) >= 4) if broken is None else broken
    if do_break:
        case["cls"], case["broken_at"] = _break(draw, subs, rxns, dy)
    if history:
        case["before"] = [{"arg": draw(st.sampled_from(["dont_check", "dont_check", "checks"])),
                           "names": sorted(draw(st.sets(st.sampled_from(SYSTEM_CHECKS))), key=SYSTEM_CHECKS.index),
                           "route": draw(st.sampled_from(["objects", "eqsys"]))}
                          for _ in range(draw(st.integers(0, 2)))]
    if kinetics:
        mode = "float"
        for rx in rxns:
            rx["k"] = _number(draw, mode, -4, -1)           # 1e-4 .. 1e3
        case["y0"] = {s["key"]: draw(st.sampled_from([1.0, 0.5, 2.0, 0.125, 0.0, 1e-3, 3.0])) for s in subs}
        case["tend"] = draw(st.sampled_from([1.0, 0.1, 10.0]))
        case["npts"] = draw(st.integers(2, 5))
        # rational extents for points on the invariant manifold and values for free variables
        case["xi"] = ["%d/%d" % (draw(st.integers(-6, 6)), draw(st.integers(1, 4))) for _ in range(len(subs))]
        case["preferred"] = draw(st.lists(st.sampled_from([s["key"] for s in subs]), unique=True,
                                          min_size=1, max_size=max(1, len(subs) - 1)))
    return case

# -*- coding: utf-8 -*-
"""G1: chemical-formula ASTs (JSON-able), their text, canonical text and reference composition.

AST
    formula = {"prefix": "" | "." | "<greek>-" | "<greek>-." (rare),
               "parts": [{"n": int, "terms": [term, ...]}, ...],   # parts[0]["n"] == 1
               "hyd": ".." | "·",
               "charge": None | {"sign": "+"|"-", "mag": int>=1, "explicit1": bool},
               "suffix": "" | "(s)" | "(l)" | "(g)" | "(aq)",
               "electron": bool}
    term    = {"el": "Fe", "count": "", "primes": ""}
            | {"br": "(", "terms": [...], "count": "3", "primes": ""}
`count` is the subscript exactly as written ("" means 1; "12"; "2.35").

Nothing here calls chempy.
"""
from fractions import Fraction

from hypothesis import strategies as st

from .refdata import SYMBOLS, Z_OF, GREEK

CLOSE = {"(": ")", "[": "]", "{": "}"}
SUFFIXES = ("(s)", "(l)", "(g)", "(aq)")
COMMON = ["H", "C", "N", "O", "Na", "Cl", "S", "Fe", "Cu", "Co", "K", "Ca", "P", "Si", "U", "No", "Hf", "Cs", "Os", "In"]


def _count(draw, allow_decimal=True):
    k = draw(st.integers(0, 99))   # 0 shrinks to "no subscript"
    if k < 45:
        return ""
    if k < 85:
        return str(draw(st.integers(2, 20)))
    if k < 90 or not allow_decimal:
        return str(draw(st.integers(21, 10000)))
    ip = draw(st.integers(0, 99))
    shape = draw(st.integers(0, 9))
    if shape < 7:
        nd = draw(st.integers(1, 4))
        fp = draw(st.integers(0 if ip > 0 else 1, 10 ** nd - 1))
    elif shape < 9:       # long decimals (5..9 digits)
        nd = draw(st.integers(5, 9))
        fp = draw(st.integers(0 if ip > 0 else 1, 10 ** nd - 1))
    else:                 # within a few 1e-7 .. 1e-9 of an integer, from below or above
        nd = draw(st.integers(7, 9))
        eps = draw(st.integers(1, 9))
        if draw(st.booleans()):
            fp = 10 ** nd - eps                 # n.9999998
        else:
            ip, fp = max(ip, 1), eps            # n.0000003
    return "%d.%0*d" % (ip, nd, fp)


def _primes(draw, p):
    if draw(st.integers(0, 99)) >= 100 - p:
        return draw(st.sampled_from(["*", "'", "**", "''", "*'"]))
    return ""


def _symbol(draw):
    if draw(st.booleans()):
        return draw(st.sampled_from(COMMON))
    return draw(st.sampled_from(SYMBOLS))


def _terms(draw, depth, max_terms, inner):
    n = draw(st.integers(1, max_terms))
    out = []
    for i in range(n):
        last = i == n - 1
        if depth > 0 and draw(st.integers(0, 99)) >= 65:
            br = draw(st.sampled_from(["(", "(", "[", "{"]))
            sub = _terms(draw, depth - 1, max(1, min(max_terms, 4)), True)
            out.append({"br": br, "terms": sub, "count": _count(draw), "primes": _primes(draw, 8 if last else 2)})
        else:
            out.append({"el": _symbol(draw), "count": _count(draw), "primes": _primes(draw, (3 if inner else 12) if last else 1)})
    return out


@st.composite
def formulas(draw, max_depth=4, max_terms=6, max_hydrates=2, allow_electron=True):
    if allow_electron and draw(st.integers(0, 199)) == 199:
        return {"prefix": "", "parts": [{"n": 1, "terms": []}], "hyd": "..",
                "charge": {"sign": "-", "mag": 1, "explicit1": False},
                "suffix": draw(st.sampled_from(["", "", "(aq)"])), "electron": True}
    depth = draw(st.integers(0, max_depth))
    parts = [{"n": 1, "terms": _terms(draw, depth, max_terms, False)}]
    if draw(st.integers(0, 99)) >= 75:
        for _ in range(draw(st.integers(1, max_hydrates))):
            n = draw(st.sampled_from([1, 1, 2, 3, 5, 6, 7, 10, 12])) if draw(st.booleans()) else draw(st.integers(1, 12))
            parts.append({"n": n, "terms": _terms(draw, min(depth, 1), 3, False)})
    hyd = draw(st.sampled_from(["..", "..", u"·"]))
    charge = None
    if draw(st.integers(0, 99)) >= 55:
        mag = draw(st.sampled_from([1, 1, 1, 2, 2, 3, 4])) if draw(st.integers(0, 9)) < 8 else draw(st.integers(1, 12))
        charge = {"sign": draw(st.sampled_from("+-")), "mag": mag,
                  "explicit1": mag == 1 and draw(st.integers(0, 9)) >= 8}
    k = draw(st.integers(0, 99))
    if k < 80:
        prefix = ""
    elif k < 88:
        prefix = "."
    elif k < 98:
        prefix = draw(st.sampled_from(GREEK)) + "-"
    else:
        prefix = draw(st.sampled_from(GREEK)) + "-."      # greek label followed by the radical dot, e.g. alpha-.NO2
    suffix = "" if draw(st.integers(0, 99)) < 65 else draw(st.sampled_from(SUFFIXES))
    return {"prefix": prefix, "parts": parts, "hyd": hyd, "charge": charge, "suffix": suffix, "electron": False}


# -- rendering ---------------------------------------------------------------

def _render_terms(terms):
    out = []
    for t in terms:
        if "el" in t:
            out.append(t["el"] + t["count"] + t["primes"])
        else:
            out.append(t["br"] + _render_terms(t["terms"]) + CLOSE[t["br"]] + t["count"] + t["primes"])
    return "".join(out)


def charge_text(ch, canonical=False):
    if ch is None:
        return ""
    if ch["mag"] == 1 and (canonical or not ch["explicit1"]):
        return ch["sign"]
    return "%s%d" % (ch["sign"], ch["mag"])


def body_text(f, canonical=False):
    if f.get("electron"):
        return "e"
    hyd = ".." if canonical else f["hyd"]
    s = _render_terms(f["parts"][0]["terms"])
    for p in f["parts"][1:]:
        s += hyd + (str(p["n"]) if p["n"] != 1 else "") + _render_terms(p["terms"])
    return s


def text(f, canonical=False):
    return f["prefix"] + body_text(f, canonical) + charge_text(f["charge"], canonical) + f["suffix"]


def charge_value(f):
    ch = f["charge"]
    if ch is None:
        return 0
    return ch["mag"] if ch["sign"] == "+" else -ch["mag"]


def _frac(count):
    return Fraction(1) if count == "" else Fraction(count)


def _accumulate(terms, mult, comp):
    for t in terms:
        m = mult * _frac(t["count"])
        if "el" in t:
            z = Z_OF[t["el"]]
            comp[z] = comp.get(z, 0) + m
        else:
            _accumulate(t["terms"], m, comp)


def composition(f):
    """{Z: Fraction} plus key 0 = charge (only when a charge is written)."""
    comp = {}
    for p in f["parts"]:
        _accumulate(p["terms"], Fraction(p["n"]), comp)
    if f["charge"] is not None:
        comp[0] = Fraction(charge_value(f))
    return comp


# -- structure labels ----------------------------------------------------------

def _walk(terms, depth=0):
    for t in terms:
        yield t, depth
        if "br" in t:
            for x in _walk(t["terms"], depth + 1):
                yield x


def stats(f):
    depth = 0
    nterms = 0
    brs = set()
    decimal = False
    primes = False
    bigcount = False
    elements = set()
    for p in f["parts"]:
        for t, d in _walk(p["terms"]):
            nterms += 1
            if "br" in t:
                depth = max(depth, d + 1)
                brs.add(t["br"])
            else:
                elements.add(t["el"])
            if "." in t["count"]:
                decimal = True
            elif t["count"] and int(t["count"]) >= 10:
                bigcount = True
            if t["primes"]:
                primes = True
    return {"depth": depth, "nterms": nterms, "brackets": sorted(brs), "decimal": decimal, "primes": primes,
            "bigcount": bigcount, "hydrate": len(f["parts"]) > 1, "nelements": len(elements),
            "charge": abs(charge_value(f)), "prefix": f["prefix"], "suffix": f["suffix"]}


def labels(f):
    s = stats(f)
    out = ["depth=%d" % min(s["depth"], 5), "terms=%s" % ("1" if s["nterms"] == 1 else "2-3" if s["nterms"] <= 3 else "4-9" if s["nterms"] <= 9 else "10+")]
    for b in s["brackets"]:
        out.append("bracket" + b)
    for k in ("decimal", "primes", "hydrate", "bigcount"):
        if s[k]:
            out.append(k)
    if s["charge"]:
        out.append("charge=%s" % ("1" if s["charge"] == 1 else "2+"))
    if s["prefix"]:
        out.append("prefix=" + ("radical" if s["prefix"] == "." else "greek+radical" if s["prefix"].endswith("-.") else "greek"))
    if s["suffix"]:
        out.append("suffix")
    if f.get("electron"):
        out.append("electron")
    return out, s


# -- ill-formed variants ---------------------------------------------------------

NON_ELEMENT_SINGLE = [c for c in "ADEGJLMQRTXZ"]


def _non_symbols():
    out = list(NON_ELEMENT_SINGLE)
    low = "abcdefghijklmnopqrstuvwxyz"
    for a in "ABCDEFGHIJKLMNOPQRSTUVWXYZ":
        for b in low:
            if a + b not in Z_OF:
                out.append(a + b)
    return out


NON_SYMBOLS = _non_symbols()


@st.composite
def bad_token_formulas(draw, max_depth=3):
    """R1: a well-formed formula with one capitalised non-element token inserted at a term boundary."""
    f = draw(formulas(max_depth=max_depth, allow_electron=False))
    tok = draw(st.sampled_from(NON_ELEMENT_SINGLE)) if draw(st.booleans()) else draw(st.sampled_from(NON_SYMBOLS))
    cnt = draw(st.sampled_from(["", "", "2", "3"]))
    # choose a term list and a position
    lists = []
    for p in f["parts"]:
        lists.append(p["terms"])
        for t, _ in _walk(p["terms"]):
            if "br" in t:
                lists.append(t["terms"])
    tl = lists[draw(st.integers(0, len(lists) - 1))]
    pos = draw(st.integers(0, len(tl)))
    marker = "\x00"
    tl.insert(pos, {"el": marker, "count": cnt, "primes": ""})
    s = text(f).replace(marker, tok)
    return {"class": "R1", "text": s, "token": tok, "base": text(f).replace(marker + cnt, "")}


@st.composite
def bad_bracket_formulas(draw, max_depth=3):
    """R2: delete one bracket character, change one closer to another kind, or insert a stray bracket."""
    f = draw(formulas(max_depth=max_depth, allow_electron=False))
    pre, body, tail = f["prefix"], body_text(f), charge_text(f["charge"]) + f["suffix"]
    idx = [i for i, c in enumerate(body) if c in "()[]{}"]
    mode = draw(st.sampled_from(["delete", "swap", "insert"])) if idx else "insert"
    if mode == "delete":
        i = draw(st.sampled_from(idx))
        new = body[:i] + body[i + 1:]
    elif mode == "swap":
        closers = [i for i in idx if body[i] in ")]}"]
        i = draw(st.sampled_from(closers))
        other = draw(st.sampled_from([c for c in ")]}" if c != body[i]]))
        new = body[:i] + other + body[i + 1:]
    else:
        # insert at a position that is not inside a number or symbol: before an upper-case letter or at the end
        cand = [i for i, c in enumerate(body) if c.isupper()] + [len(body)]
        i = draw(st.sampled_from(cand))
        br = draw(st.sampled_from("()[]{}"))
        new = body[:i] + br + body[i:]
    return {"class": "R2", "text": pre + new + tail, "mode": mode, "base": text(f)}


BAD_CHARGES = ["+-", "-+", "+2-", "-2+", "++", "--", "+2+", "-3-", "+-2", "-+3", "+3-2", "-1+"]


@st.composite
def bad_charge_formulas(draw, max_depth=2):
    """R3: contradictory charge marks (both signs, or a repeated sign)."""
    f = draw(formulas(max_depth=max_depth, allow_electron=False))
    bad = draw(st.sampled_from(BAD_CHARGES))
    return {"class": "R3", "text": f["prefix"] + body_text(f) + bad + f["suffix"], "charge": bad, "base": text(f)}

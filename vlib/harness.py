"""Shared harness: sub-checks, case accounting, known findings, replay files, evidence.

A property module (props/cNN.py) exposes

    PROPERTY = "C01"
    LEVEL = "exploration"            # evidence level
    RULE = "..."                     # how cases are generated / what is non-trivial
    ASSUMPTIONS = [...]
    SUBCHECKS = [SubCheck(...), ...]

Every case is a JSON-able description.  `check(case, ctx)` judges it and reports
failures through `ctx.fail(clause, **detail)`, which either raises `Violation`
or (for an *open* entry of known_findings.json) counts it and returns so the
search continues.
"""
import hashlib
import json
import os
import sys
import time
import traceback
import zlib

from .env import VERIF_DIR, REPO, HarnessError

KNOWN_FILE = os.path.join(VERIF_DIR, "known_findings.json")
CORPUS_DIR = os.path.join(VERIF_DIR, "replays")
OUT_DIR = os.path.join(VERIF_DIR, "out", "replays" if REPO == "/repo" else "selftest_replays")
EVID_DIR = os.path.join(VERIF_DIR, "evidence")


class Violation(Exception):
    def __init__(self, clause, detail=None):
        Exception.__init__(self, clause)
        self.clause = clause
        self.detail = detail or {}


class SutError(object):
    """Value standing for 'the code under test raised'."""

    def __init__(self, exc):
        self.exc = exc
        self.type = type(exc).__name__
        self.msg = str(exc)[:300]

    def __repr__(self):
        return "SutError(%s: %s)" % (self.type, self.msg)

    def __bool__(self):
        return False


def sut(fn, *a, **k):
    """Call the code under test; an exception becomes a SutError value."""
    try:
        return fn(*a, **k)
    except Exception as e:  # noqa
        return SutError(e)


def is_err(x):
    return isinstance(x, SutError)


def canon(case):
    return json.dumps(case, sort_keys=True, separators=(",", ":"), default=_json_default)


def _json_default(o):
    import fractions
    if isinstance(o, fractions.Fraction):
        return "%d/%d" % (o.numerator, o.denominator)
    if isinstance(o, (set, frozenset)):
        return sorted(o)
    if isinstance(o, tuple):
        return list(o)
    try:
        import numpy as np
        if isinstance(o, np.integer):
            return int(o)
        if isinstance(o, np.floating):
            return float(o)
        if isinstance(o, np.ndarray):
            return o.tolist()
    except ImportError:
        pass
    return repr(o)


def digest(case):
    return hashlib.sha1(canon(case).encode("utf-8")).digest()[:8]


def short(obj, n=400):
    s = obj if isinstance(obj, str) else canon(obj)
    return s if len(s) <= n else s[: n - 3] + "..."


def derive_seed(*parts):
    return zlib.crc32(":".join(str(p) for p in parts).encode()) & 0x7FFFFFFF


class SubCheck(object):
    """One executable oracle over one generated domain.

    strategy   : Hypothesis strategy producing JSON-able cases (or None)
    check      : check(case, ctx) -> None, reports through ctx.fail / ctx.label / ctx.nontrivial
    enumerate  : optional enumerate(tier) -> iterable of cases (finite domains); marks exhaustive
                 when `exhaustive(tier)` says so
    machine    : optional factory machine(ctx) -> RuleBasedStateMachine subclass (histories);
                 the machine must call ctx.begin_case()/ctx.end_case(history, ...) itself
    quick/thorough : number of generated cases per tier (Hypothesis max_examples)
    """

    def __init__(self, name, check=None, strategy=None, quick=0, thorough=0, enumerate=None,
                 exhaustive=None, machine=None, steps=(20, 40), rule="", parallel=True,
                 tolerances=None):
        self.name = name
        self.check = check
        self.strategy = strategy
        self.quick = quick
        self.thorough = thorough
        self.enumerate = enumerate
        self.exhaustive = exhaustive or (lambda tier: True)
        self.machine = machine
        self.steps = steps
        self.rule = rule
        self.parallel = parallel
        self.tolerances = tolerances or {}


class KnownFindings(object):
    def __init__(self, prop):
        self.entries = []
        import glob
        files = [KNOWN_FILE] + sorted(glob.glob(os.path.join(VERIF_DIR, "known_findings.d", "*.json")))
        for fn in files:
            if not os.path.exists(fn):
                continue
            data = None
            for attempt in range(5):       # fragments may be mid-write while several people edit them
                try:
                    with open(fn) as fh:
                        data = json.load(fh)
                    break
                except ValueError:
                    time.sleep(0.3)
            if data is None:
                raise HarnessError("cannot parse %s" % fn)
            for e in data.get("findings", []):
                if e.get("property") == prop:
                    self.entries.append(e)
        self.open = [e for e in self.entries if e.get("status") == "open"]

    @staticmethod
    def _get(obj, path):
        for p in path.split("."):
            if isinstance(obj, dict):
                if p not in obj:
                    return KeyError
                obj = obj[p]
            elif isinstance(obj, (list, tuple)):
                try:
                    obj = obj[int(p)]
                except (ValueError, IndexError):
                    return KeyError
            else:
                return KeyError
        return obj

    @classmethod
    def _holds(cls, obj, conds):
        for path, want in (conds or {}).items():
            got = cls._get(obj, path)
            if got is KeyError:
                return False
            if isinstance(want, dict):
                if "in" in want and got not in want["in"]:
                    return False
                if "lt" in want and not (isinstance(got, (int, float)) and got < want["lt"]):
                    return False
                if "gt" in want and not (isinstance(got, (int, float)) and got > want["gt"]):
                    return False
                if "contains" in want and not (isinstance(got, (str, list)) and want["contains"] in got):
                    return False
                if "startswith" in want and not (isinstance(got, str) and got.startswith(want["startswith"])):
                    return False
            elif got != want:
                return False
        return True

    def match(self, subcheck, clause, case, detail):
        for e in self.open:
            m = e.get("match", {})
            if m.get("subcheck") not in (None, subcheck):
                continue
            if m.get("clause") not in (None, clause):
                continue
            if not self._holds(case, m.get("case")):
                continue
            if not self._holds(detail, m.get("detail")):
                continue
            return e
        return None


class Ctx(object):
    """Per-(sub-check, process) accounting."""

    MAX_SAMPLES = 6

    def __init__(self, prop, sub, tier, seed, known):
        self.prop = prop
        self.sub = sub
        self.tier = tier
        self.seed = seed
        self.known = known
        self.evaluations = 0
        self.nontrivial_digests = set()
        self.labels = {}
        self.excluded_known = {}
        self.excluded_buckets = set()     # clauses already reported in an earlier round
        self.excluded_reported = 0
        self.samples_first = []
        self.samples_min = []             # (digest, case) with smallest digests: deterministic reservoir
        self.sample_last = None
        self.inconclusive = 0
        self._cur_labels = None
        self._cur_nontrivial = False
        self._cur_case = None

    # -- per-case API used by property code ---------------------------------
    def label(self, *names):
        for n in names:
            self._cur_labels.add(str(n))

    def nontrivial(self, flag=True):
        if flag:
            self._cur_nontrivial = True

    def skip(self, why):
        """The case could not be judged (solver failure, time budget): inconclusive, never a violation."""
        self.inconclusive += 1
        self.label("inconclusive:" + why)

    def fail(self, clause, **detail):
        case = self._cur_case
        det = json.loads(canon(detail))
        e = self.known.match(self.sub.name, clause, case if isinstance(case, (dict, list)) else {}, det)
        if e is not None:
            key = e.get("id", e.get("what", "?"))
            self.excluded_known[key] = self.excluded_known.get(key, 0) + 1
            self.label("known:" + key)
            return
        if clause in self.excluded_buckets:
            self.excluded_reported += 1
            return
        raise Violation(clause, det)

    def require(self, cond, clause, **detail):
        if not cond:
            self.fail(clause, **detail)

    # -- driver side ----------------------------------------------------------
    def begin_case(self, case=None):
        self._cur_labels = set()
        self._cur_nontrivial = False
        self._cur_case = case

    def end_case(self, case):
        self.evaluations += 1
        for lb in self._cur_labels:
            self.labels[lb] = self.labels.get(lb, 0) + 1
        if self._cur_nontrivial:
            d = digest(case)
            if d not in self.nontrivial_digests:
                self.nontrivial_digests.add(d)
                if len(self.samples_first) < 2:
                    self.samples_first.append(case)
                self.sample_last = case
                self.samples_min.append((d, case))
                self.samples_min.sort(key=lambda t: t[0])
                del self.samples_min[3:]

    def run_case(self, case):
        """Run sub.check on one case; classify foreign exceptions."""
        self.begin_case(case)
        try:
            self.sub.check(case, self)
        except Violation:
            raise
        except HarnessError:
            raise
        except Exception as e:  # noqa
            if _is_hypothesis_control(e):
                raise
            if _passes_through_repo(e):
                # chempy raised on an input that is valid by construction
                clause = "sut_exception:%s" % type(e).__name__
                det = {"message": str(e)[:300], "where": _repo_frame(e)}
                self.fail(clause, **det)   # may raise Violation or be known
            else:
                raise HarnessError("exception in check code of %s/%s on case %s:\n%s" % (
                    self.prop, self.sub.name, short(case), "".join(traceback.format_exception(type(e), e, e.__traceback__))))
        self.end_case(case)

    def summary(self):
        samples = list(self.samples_first)
        for _, c in self.samples_min:
            if c not in samples:
                samples.append(c)
        if self.sample_last is not None and self.sample_last not in samples:
            samples.append(self.sample_last)
        return {
            "evaluations": self.evaluations,
            "digests": b"".join(sorted(self.nontrivial_digests)),
            "labels": self.labels,
            "excluded_known": self.excluded_known,
            "excluded_reported": self.excluded_reported,
            "samples": samples[: self.MAX_SAMPLES],
            "inconclusive": self.inconclusive,
        }


def _is_hypothesis_control(e):
    mod = type(e).__module__ or ""
    return mod.startswith("hypothesis")


def _frames(e):
    tb = e.__traceback__
    out = []
    while tb is not None:
        out.append((os.path.abspath(tb.tb_frame.f_code.co_filename), tb.tb_lineno, tb.tb_frame.f_code.co_name))
        tb = tb.tb_next
    return out


def _passes_through_repo(e):
    return any(f.startswith(REPO + os.sep) for f, _, _ in _frames(e))


def _repo_frame(e):
    fr = [x for x in _frames(e) if x[0].startswith(REPO + os.sep)]
    if not fr:
        return ""
    f, ln, fn = fr[-1]
    return "%s:%s" % (os.path.relpath(f, REPO), fn)


# ---------------------------------------------------------------------------
# running one sub-check in one process
# ---------------------------------------------------------------------------

SHRINK_BUDGET_S = {"quick": 60.0, "thorough": 240.0}


def _run_generated(sub, ctx, n_examples, seed_int):
    """Run Hypothesis over sub.strategy.  Returns a (case, Violation) or None."""
    import hypothesis
    from hypothesis import given, settings, HealthCheck, Phase

    state = {"fail": None, "t0": None}
    budget = SHRINK_BUDGET_S[ctx.tier]

    @hypothesis.seed(seed_int)
    @settings(max_examples=n_examples, database=None, deadline=None, derandomize=False,
              report_multiple_bugs=False, print_blob=False,
              phases=[Phase.generate, Phase.shrink],
              suppress_health_check=[HealthCheck.too_slow, HealthCheck.data_too_large,
                                     HealthCheck.large_base_example])
    @given(sub.strategy)
    def test(case):
        if state["t0"] is not None and time.time() - state["t0"] > budget:
            return  # shrink budget used up: stop making progress, keep the best case so far
        try:
            ctx.run_case(case)
        except Violation as v:
            if state["t0"] is None:
                state["t0"] = time.time()
            state["fail"] = (case, v)
            raise

    try:
        test()
    except Violation:
        pass
    except HarnessError:
        raise
    except hypothesis.errors.FailedHealthCheck as e:
        raise HarnessError("generator health check failed in %s/%s: %s" % (ctx.prop, sub.name, e))
    except Exception as e:  # Flaky etc. after the shrink budget; anything else without a recorded failure is ours
        if state["fail"] is None:
            raise HarnessError("hypothesis run of %s/%s failed: %s" % (
                ctx.prop, sub.name, "".join(traceback.format_exception(type(e), e, e.__traceback__))))
    return state["fail"]


def _run_machine(sub, ctx, n_examples, seed_int):
    import hypothesis
    from hypothesis import settings, HealthCheck, Phase
    from hypothesis.stateful import run_state_machine_as_test

    state = {"fail": None, "t0": None}
    ctx._machine_state = state
    ctx._machine_budget = SHRINK_BUDGET_S[ctx.tier]
    Machine = sub.machine(ctx)
    steps = sub.steps[0] if ctx.tier == "quick" else sub.steps[1]
    st_ = settings(max_examples=n_examples, stateful_step_count=steps, database=None, deadline=None,
                   derandomize=False, report_multiple_bugs=False, print_blob=False,
                   phases=[Phase.generate, Phase.shrink],
                   suppress_health_check=[HealthCheck.too_slow, HealthCheck.data_too_large,
                                          HealthCheck.large_base_example, HealthCheck.filter_too_much])
    try:
        run_state_machine_as_test(hypothesis.seed(seed_int)(Machine), settings=st_)
    except Violation:
        pass
    except HarnessError:
        raise
    except Exception as e:
        if state["fail"] is None:
            raise HarnessError("state machine %s/%s failed: %s" % (
                ctx.prop, sub.name, "".join(traceback.format_exception(type(e), e, e.__traceback__))))
    return state["fail"]


def machine_guard(ctx, history, fn):
    """Run one machine step `fn()`; classify exceptions like Ctx.run_case and remember the failing history."""
    st = ctx._machine_state
    if st["t0"] is not None and time.time() - st["t0"] > ctx._machine_budget:
        return None  # shrink budget used up: stop making progress, keep the best history so far
    try:
        return fn()
    except Violation as v:
        if st["t0"] is None:
            st["t0"] = time.time()
        st["fail"] = ({"history": list(history)}, v)
        raise
    except HarnessError:
        raise
    except Exception as e:  # noqa
        if _is_hypothesis_control(e):
            raise
        if _passes_through_repo(e):
            clause = "sut_exception:%s" % type(e).__name__
            try:
                ctx.fail(clause, message=str(e)[:300], where=_repo_frame(e))
            except Violation as v:
                if st["t0"] is None:
                    st["t0"] = time.time()
                st["fail"] = ({"history": list(history)}, v)
                raise
            return None
        raise HarnessError("exception in machine code of %s/%s, history %s:\n%s" % (
            ctx.prop, ctx.sub.name, short(history), "".join(traceback.format_exception(type(e), e, e.__traceback__))))


def run_subcheck_shard(mod_name, sub_name, tier, seed, shard, nshards, excluded=()):
    """Entry point (also for worker processes).  Returns a picklable summary."""
    import importlib
    mod = importlib.import_module(mod_name)
    sub = [s for s in mod.SUBCHECKS if s.name == sub_name][0]
    known = KnownFindings(mod.PROPERTY)
    ctx = Ctx(mod.PROPERTY, sub, tier, seed, known)
    ctx.excluded_buckets = set(excluded)
    t0 = time.time()
    violations = []
    exhaustive = None

    def record(case, v):
        violations.append({"subcheck": sub.name, "clause": v.clause, "detail": v.detail, "case": case})
        ctx.excluded_buckets.add(v.clause)

    # 1. finite enumeration
    if sub.enumerate is not None:
        exhaustive = bool(sub.exhaustive(tier))
        for i, case in enumerate(sub.enumerate(tier)):
            if i % nshards != shard:
                continue
            try:
                ctx.run_case(case)
            except Violation as v:
                record(case, v)
                if len(violations) >= 5:
                    break
    # 2. generated search, collect-then-continue
    total = sub.quick if tier == "quick" else sub.thorough
    n = (total + nshards - 1) // nshards if total else 0
    if n and (sub.strategy is not None or sub.machine is not None):
        for rnd in range(5):
            s = derive_seed(seed, mod.PROPERTY, sub.name, shard, rnd)
            if sub.machine is not None:
                res = _run_machine(sub, ctx, n, s)
            else:
                res = _run_generated(sub, ctx, n, s)
            if res is None:
                break
            record(*res)
    out = ctx.summary()
    out.update({"subcheck": sub.name, "violations": violations, "wall_s": time.time() - t0,
                "exhaustive": exhaustive, "shard": shard})
    return out


def replay_case(mod, sub_name, case, known=None):
    """Plain re-execution of one case, no Hypothesis.  Returns None or a Violation."""
    sub = [s for s in mod.SUBCHECKS if s.name == sub_name][0]
    known = known or KnownFindings(mod.PROPERTY)
    ctx = Ctx(mod.PROPERTY, sub, "quick", 0, known)
    try:
        if sub.machine is not None:
            try:
                mod.replay_history(sub_name, case, ctx)
            except (Violation, HarnessError):
                raise
            except Exception as e:  # noqa  - classify like Ctx.run_case
                if not _passes_through_repo(e):
                    raise
                ctx._cur_case = case
                if ctx._cur_labels is None:
                    ctx._cur_labels = set()
                ctx.fail("sut_exception:%s" % type(e).__name__, message=str(e)[:300], where=_repo_frame(e))
        else:
            ctx.run_case(case)
    except Violation as v:
        return v, ctx
    return None, ctx


def write_replay(prop, viol, seed, tier):
    d = os.path.join(OUT_DIR, prop)
    os.makedirs(d, exist_ok=True)
    body = {"property": prop, "subcheck": viol["subcheck"], "clause": viol["clause"],
            "detail": viol["detail"], "case": viol["case"], "seed": seed, "tier": tier}
    name = "%s-%s.json" % (viol["subcheck"], hashlib.sha1(canon([viol["clause"], viol["case"]]).encode()).hexdigest()[:12])
    path = os.path.join(d, name)
    with open(path, "w") as fh:
        fh.write(json.dumps(json.loads(canon(body)), indent=1, sort_keys=True))
    return path

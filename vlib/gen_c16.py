# -*- coding: utf-8 -*-
"""C16 helpers: JSON expression descriptions, an own reference evaluator, builders and Hypothesis strategies.

Nothing in the *reference* part (UNITS, N, Q, Ref) calls chempy or `quantities`: numbers are mpmath values at 50 digits
with a propagated condition scale, units are an own table of SI factors (Fractions) and dimension vectors.
chempy is touched only by `Builder` (description -> objects handed to the code under test).

JSON descriptions
    unit product  [[name, exp], ...]            name in UNITS, exp a non-zero int; [] = plain number
    quantity      {"t": "q", "v": <SI value>, "u": <unit product>}
                  plain-float mode hands `v` to chempy; units mode hands (v / factor) * unit, i.e. the same physical
                  quantity written in another unit, so both modes must produce "the same number" (in SI).
    node          {"t": "q", ...}                                    python literal / quantity (argument position)
                | {"t": "name", "k": "p0"}                           string argument, looked up in variables
                | {"t": "const", "q": quantity}                      Constant(...)
                | {"t": "sym", "k": "p0", "impl": bool}              'p0' (implicit conversion) or Symbol.fk('p0')
                | {"t": "op", "op": "+-*/^", "a": node, "b": node}
                | {"t": "neg", "a": node} | {"t": "fn", "fn": "exp"|"log10", "a": node}
                | {"t": "cls", "cls": <name>, "args": [node...] | None, "keys": [str...] | None, "style": ..., ...}
                  style: "list" (default) | "scalar" | "dict" (keyed by argument_names, else by unique_keys; optional
                  "dorder" = insertion order of the keys as a permutation of the positions in "args")
    case          {"root": node, "wrap": "none"|"ma"|"ma*x"|"x*ma"|"ma/x"|"x/ma", "b": node | None,
                   "rxn": {"reac": {..}, "prod": {..}, "inact": {..}}, "env": {...}, "via": "call"|"rate",
                   "usys": None | {"m": name, "kg": name, "s": name, "K": name, "mol": name}, "sub": <sub-check>}
                  wrap: MassAction([root]) alone / multiplied with / divided by `b` (UnaryWrapper semantics);
                  via:  expr(variables, backend=.., reaction=rxn)  or  Reaction(.., expr).rate(variables, backend=..);
                  usys: the case writes every unit in these base-unit names (dimensionless combinations then cancel
                        by name); the unit constants the builder inserts to make the two sides of + / - agree, or to
                        strip the argument of exp/log10/real powers, are spelled in the same names.
    env           {"T": q, "time": q, "lgT": "value"|"expr", "conc": {sp: q}, "density": q, "dose": {name: q},
                   "named": {k: q}, "over": {key: node}, "x": node, "consts": {"R": q, "kB": q, "h": q}}

Why trees use one unit name per base dimension: `quantities` cannot add a numpy scalar and a quantity whose unit is a
left-over ratio such as s/min (AttributeError), and compares a plain number with such a quantity by magnitude; both
are properties of the unit library, not of the formulas judged here.  Mixed names for one dimension (K next to mK,
kJ/mol next to J/(mol K), M next to mol/m3) are exercised on single class instances and on the parameter sets.
"""
import math
from fractions import Fraction as F

import mpmath as mpm
from hypothesis import strategies as st

DPS = 50
ZERO = (0, 0, 0, 0, 0)          # exponents of (m, kg, s, K, mol)


BASES = ("m", "kg", "s", "K", "mol")
SI_SYSTEM = {"m": "m", "kg": "kg", "s": "s", "K": "K", "mol": "mol"}


def dadd(a, b):
    return tuple(x + y for x, y in zip(a, b))


def dsub(a, b):
    return tuple(x - y for x, y in zip(a, b))


def dmul(a, n):
    return tuple(x * n for x in a)


_L, _M, _T, _TH, _N = (1, 0, 0, 0, 0), (0, 1, 0, 0, 0), (0, 0, 1, 0, 0), (0, 0, 0, 1, 0), (0, 0, 0, 0, 1)
_CONC = (-3, 0, 0, 0, 1)
_ENERGY = (2, 1, -2, 0, 0)
_GY = (2, 0, -2, 0, 0)
_YIELD = dsub(_N, _ENERGY)

# name -> (attribute of chempy.units.default_units, SI factor, dimension).  Factors typed in from the definitions
# (minute = 60 s, degree Rankine = 5/9 K, thermochemical calorie = 4.184 J, molar = mol/dm3 = 1000 mol/m3, ...).
UNITS = {
    "s": ("second", F(1), _T), "ms": ("millisecond", F(1, 1000), _T), "min": ("minute", F(60), _T),
    "hour": ("hour", F(3600), _T),
    "K": ("kelvin", F(1), _TH), "mK": ("mK", F(1, 1000), _TH), "degR": ("rankine", F(5, 9), _TH),
    "m": ("metre", F(1), _L), "dm": ("decimetre", F(1, 10), _L), "cm": ("centimetre", F(1, 100), _L),
    "kg": ("kilogram", F(1), _M), "g": ("gram", F(1, 1000), _M),
    "mol": ("mole", F(1), _N), "mmol": ("mmol", F(1, 1000), _N), "umol": ("micromole", F(1, 10 ** 6), _N),
    "M": ("molar", F(1000), _CONC), "mM": ("millimolar", F(1), _CONC), "uM": ("micromolar", F(1, 1000), _CONC),
    "J": ("joule", F(1), _ENERGY), "kJ": ("kilojoule", F(1000), _ENERGY), "cal": ("cal", F(4184, 1000), _ENERGY),
    "Gy": ("gray", F(1), _GY), "kGy": ("kilogray", F(1000), _GY),
    # 1/(100 eV N_A): the factor depends on the *values* of two measured constants, which are not judged here; it is
    # read once from the unit library (set_constants) and then used like any other table entry.
    "per100eV": ("per100eV", None, _YIELD),
}
_per100eV = [None]


def set_constants(eV_J, N_A):
    _per100eV[0] = F(1) / (100 * F(eV_J) * F(N_A))


def ufactor(spec):
    f = F(1)
    for name, e in spec:
        fac = UNITS[name][1]
        if fac is None:
            fac = _per100eV[0]
            if fac is None:
                raise RuntimeError("set_constants() not called")
        f *= fac ** e
    return f


def udims(spec):
    d = ZERO
    for name, e in spec:
        d = dadd(d, dmul(UNITS[name][2], e))
    return d


def coherent(spec):
    return all(UNITS[name][1] == 1 for name, e in spec)


def umul(*specs):
    """Product of unit products, merging equal names, dropping zero exponents, keeping first-seen order."""
    out = []
    for s in specs:
        for name, e in s:
            for it in out:
                if it[0] == name:
                    it[1] += e
                    break
            else:
                out.append([name, e])
    return [it for it in out if it[1] != 0]


def upow(spec, n):
    return [[name, e * n] for name, e in spec if e * n != 0]


def magnitude(q, mode):
    """The python float handed to chempy for quantity description q."""
    if mode == "float" or not q["u"]:
        return q["v"]
    return q["v"] / float(ufactor(q["u"]))


def magnitude_si(q, mode):
    """float SI value of what is handed over (float mode: the number itself)."""
    if mode == "float" or not q["u"]:
        return q["v"]
    return magnitude(q, "units") * float(ufactor(q["u"]))


def _mpf_frac(fr):
    return mpm.mpf(fr.numerator) / mpm.mpf(fr.denominator)


# ---------------------------------------------------------------------------------------------------------------
# reference numbers: value + condition scale
# ---------------------------------------------------------------------------------------------------------------

class Singular(Exception):
    """The description denotes a singular / out-of-range value (0 denominator, overflow): not judged."""


BIG = mpm.mpf(10) ** 120


class N(object):
    """mpmath value `v` with a scale `s` >= |v|: the rounding error of evaluating the same formula in IEEE doubles
    (any association order, library exp/sin/log/pow good to a few ulp) is <= (#operations) * 2**-52 * s.
    add/sub: s = sa + sb (sum of absolute terms);  mul: sa*sb;  div: sa*sb/b**2;  pow: |v| * max(1, |n| * s/|a|) ..."""
    __slots__ = ("v", "s")

    def __init__(self, v, s=None):
        self.v = mpm.mpf(v)
        self.s = abs(self.v) if s is None else mpm.mpf(s)
        if abs(self.v) > BIG or self.s > BIG:
            raise Singular("magnitude beyond 1e120")

    @staticmethod
    def of(x):
        return x if isinstance(x, N) else N(x)

    def __add__(self, o):
        o = N.of(o)
        return N(self.v + o.v, self.s + o.s)

    __radd__ = __add__

    def __sub__(self, o):
        o = N.of(o)
        return N(self.v - o.v, self.s + o.s)

    def __rsub__(self, o):
        return N.of(o) - self

    def __neg__(self):
        return N(-self.v, self.s)

    def __mul__(self, o):
        o = N.of(o)
        return N(self.v * o.v, self.s * o.s)

    __rmul__ = __mul__

    def __truediv__(self, o):
        o = N.of(o)
        if o.v == 0:
            raise Singular("division by zero")
        return N(self.v / o.v, self.s * o.s / (o.v * o.v))

    def __rtruediv__(self, o):
        return N.of(o) / self

    def ipow(self, n):
        if n == 0:
            return N(1)
        if self.v == 0:
            if n < 0:
                raise Singular("0 ** negative")
            return N(0, self.s ** n)
        v = self.v ** n
        return N(v, abs(v) * max(1, abs(n) * self.s / abs(self.v)))

    def rpow(self, y):
        if self.v <= 0:
            raise Singular("non-positive base of a real power")
        v = self.v ** y.v
        return N(v, abs(v) * max(1, abs(y.v) * self.s / self.v + abs(mpm.log(self.v)) * y.s))


def nexp(a):
    if a.v > 270 or a.v < -270:
        raise Singular("exp argument out of range")
    v = mpm.exp(a.v)
    return N(v, v * max(1, a.s))


def nsin(a):
    v = mpm.sin(a.v)
    return N(v, max(abs(v), a.s))


def nlog10(a):
    if a.v <= 0:
        raise Singular("log of non-positive")
    v = mpm.log10(a.v)
    return N(v, max(abs(v), a.s / a.v / mpm.log(10)))


class RefError(Exception):
    """Inconsistent description (a bug of the generator, not of chempy)."""


class Q(object):
    """Reference quantity: N + dimension vector."""
    __slots__ = ("n", "d")

    def __init__(self, n, d=ZERO):
        self.n = N.of(n)
        self.d = d

    @staticmethod
    def of(x):
        return x if isinstance(x, Q) else Q(x)

    def _same(self, o, what):
        if self.d != o.d:
            raise RefError("dimension mismatch in %s: %s vs %s" % (what, self.d, o.d))

    def __add__(self, o):
        o = Q.of(o)
        self._same(o, "+")
        return Q(self.n + o.n, self.d)

    __radd__ = __add__

    def __sub__(self, o):
        o = Q.of(o)
        self._same(o, "-")
        return Q(self.n - o.n, self.d)

    def __rsub__(self, o):
        return Q.of(o) - self

    def __neg__(self):
        return Q(-self.n, self.d)

    def __mul__(self, o):
        o = Q.of(o)
        return Q(self.n * o.n, dadd(self.d, o.d))

    __rmul__ = __mul__

    def __truediv__(self, o):
        o = Q.of(o)
        return Q(self.n / o.n, dsub(self.d, o.d))

    def __rtruediv__(self, o):
        return Q.of(o) / self

    def __pow__(self, n):
        return Q(self.n.ipow(n), dmul(self.d, n))

    def dimless(self, what):
        if self.d != ZERO:
            raise RefError("%s must be dimensionless, has %s" % (what, self.d))
        return self.n


def qexp(q):
    return Q(nexp(q.dimless("exp argument")))


def qsin(q):
    return Q(nsin(q.dimless("sin argument")))


def qlog10(q):
    return Q(nlog10(q.dimless("log10 argument")))


# ---------------------------------------------------------------------------------------------------------------
# classes: argument names, defaults
# ---------------------------------------------------------------------------------------------------------------
FIXED_ARGS = {   # class -> argument names (classes with a fixed number of arguments)
    "MassAction": ("rate_constant",),
    "Arrhenius": ("A", "Ea_over_R"),
    "Eyring": ("kB_h_times_exp_dS_R", "dH_over_R", "conc0"),
    "EyringHS": ("dH", "dS", "c0"),
    "RampedTemp": ("T0", "dTdt"),
    "SinTemp": ("Tbase", "Tamp", "angvel", "phase"),
    "MassActionEq": ("equilibrium_constant",),
    "GibbsEqConst": ("dH_over_R", "dS_over_R"),
}
N_DEFAULTS = {"Eyring": 1, "EyringHS": 1}
POLY = {   # name -> (parameter, reciprocal, shifted); "Poly" = create_Poly with the description's own settings
    "TPoly": ("temperature", False, False), "RTPoly": ("temperature", True, False),
    "Log10TPoly": ("log10_temperature", False, False), "ShiftedTPoly": ("temperature", False, True),
    "ShiftedLog10TPoly": ("log10_temperature", False, True), "ShiftedRTPoly": ("temperature", True, True),
}
NEEDS_RXN = ("MassAction", "Eyring", "EyringHS")
TRANSCENDENTAL = ("Arrhenius", "Eyring", "EyringHS", "SinTemp", "GibbsEqConst")


def radiolytic_names(node):
    names = node.get("names") or [""]
    return (["radiolytic_yield" + ("" if n == "" else "_" + n) for n in names],
            ["doserate" + ("" if n == "" else "_" + n) for n in names])


def arg_names(node):
    c = node["cls"]
    if c in FIXED_ARGS:
        return FIXED_ARGS[c]
    if c == "Radiolytic":
        return tuple(radiolytic_names(node)[0])
    return None


def nargs_of(node):
    an = arg_names(node)
    if an is not None:
        return len(an)
    return len(node["args"])


def walk(node):
    """All nodes of a tree (pre-order), including argument sub-nodes."""
    if not isinstance(node, dict):
        return
    yield node
    t = node.get("t")
    if t == "op":
        for x in walk(node["a"]):
            yield x
        for x in walk(node["b"]):
            yield x
    elif t in ("neg", "fn"):
        for x in walk(node["a"]):
            yield x
    elif t == "cls":
        for a in node.get("args") or []:
            for x in walk(a):
                yield x


def case_nodes(case):
    """All nodes that take part in the evaluation of a case."""
    out = list(walk(case["root"]))
    if case.get("b"):
        out += list(walk(case["b"]))
    env = case["env"]
    for k in sorted(env.get("over", {})):
        out += list(walk(env["over"][k]))
    if env.get("x") and any(nd.get("t") == "cls" and nd["cls"] in ("Poly", "Piecewise") for nd in out):
        out += list(walk(env["x"]))
    return out


def used_params(case):
    """Which entries of the evaluation point the expression reads."""
    used = set()
    for nd in case_nodes(case):
        if nd.get("t") != "cls":
            continue
        c = nd["cls"]
        if c in ("Arrhenius", "Eyring", "EyringHS", "GibbsEqConst", "TPiecewise"):
            used.add("temperature")
        if c == "EyringHS":
            used.add("consts")
        if c in ("RampedTemp", "SinTemp"):
            used.add("time")
        if c == "Radiolytic":
            used.add("density")
            for nm in nd.get("names") or [""]:
                used.add("dose:" + nm)
        if c in POLY:
            used.add(POLY[c][0])
        if c in ("Poly", "Piecewise"):
            used.add("x")
    if "log10_temperature" in used and case["env"].get("lgT") == "expr":
        used.add("temperature")
    return used


def case_quantities(case):
    """Every quantity description that enters the evaluation (to decide whether all units are SI-coherent)."""
    env = case["env"]
    used = used_params(case)
    out = []
    if "temperature" in used:
        out.append(env["T"])
    if "time" in used:
        out.append(env["time"])
    if "density" in used:
        out.append(env["density"])
        out += [env["dose"][k[5:]] for k in sorted(used) if k.startswith("dose:")]
    if "consts" in used:
        out += [env["consts"][k] for k in sorted(env["consts"])]
    r = case.get("rxn") or {}
    needs_conc = case.get("wrap", "none") != "none" or any(
        nd.get("t") == "cls" and nd["cls"] == "MassAction" for nd in case_nodes(case))
    if needs_conc:
        out += [env["conc"][k] for k in sorted(r.get("reac", {}))]
    named = set()
    for nd in case_nodes(case):
        if nd.get("t") == "q":
            out.append(nd)
        elif nd.get("t") == "const":
            out.append(nd["q"])
        elif nd.get("t") in ("sym", "name"):
            named.add(nd["k"])
    out += [env["named"][k] for k in sorted(named)]
    return out


def depth(node):
    t = node.get("t")
    if t == "op":
        return 1 + max(depth(node["a"]), depth(node["b"]))
    if t in ("neg", "fn"):
        return 1 + depth(node["a"])
    return 0


def operators(node):
    out = set()
    for nd in walk(node):
        if nd.get("t") == "op":
            out.add(nd["op"])
        elif nd.get("t") in ("neg", "fn"):
            out.add(nd.get("fn", "neg"))
    return out


def is_int_literal(node):
    return node.get("t") == "q" and not node["u"] and isinstance(node["v"], int) and not isinstance(node["v"], bool)


# ---------------------------------------------------------------------------------------------------------------
# reference evaluator
# ---------------------------------------------------------------------------------------------------------------

class Ref(object):
    """Evaluates a case description with the defining formulas.  mode: 'float' (numbers as written, no dimensions)
    or 'units' (SI values through the own factor table, dimension vectors tracked)."""

    def __init__(self, case, mode, alt=0):
        self.case = case
        self.env = case["env"]
        self.mode = mode
        self.rxn = case.get("rxn")
        self.alt = alt            # which piece to take where the point sits on a shared bound
        self.ambiguous = 0
        self._memo = {}
        self.usys = case.get("usys") or SI_SYSTEM

    def fixf(self, d):
        """SI value of the constant 1.0 * fix_unit(d) the builder inserts to make dimensions agree (units mode)."""
        f = F(1)
        for b, e in zip(BASES, d):
            if e:
                f *= UNITS[self.usys[b]][1] ** e
        return _mpf_frac(f)

    # -- numbers ---------------------------------------------------------------------------------------------
    def num(self, q):
        if self.mode == "float" or not q["u"]:
            return Q(N(q["v"]), ZERO)
        m = magnitude(q, "units")
        return Q(N(mpm.mpf(m) * _mpf_frac(ufactor(q["u"]))), udims(q["u"]))

    def order(self):
        return sum(self.rxn["reac"].values())

    def conc_prod(self):
        res = Q(1)
        for k in sorted(self.rxn["reac"]):
            res = res * self.num(self.env["conc"][k]) ** self.rxn["reac"][k]
        return res

    def net(self, key):
        r = self.rxn
        return r["prod"].get(key, 0) - r["reac"].get(key, 0) - r.get("inact", {}).get(key, 0)

    def species(self):
        r = self.rxn
        return sorted(set(r["reac"]) | set(r["prod"]) | set(r.get("inact", {})))

    def T(self):
        return self.num(self.env["T"])

    def lgT(self):
        if self.env.get("lgT", "value") == "value":
            return Q(N(lgT_value(self.env)))
        T = self.T()
        return qlog10(Q(T.n))      # Log10('temperature' / Constant(1 K)): the number of kelvins

    def param(self, name):
        if name == "temperature":
            return self.T()
        if name == "log10_temperature":
            return self.lgT()
        if name == "time":
            return self.num(self.env["time"])
        if name == "x":
            return self.argval(self.env["x"])
        raise RefError("unknown parameter %s" % name)

    # -- arguments -------------------------------------------------------------------------------------------
    def argval(self, a):
        t = a["t"]
        if t == "q":
            return self.num(a)
        if t == "name":
            return self.num(self.env["named"][a["k"]])
        return self.ev(a)

    def argnode(self, node, i):
        """Description of the i-th argument after unique-key overriding (None: class default)."""
        keys = node.get("keys")
        args = node.get("args")
        if keys and i < len(keys) and keys[i] in self.env.get("over", {}):
            return self.env["over"][keys[i]]
        if args is None or i >= len(args):
            return None
        return args[i]

    def arg(self, node, i):
        a = self.argnode(node, i)
        if a is None:
            return self.default(node, i)
        return self.argval(a)

    def default(self, node, i):
        if node["cls"] in ("Eyring", "EyringHS") and i == 2:   # documented default standard state: 1 molar
            return Q(N(1)) if self.mode == "float" else Q(N(1000), _CONC)
        raise RefError("no default for %s[%d]" % (node["cls"], i))

    # -- nodes -----------------------------------------------------------------------------------------------
    def ev(self, node):
        k = id(node)
        if k not in self._memo:
            self._memo[k] = self._ev(node)
        return self._memo[k]

    def dims(self, node):
        return self.ev(node).d

    def _ev(self, node):
        t = node["t"]
        if t == "q":
            return self.num(node)
        if t == "const":
            return self.num(node["q"])
        if t in ("sym", "name"):
            return self.num(self.env["named"][node["k"]])
        if t == "neg":
            return -self.ev(node["a"])
        if t == "fn":
            a = self.ev(node["a"])
            a = Q(a.n / self.fixf(a.d))    # the builder divides a dimensioned argument by 1.0 * fix_unit(dims)
            return qexp(a) if node["fn"] == "exp" else qlog10(a)
        if t == "op":
            return self._op(node)
        if t == "cls":
            return self._cls(node)
        raise RefError("unknown node type %r" % t)

    def _op(self, node):
        op = node["op"]
        a = self.ev(node["a"])
        if op == "^":
            if is_int_literal(node["b"]):
                return a ** node["b"]["v"]
            b = self.ev(node["b"])
            return Q((a.n / self.fixf(a.d)).rpow(b.n / self.fixf(b.d)))    # builder strips base and exponent
        b = self.ev(node["b"])
        if op in "+-" and a.d != b.d:
            b = Q(b.n * self.fixf(dsub(a.d, b.d)), a.d)   # builder multiplies b by 1.0 * fix_unit(dims a - dims b)
        if op == "+":
            return a + b
        if op == "-":
            return a - b
        if op == "*":
            return a * b
        if op == "/":
            return a / b
        raise RefError("unknown operator %r" % op)

    def _cls(self, node):
        c = node["cls"]
        A = lambda i: self.arg(node, i)  # noqa
        if c == "Constant":
            return A(0)
        if c == "MassAction":
            return A(0) * self.conc_prod()
        if c == "Arrhenius":
            return A(0) * qexp(-(A(1) / self.T()))
        if c == "Eyring":
            T = self.T()
            return A(0) * T * qexp(-(A(1) / T)) * A(2) ** (1 - self.order())
        if c == "EyringHS":
            T = self.T()
            cs = self.env["consts"]
            R, kB, h = self.num(cs["R"]), self.num(cs["kB"]), self.num(cs["h"])
            dH, dS = A(0), A(1)
            return kB / h * T * qexp(-((dH - T * dS) / (R * T))) * A(2) ** (1 - self.order())
        if c == "Radiolytic":
            _, dkeys = radiolytic_names(node)
            names = node.get("names") or [""]
            tot = None
            for i, nm in enumerate(names):
                term = self.num(self.env["dose"][nm]) * A(i)
                tot = term if tot is None else tot + term
            return self.num(self.env["density"]) * tot
        if c == "RampedTemp":
            return A(0) + A(1) * self.param("time")
        if c == "SinTemp":
            return A(0) + A(1) * qsin(A(2) * self.param("time") + A(3))
        if c == "MassActionEq":
            return A(0)
        if c == "GibbsEqConst":
            return qexp(A(1) - A(0) / self.T())
        if c in POLY or c == "Poly":
            if c == "Poly":
                pname, recip, shifted = "x", node["recip"], node["shift"]
            else:
                pname, recip, shifted = POLY[c]
            x = self.param(pname)
            n = nargs_of(node)
            first = 0
            if shifted:
                x = x - A(0)
                first = 1
            tot = None
            for j, i in enumerate(range(first, n)):
                term = A(i) * x ** (-j if recip else j)
                tot = term if tot is None else tot + term
            return tot
        if c in ("TPiecewise", "Piecewise"):
            x = self.param("temperature" if c == "TPiecewise" else "x")
            xsrc = self.env["T"] if c == "TPiecewise" else self.env["x"]
            n = nargs_of(node)
            npieces = (n - 1) // 2
            cands = []
            eps = mpm.mpf(10) ** -12
            for i in range(npieces):
                lo, up = A(2 * i), A(2 * i + 2)
                if lo.d != x.d or up.d != x.d:
                    raise RefError("piecewise bound dimension")
                if lo.n.v - abs(lo.n.v) * eps <= x.n.v <= up.n.v + abs(up.n.v) * eps:
                    cands.append(i)
            if not cands:
                raise Singular("piecewise: outside all intervals")
            # a point within conversion rounding of the outermost bounds is inside only if it is the very same
            # quantity (same unit, same number); written in another unit it may land outside: not judged
            for j in (0, n - 1):
                b = A(j)
                if abs(x.n.v - b.n.v) <= abs(b.n.v) * eps and x.n.v != 0:
                    bn = self.argnode(node, j)
                    if not (self.mode == "float" or (bn.get("t") == "q" and xsrc.get("t") == "q"
                                                     and bn["u"] == xsrc["u"] and bn["v"] == xsrc["v"])):
                        raise Singular("piecewise: on the outer bound in another unit")
            # closed intervals: on a shared bound (within unit-conversion rounding) either piece is the definition
            if len(cands) > 1:
                self.ambiguous += 1
            return A(2 * cands[self.alt % len(cands)] + 1)
        raise RefError("unknown class %r" % c)

    # -- case level ------------------------------------------------------------------------------------------
    def value(self):
        """Reference value of the whole case before the net stoichiometric factor."""
        case = self.case
        w = case.get("wrap", "none")
        a = self.ev(case["root"])
        if w == "none":
            return a
        cp = self.conc_prod()
        if w == "ma":
            return a * cp
        b = self.ev(case["b"])
        if w in ("ma*x", "x*ma"):
            return a * b * cp
        if w == "ma/x":
            return a / b * cp
        if w == "x/ma":
            return b / a * cp
        raise RefError("unknown wrap %r" % w)


def lgT_value(env):
    """The number passed as 'log10_temperature' when the caller supplies it as a plain value."""
    return math.log10(env["T"]["v"])


# ---------------------------------------------------------------------------------------------------------------
# builder: description -> chempy objects
# ---------------------------------------------------------------------------------------------------------------

class Builder(object):
    def __init__(self, case, mode, numwrap=None):
        """mode 'float' | 'units'; numwrap converts plain python floats placed in `variables` (np.float64, ...)."""
        from chempy.util import _expr as E
        from chempy.kinetics import rates as R
        from chempy.kinetics import _rates as R_
        from chempy.thermodynamics import expressions as X
        from chempy.units import default_units as u
        self.E, self.R, self.R_, self.X, self.u = E, R, R_, X, u
        self.case = case
        self.env = case["env"]
        self.mode = mode
        self.numwrap = numwrap or (lambda x: x)
        self.ref = Ref(case, "units") if mode == "units" else None

    # -- units -----------------------------------------------------------------------------------------------
    def uobj(self, spec):
        res = None
        for name, e in spec:
            f = getattr(self.u, UNITS[name][0]) ** e
            res = f if res is None else res * f
        return res

    def si_unit(self, d):
        u = self.u
        res = 1.0 * u.dimensionless
        for base, e in zip((u.metre, u.kilogram, u.second, u.kelvin, u.mole), d):
            if e:
                res = res * base ** e
        return res

    def fix_unit(self, d):
        """1.0 * (unit of dimension d spelled in the base-unit names of the case's unit system)."""
        usys = self.case.get("usys") or SI_SYSTEM
        res = 1.0 * self.u.dimensionless
        for b, e in zip(BASES, d):
            if e:
                res = res * getattr(self.u, UNITS[usys[b]][0]) ** e
        return res

    def quant(self, q):
        m = magnitude(q, self.mode)
        if self.mode == "float" or not q["u"]:
            return m
        return m * self.uobj(q["u"])

    # -- expressions -----------------------------------------------------------------------------------------
    def as_expr(self, obj):
        if isinstance(obj, self.E.Expr):
            return obj
        if isinstance(obj, str):
            return self.E.Symbol.fk(obj)
        return self.E.Constant(obj)

    def arg(self, a):
        t = a["t"]
        if t == "q":
            return self.quant(a)
        if t == "name":
            return a["k"]
        return self.as_expr(self.node(a))

    def node(self, nd):
        """Returns an Expr, or a python literal / string for 'q' / implicit 'sym' leaves."""
        E = self.E
        t = nd["t"]
        if t == "q":
            if self.mode == "units" and nd["u"]:
                return E.Constant(self.quant(nd))
            return nd["v"]
        if t == "const":
            return E.Constant(self.quant(nd["q"]))
        if t == "sym":
            return nd["k"] if nd.get("impl") else E.Symbol.fk(nd["k"])
        if t == "neg":
            return -self.as_expr(self.node(nd["a"]))
        if t == "fn":
            a = self.as_expr(self.node(nd["a"]))
            a = self._strip(a, nd["a"])
            return (E.Exp if nd["fn"] == "exp" else E.Log10)(a)
        if t == "op":
            return self._op(nd)
        if t == "cls":
            return self._cls(nd)
        raise RefError("unknown node type %r" % t)

    def _strip(self, obj, nd):
        """units mode: divide a dimensioned operand by its own SI unit (value unchanged)."""
        if self.mode != "units":
            return obj
        d = self.ref.dims(nd)
        if d == ZERO:
            return obj
        return self.as_expr(obj) / self.E.Constant(self.fix_unit(d))

    def _op(self, nd):
        op = nd["op"]
        a, b = self.node(nd["a"]), self.node(nd["b"])
        if not isinstance(a, self.E.Expr) and not isinstance(b, self.E.Expr):
            a = self.as_expr(a)
        if op == "^":
            if not is_int_literal(nd["b"]):
                a, b = self._strip(a, nd["a"]), self._strip(b, nd["b"])
                if not isinstance(a, self.E.Expr) and not isinstance(b, self.E.Expr):
                    a = self.as_expr(a)
            return a ** b
        if op in "+-" and self.mode == "units":
            da, db = self.ref.dims(nd["a"]), self.ref.dims(nd["b"])
            if da != db:
                b = self.as_expr(b) * self.E.Constant(self.fix_unit(dsub(da, db)))
        if op == "+":
            return a + b
        if op == "-":
            return a - b
        if op == "*":
            return a * b
        if op == "/":
            return a / b
        raise RefError("unknown operator %r" % op)

    def klass(self, nd):
        c = nd["cls"]
        E, R, R_, X = self.E, self.R, self.R_, self.X
        if c == "Constant":
            return E.Constant
        if c == "Radiolytic":
            names = nd.get("names") or [""]
            return R.Radiolytic if names == [""] else R.mk_Radiolytic(*names)
        if c in ("MassAction", "Arrhenius", "Eyring", "EyringHS", "RampedTemp", "SinTemp"):
            return getattr(R, c)
        if c in ("MassActionEq", "GibbsEqConst"):
            return getattr(X, c)
        if c in POLY or c == "TPiecewise":
            return getattr(R_, c)
        if c == "Poly":
            return E.create_Poly("x", reciprocal=nd["recip"], shift=("x_shift" if nd["shift"] else None))
        if c == "Piecewise":
            return E.create_Piecewise("x", nan_fallback=bool(nd.get("nan_fallback")))
        raise RefError("unknown class %r" % c)

    def _cls(self, nd):
        K = self.klass(nd)
        keys = nd.get("keys")
        args = nd.get("args")
        style = nd.get("style", "list")
        if args is None:
            return K(unique_keys=tuple(keys))
        built = [self.arg(a) for a in args]
        if style == "dict":
            # keyed by argument_names, or (classes without argument_names) by unique_keys; "dorder" is the insertion
            # order of the keys (a permutation of the given positions); fewer keys than names = defaults for the rest
            names = arg_names(nd) or keys
            built = dict((names[i], built[i]) for i in (nd.get("dorder") or range(len(built))))
        elif style == "scalar":
            built = built[0]
        if keys is None:
            return K(built)
        return K(built, tuple(keys))

    # -- variables -------------------------------------------------------------------------------------------
    def variables(self, symbolic=None):
        """variables dict.  symbolic: None, or a callable name -> sympy Symbol; then every number goes in as a symbol
        and the second return value maps symbol -> float for the later substitution."""
        env = self.env
        subs = {}
        out = {}

        def put(key, q):
            val = self.quant(q)
            if symbolic is not None:
                s = symbolic(key)
                subs[s] = val
                out[key] = s
            elif self.mode == "float" or not q["u"]:
                out[key] = self.numwrap(val)
            else:
                out[key] = val

        used = self.used()
        if "temperature" in used:
            put("temperature", env["T"])
        if "time" in used:
            put("time", env["time"])
        if "log10_temperature" in used:
            if env.get("lgT", "value") == "value":
                put("log10_temperature", {"t": "q", "v": lgT_value(env), "u": []})
            elif self.mode == "units":
                out["log10_temperature"] = self.E.Log10("temperature" / self.E.Constant(1.0 * self.u.kelvin))
                if "temperature" not in out:
                    put("temperature", env["T"])
            else:
                out["log10_temperature"] = self.E.Log10("temperature")
                if "temperature" not in out:
                    put("temperature", env["T"])
        if "x" in used:
            x = env["x"]
            if x["t"] == "q":
                put("x", x)
            else:
                out["x"] = self.arg(x)
        if "density" in used:
            put("density", env["density"])
            for nm in sorted(k[5:] for k in used if k.startswith("dose:")):
                put("doserate" + ("" if nm == "" else "_" + nm), env["dose"][nm])
        if "consts" in used:
            cs = env["consts"]
            put("molar_gas_constant", cs["R"])
            put("Boltzmann_constant", cs["kB"])
            put("Planck_constant", cs["h"])
        r = self.case.get("rxn")
        if r:
            for k in sorted(set(r["reac"]) | set(r["prod"]) | set(r.get("inact", {}))):
                put(k, env["conc"][k])
        for k in sorted(env["named"]):
            put(k, env["named"][k])
        for k in sorted(env.get("over", {})):
            a = env["over"][k]
            if a["t"] == "q":
                put(k, a)
            else:
                out[k] = self.arg(a)
        return out, subs

    def used(self):
        return used_params(self.case)

    def reaction(self):
        from chempy import Reaction
        r = self.case.get("rxn")
        if not r:
            return None
        return Reaction(dict(r["reac"]), dict(r["prod"]), None, dict(r.get("inact", {})) or None)

    def root(self):
        """The expression object of the case (wrap applied)."""
        case = self.case
        w = case.get("wrap", "none")
        a = self.as_expr(self.node(case["root"]))
        if w == "none":
            return a
        ma = self.R.MassAction([a])
        if w == "ma":
            return ma
        b = self.node(case["b"])
        if w == "ma*x":
            return ma * b
        if w == "x*ma":
            return b * ma
        if w == "ma/x":
            return ma / b
        if w == "x/ma":
            return b / ma
        raise RefError("unknown wrap %r" % w)


# ---------------------------------------------------------------------------------------------------------------
# strategies
# ---------------------------------------------------------------------------------------------------------------
KIND_UNITS = {     # unit products per physical kind; the first one is SI-coherent (factor 1)
    "temp": [[["K", 1]], [["mK", 1]], [["degR", 1]]],
    "time": [[["s", 1]], [["min", 1]], [["ms", 1]], [["hour", 1]]],
    "conc": [[["mol", 1], ["m", -3]], [["M", 1]], [["mM", 1]], [["uM", 1]], [["mol", 1], ["dm", -3]],
             [["mmol", 1], ["cm", -3]]],
    "emol": [[["J", 1], ["mol", -1]], [["kJ", 1], ["mol", -1]], [["cal", 1], ["mol", -1]], [["J", 1], ["mmol", -1]]],
    "dens": [[["kg", 1], ["m", -3]], [["kg", 1], ["dm", -3]], [["g", 1], ["cm", -3]]],
    "dose": [[["Gy", 1], ["s", -1]], [["Gy", 1], ["min", -1]], [["kGy", 1], ["hour", -1]]],
    "yield": [[["mol", 1], ["J", -1]], [["umol", 1], ["J", -1]], [["per100eV", 1]], [["mol", 1], ["kJ", -1]]],
    "R": [[["J", 1], ["mol", -1], ["K", -1]]],
    "kB": [[["J", 1], ["K", -1]]],
    "h": [[["J", 1], ["s", 1]]],
}
KIND_DIMS = {"temp": _TH, "time": _T, "conc": _CONC, "emol": dsub(_ENERGY, _N), "dens": (-3, 1, 0, 0, 0),
             "dose": (2, 0, -3, 0, 0), "yield": _YIELD, "R": dsub(dsub(_ENERGY, _N), _TH), "kB": dsub(_ENERGY, _TH),
             "h": dadd(_ENERGY, _T)}
BASE_CHOICES = {"m": ["m", "dm", "cm"], "kg": ["kg", "g"], "s": ["s", "min", "ms", "hour"],
                "K": ["K", "mK", "degR"], "mol": ["mol", "mmol", "umol"]}
SPECIES = ["A", "B", "C"]
PRODUCTS = ["P", "Q"]
DOSE_NAMES = ["", "alpha", "beta", "gamma"]


def sys_spec(usys, d):
    return [[usys[b], e] for b, e in zip(BASES, d) if e]


def _r6(x):
    return float("%.6g" % x)


def lin(lo, hi):
    return st.floats(lo, hi, allow_nan=False, allow_infinity=False).map(_r6)


def logu(lo, hi):
    return st.floats(math.log10(lo), math.log10(hi), allow_nan=False).map(lambda e: _r6(10.0 ** e))


def q_(v, u):
    return {"t": "q", "v": v, "u": [list(p) for p in u]}


class State(object):
    """Book-keeping while one case is drawn.

    units: 'si'     every unit is the SI-coherent first choice,
           'mixed'  every quantity draws its own unit (K next to mK, kJ/mol next to J/mol/K, M next to mol/m3),
           'system' one name per base dimension for the whole case, derived units spelled in base names, so that
                    every dimensionless combination cancels *by name* (no 's/min' left over)."""

    def __init__(self, draw, units, moderate, keyp, order):
        self.draw = draw
        self.units = units
        self.moderate = moderate    # leaf values of order one (trees) instead of physically wide ranges
        self.keyp = keyp            # percentage of class nodes that get unique_keys
        self.order = order
        self.named = {}
        self.over = {}
        self.env = None
        self.usys = None
        if units == "system":
            self.usys = {b: draw(st.sampled_from(BASE_CHOICES[b])) for b in BASES}
        self.shared = {"nkeys": 0}

    def sub(self, moderate=True, keyp=0):
        """A state with other value ranges that shares names, overrides, env and unit system with this one."""
        o = State.__new__(State)
        o.__dict__.update(self.__dict__)
        o.moderate, o.keyp = moderate, keyp
        return o

    def unit(self, kind):
        if self.units == "system":
            return sys_spec(self.usys, KIND_DIMS[kind])
        ch = KIND_UNITS[kind]
        if self.units == "si" or len(ch) == 1:
            return ch[0]
        return self.draw(st.sampled_from(ch))

    def pct(self, p):
        return self.draw(st.integers(0, 99)) >= 100 - p

    def rate_unit(self, order=None):
        """Unit of a rate constant of the given order: conc**(1-order) / time."""
        order = self.order if order is None else order
        return umul(upow(self.unit("conc"), 1 - order), upow(self.unit("time"), -1))

    def free_unit(self):
        """Unit of an argument whose dimension is not constrained."""
        k = self.draw(st.integers(0, 3))
        if k == 0:
            return []
        if k == 1:
            return upow(self.unit("time"), -1)
        if k == 2:
            return self.rate_unit(2)
        return self.rate_unit(self.draw(st.integers(0, 3)))

    def new_name(self, q):
        k = "p%d" % len(self.named)
        self.named[k] = q
        return k


def gen_env(S):
    """Evaluation point; drawn before the expression so that classes can refer to its unit names."""
    d = S.draw
    env = {
        "T": q_(d(lin(200, 2000)), S.unit("temp")),
        "time": q_(d(lin(0, 1000)), S.unit("time")),
        "lgT": d(st.sampled_from(["value", "expr"])),
        "conc": {},
        "density": q_(d(lin(0.5, 2.0)), S.unit("dens")),
        "dose": {},
        "consts": {"R": q_(d(st.sampled_from([8.314472, 8.3145, 8.0])), S.unit("R")),
                   "kB": q_(d(st.sampled_from([1.3806504e-23, 1.5e-23])), S.unit("kB")),
                   "h": q_(d(st.sampled_from([6.62606896e-34, 6e-34])), S.unit("h"))},
        "x": None,
    }
    for k in SPECIES + PRODUCTS:
        env["conc"][k] = q_(d(lin(0.25, 4.0) if S.moderate else logu(1e-4, 1e2)), S.unit("conc"))
    for nm in DOSE_NAMES:
        env["dose"][nm] = q_(d(lin(0.25, 4.0) if S.moderate else logu(1e-2, 1e1)), S.unit("dose"))
    k = d(st.integers(0, 9))
    if k < 8:
        env["x"] = q_(d(lin(0.25, 4.0)), [])
    else:     # the parameter supplied as an expression (cf. test_str_arg); 1/time in the env's own time unit
        env["x"] = {"t": "cls", "cls": "RampedTemp",
                    "args": [q_(d(lin(0.25, 3.0)), []), q_(d(lin(0, 1e-3)), upow(env["time"]["u"], -1))]}
    env["named"] = S.named
    env["over"] = S.over
    S.env = env
    return env


def _pos_value(S, wide_lo, wide_hi):
    return S.draw(lin(0.25, 4.0) if S.moderate else logu(wide_lo, wide_hi))


def gen_cls(S, cls, positive=True, allow_nested=0, uo=None):
    """One class node.  positive: the value is > 0 by construction.  uo: unit product of the 'free' argument."""
    d = S.draw
    node = {"t": "cls", "cls": cls}
    if uo is None:
        uo = S.free_unit()
    plain_out = not uo          # a bare number: everything added to it must be unit-free *by name*
    Tu = S.env["T"]["u"] if plain_out else S.unit("temp")
    pos = []          # list of zero-argument generators, one per argument position
    nestable = ()
    n_required = None
    if cls == "Constant":
        pos = [lambda: q_(_pos_value(S, 1e-3, 1e3), uo)]
    elif cls == "MassAction":
        ku = S.rate_unit()
        pos = [lambda: q_(_pos_value(S, 1e-5, 1e15), ku)]
        nestable = (0,)
    elif cls == "Arrhenius":
        Tu = S.unit("temp")
        pos = [lambda: q_(_pos_value(S, 1e-5, 1e15), uo),
               lambda: q_(d(lin(0, 2000) if S.moderate else lin(0, 36000)), Tu)]
        nestable = (0,)
    elif cls == "Eyring":
        Tu = S.unit("temp")
        cu = S.unit("conc")
        c0u = umul(uo, upow(S.unit("temp"), -1))
        pos = [lambda: q_(d(logu(1e-3, 1e-2) if S.moderate else logu(1e-5, 1e20)), c0u),
               lambda: q_(d(lin(0, 2000) if S.moderate else lin(0, 36000)), Tu),
               lambda: q_(d(lin(0.25, 4.0)), cu)]
        n_required = 3 if S.units == "system" else 2
        nestable = (0,)
    elif cls == "EyringHS":
        eu = S.unit("emol")
        su = umul(S.unit("emol"), upow(S.unit("temp"), -1))
        cu = S.unit("conc")
        pos = [lambda: q_(d(lin(0, 5000) if S.moderate else lin(0, 300e3)), eu),
               lambda: q_(d(lin(-255, -240) if S.moderate else lin(-300, 300)), su),
               lambda: q_(d(lin(0.25, 4.0)), cu)]
        n_required = 3 if S.units == "system" else 2
    elif cls == "Radiolytic":
        nn = d(st.integers(0, 3))
        names = [""] if nn == 0 else d(st.permutations(["alpha", "beta", "gamma"]))[:nn]
        node["names"] = list(names)
        pos = [(lambda: q_(d(lin(0.25, 4.0) if S.moderate else logu(1e-9, 1e-6)), S.unit("yield"))) for _ in names]
        nestable = (0,) if len(names) == 1 else ()
    elif cls == "RampedTemp":
        tu = S.env["time"]["u"] if plain_out else S.unit("time")
        base = uo if S.moderate else S.unit("temp")
        if not base:
            tu = S.env["time"]["u"]
        pos = [lambda: q_(d(lin(0.25, 4.0) if S.moderate else lin(200, 2000)), base),
               lambda: q_(d(lin(0, 1e-3) if positive else lin(-1e-3, 1e-3)) * (1.0 if S.moderate else 300.0),
                          umul(base, upow(tu, -1)))]
        nestable = (0,)
    elif cls == "SinTemp":
        tu = S.unit("time")
        base = uo if S.moderate else S.unit("temp")
        sc = 1.0 if S.moderate else 300.0
        pos = [lambda: q_(d(lin(2.0, 4.0)) * sc, base),
               lambda: q_(d(lin(0, 1.5) if positive else lin(-6, 6)) * sc, base),
               lambda: q_(d(lin(-0.1, 0.1)), upow(tu, -1)),
               lambda: q_(d(lin(-3.2, 3.2)), [])]
    elif cls == "MassActionEq":
        pos = [lambda: q_(_pos_value(S, 1e-10, 1e10), uo)]
        nestable = (0,)
    elif cls == "GibbsEqConst":
        Tu = S.unit("temp")
        pos = [lambda: q_(d(lin(-500, 500) if S.moderate else lin(-5000, 5000)), Tu),
               lambda: q_(d(lin(-1, 1) if S.moderate else lin(-10, 10)), [])]
    elif cls in POLY or cls == "Poly":
        pos = _poly_positions(S, node, cls, positive, uo, Tu)
    elif cls in ("TPiecewise", "Piecewise"):
        pos = _piecewise_positions(S, node, cls, positive, uo)
    else:
        raise RefError("unknown class %r" % cls)

    n = len(pos)
    if n_required is None:
        n_required = n
    nargs = n if n_required == n else d(st.integers(n_required, n))
    args = []
    for i in range(nargs):
        a = pos[i]()
        if a.get("t") == "q":
            r = d(st.integers(0, 99))
            if r >= 92 and cls not in ("TPiecewise", "Piecewise", "Constant"):
                a = {"t": "name", "k": S.new_name(a)}
            elif r >= 84 and allow_nested > 0 and i in nestable:
                a = _nested_for(S, a, allow_nested - 1)
        args.append(a)
    node["args"] = args
    fixed = cls in FIXED_ARGS or cls == "Radiolytic"
    # construction style
    if fixed and nargs == nargs_of(node) and S.pct(22):
        # dict of named arguments, keys inserted in any order.  A dict naming only the leading arguments of a class
        # with defaults is NOT generated: the documentation only says a dict "is converted to a list using
        # argument_names", it does not promise defaults for missing keys (on the pinned tree such a dict loses its
        # values: EyringHS({'dH': .., 'dS': ..}).args == ('dH', 'dS', 1 M)) - outside the stated domain.
        node["style"] = "dict"
        if nargs > 1:
            node["dorder"] = list(d(st.permutations(list(range(nargs)))))
    elif nargs == 1 and cls in ("MassAction", "MassActionEq", "Constant", "Radiolytic") and args[0]["t"] != "name" \
            and S.pct(15):
        node["style"] = "scalar"
    # unique keys and overrides
    if cls != "Constant" and S.pct(S.keyp):
        # classes without argument_names: "converted to a list using ... self.unique_keys" - a dict keyed by the
        # unique keys (then every argument needs a key)
        unshifted = (cls in POLY and not POLY[cls][2]) or (cls == "Poly" and not node.get("shift"))
        bykeys = unshifted and node.get("style") is None and S.pct(35)
        m = nargs if bykeys else d(st.integers(1, nargs))
        keys = []
        for i in range(m):
            S.shared["nkeys"] += 1
            keys.append("k%d_%s" % (S.shared["nkeys"], i))
        node["keys"] = keys
        allover = fixed and m >= n_required and node.get("style") is None and S.pct(20)
        if bykeys:
            node["style"] = "dict"
            if nargs > 1:
                node["dorder"] = list(d(st.permutations(list(range(nargs)))))
        for i, k in enumerate(keys):
            if allover or S.pct(60):
                S.over[k] = pos[i]()
        if allover:
            node["args"] = None
    return node


def _nested_for(S, a, allow_nested):
    """Replace a number argument by an expression of the same dimension (a polynomial in T or a Constant)."""
    k = S.draw(st.integers(0, 2))
    if k == 0:
        return gen_cls(S, "Constant", uo=a["u"])
    node = gen_cls(S.sub(), "ShiftedTPoly" if k == 1 else "TPoly", positive=True, uo=a["u"])
    # scale the moderate polynomial to the magnitude of the argument it replaces
    for arg in node["args"][(1 if k == 1 else 0):]:
        tgt = S.named[arg["k"]] if arg["t"] == "name" else arg
        tgt["v"] = _r6(tgt["v"] * (a["v"] if a["v"] != 0 else 1.0))
    return node


def _poly_positions(S, node, cls, positive, uo, Tu):
    d = S.draw
    if cls == "Poly":
        node["recip"] = d(st.booleans())
        node["shift"] = d(st.booleans())
        pname, recip, shifted = "x", node["recip"], node["shift"]
        xu, typ = [], 1.0
    else:
        pname, recip, shifted = POLY[cls]
        xu, typ = (Tu, 1000.0) if pname == "temperature" else ([], 3.0)
    ncoef = d(st.integers(1, 5))
    pos = []
    if shifted:
        if pname == "temperature":
            if recip or positive:
                sh = lambda: q_(d(lin(0, 150)) if (positive or d(st.booleans())) else d(lin(2100, 3000)), xu)  # noqa
            else:
                sh = lambda: q_(d(lin(0, 3000)), xu)  # noqa
        elif pname == "log10_temperature":
            sh = lambda: q_(d(lin(0, 2.25)) if positive else d(lin(0, 4)), [])  # noqa
        else:   # custom x in [0.25, 4]
            if recip or positive:
                sh = lambda: q_(d(lin(0, 0.2)) if (positive or d(st.booleans())) else d(lin(5, 9)), xu)  # noqa
            else:
                sh = lambda: q_(d(lin(0, 5)), xu)  # noqa
        pos.append(sh)

    def coef(j):
        def g():
            mag = d(lin(0.0, 1.0)) if (positive and j > 0) else (d(lin(0.25, 1.0)) if positive else d(lin(-1.0, 1.0)))
            scale = typ ** (j if recip else -j)
            if not S.moderate:
                scale *= 1e3
            return q_(_r6(mag * scale), umul(uo, upow(xu, j if recip else -j)))
        return g
    for j in range(ncoef):
        pos.append(coef(j))
    return pos


def _piecewise_positions(S, node, cls, positive, uo):
    d = S.draw
    npieces = d(st.integers(1, 3))
    if cls == "TPiecewise":
        xu = S.unit("temp")
        inner = sorted(d(st.lists(lin(201, 1999), min_size=npieces - 1, max_size=npieces - 1, unique=True)))
        bounds = [d(lin(0, 199))] + inner + [d(lin(2001, 3000))]
    else:
        node["nan_fallback"] = d(st.booleans())
        xu = []
        inner = sorted(d(st.lists(lin(0.3, 3.9), min_size=npieces - 1, max_size=npieces - 1, unique=True)))
        bounds = [d(lin(0, 0.2))] + inner + [d(lin(4.1, 5))]
    node["at_x"] = d(st.integers(0, 1)) if S.pct(15) else None   # lower/upper bound of the active piece := parameter
    pos = []
    for i in range(npieces):
        pos.append((lambda b: (lambda: q_(b, xu)))(bounds[i]))
        pos.append(lambda: _piece(S, cls, positive, uo))
    pos.append((lambda b: (lambda: q_(b, xu)))(bounds[npieces]))
    return pos


def _piece(S, cls, positive, uo):
    d = S.draw
    k = d(st.integers(0, 3))
    if k == 0:
        return q_(d(lin(0.25, 4.0)), uo)
    if cls == "TPiecewise":
        name = ["TPoly", "ShiftedTPoly", "RTPoly"][k - 1]
    else:
        name = "Poly"
    return gen_cls(S.sub(), name, positive=positive, uo=uo)


def fix_piecewise_bounds(case):
    """`at_x`: make the lower/upper bound of the active piece equal to the evaluation point (closed-interval corner).
    Done after the expression is drawn; the bounds stay sorted."""
    env = case["env"]
    for nd in case_nodes(case):
        if nd.get("t") == "cls" and nd["cls"] in ("TPiecewise", "Piecewise") and nd.get("at_x") is not None \
                and nd.get("args"):
            src = env["T"] if nd["cls"] == "TPiecewise" else env["x"]
            if src is None or src["t"] != "q":
                continue
            bounds = nd["args"][0::2]
            if any(b.get("t") != "q" for b in bounds):
                continue
            for j in range(len(bounds) - 1):
                if bounds[j]["v"] <= src["v"] <= bounds[j + 1]["v"]:
                    nd["args"][2 * (j + nd["at_x"])] = q_(src["v"], src["u"])
                    break


ALL_CLASSES = ["Constant", "MassAction", "Arrhenius", "Eyring", "EyringHS", "Radiolytic", "RampedTemp", "SinTemp",
               "TPoly", "RTPoly", "Log10TPoly", "ShiftedTPoly", "ShiftedLog10TPoly", "ShiftedRTPoly", "TPiecewise",
               "Poly", "Piecewise", "MassActionEq", "GibbsEqConst"]
LEAF_CLASSES = ["Constant", "Arrhenius", "TPoly", "GibbsEqConst", "ShiftedTPoly", "RTPoly", "Eyring", "Radiolytic",
                "RampedTemp", "SinTemp", "Log10TPoly", "ShiftedLog10TPoly", "ShiftedRTPoly", "TPiecewise", "Poly",
                "Piecewise", "MassActionEq", "EyringHS"]


def gen_rxn(draw, order=None):
    order = draw(st.integers(1, 3)) if order is None else order
    reac = {}
    for _ in range(order):
        k = draw(st.sampled_from(SPECIES))
        reac[k] = reac.get(k, 0) + 1
    prod = {"P": draw(st.integers(1, 2))}
    if draw(st.booleans()):
        prod["Q"] = 1
    inact = {}
    if draw(st.integers(0, 9)) >= 8:
        inact[draw(st.sampled_from(sorted(reac)))] = 1
    return {"reac": reac, "prod": prod, "inact": inact}


def _finish(draw, S, root, wrap, b, rxn, env):
    case = {"root": root, "wrap": wrap, "b": b, "rxn": rxn, "env": env, "usys": S.usys,
            "via": draw(st.sampled_from(["call", "rate"]))}
    fix_piecewise_bounds(case)
    return case


@st.composite
def class_cases(draw, classes=None, units="mixed", keyp=0, nested=1, wide=True):
    """One class instance (optionally MassAction-wrapped), wide physical ranges."""
    rxn = gen_rxn(draw)
    S = State(draw, units, not wide, keyp, sum(rxn["reac"].values()))
    env = gen_env(S)
    cls = draw(st.sampled_from(classes or ALL_CLASSES))
    root = gen_cls(S, cls, positive=draw(st.booleans()), allow_nested=nested)
    wrap = "none"
    if cls in ("Arrhenius", "Eyring", "EyringHS", "TPoly", "ShiftedTPoly", "RTPoly", "Constant", "TPiecewise") \
            and draw(st.integers(0, 2)) == 0:
        wrap = "ma"
    if cls == "Radiolytic":
        rxn = {"reac": {}, "prod": rxn["prod"], "inact": {}}
    return _finish(draw, S, root, wrap, None, rxn, env)


def _leaf(S, positive, kinds):
    d = S.draw
    k = d(st.integers(0, 9))
    if k <= 2:
        return {"t": "const", "q": q_(d(lin(0.25, 4.0)), S.free_unit())}
    if k == 3:
        return q_(d(lin(0.25, 4.0)), [])
    if k == 4:
        return {"t": "sym", "k": S.new_name(q_(d(lin(0.25, 4.0)), S.free_unit())), "impl": d(st.booleans())}
    cls = d(st.sampled_from(kinds))
    return gen_cls(S, cls, positive=positive, allow_nested=0)


def _lit(S, values):
    """A bare python literal operand; the values are the ones algebraic shortcuts look at (1, 1.0, 0, -1) plus 2."""
    return q_(S.draw(st.sampled_from(values)), [])


LIT_POS = [1, 1.0, 2]
LIT_NONZERO = [1, 1.0, 2, -1]
LIT_ANY = [1, 1.0, 2, 0, -1]


def _ptree(S, dep, kinds):
    """Positive-valued tree: positive leaves combined with + * / ** and exp."""
    d = S.draw
    if dep == 0 or d(st.integers(0, 9)) < 2:
        return _leaf(S, True, kinds)
    k = d(st.integers(0, 10))
    if k == 10:
        # a literal 1 / 1.0 / 2 as the left operand of / * ** or the right operand of * / ** (1/e, e/1, 1*e, e**1 ...)
        form = d(st.sampled_from(["l/", "/r", "*r", "l*", "l^", "^r"]))
        if form == "l/":
            return {"t": "op", "op": "/", "a": _lit(S, LIT_POS), "b": _ptree(S, dep - 1, kinds)}
        if form == "/r":
            return {"t": "op", "op": "/", "a": _ptree(S, dep - 1, kinds), "b": _lit(S, LIT_POS)}
        if form == "*r":
            return {"t": "op", "op": "*", "a": _ptree(S, dep - 1, kinds), "b": _lit(S, LIT_POS)}
        if form == "l*":
            return {"t": "op", "op": "*", "a": _lit(S, LIT_POS), "b": _ptree(S, dep - 1, kinds)}
        if form == "l^":
            return {"t": "op", "op": "^", "a": _lit(S, LIT_POS), "b": _small(S, True)}
        return {"t": "op", "op": "^", "a": _ptree(S, dep - 1, kinds), "b": _lit(S, [1, 1.0, 0, -1, 2])}
    if k <= 1:
        return {"t": "op", "op": "+", "a": _ptree(S, dep - 1, kinds), "b": _ptree(S, dep - 1, kinds)}
    if k <= 3:
        return {"t": "op", "op": "*", "a": _ptree(S, dep - 1, kinds), "b": _ptree(S, dep - 1, kinds)}
    if k <= 5:
        return {"t": "op", "op": "/", "a": _ptree(S, dep - 1, kinds), "b": _ptree(S, dep - 1, kinds)}
    if k <= 7:
        return {"t": "op", "op": "^", "a": _ptree(S, dep - 1, kinds), "b": _exponent(S, True)}
    if k == 8:
        return {"t": "fn", "fn": "exp", "a": _small(S)}
    return {"t": "op", "op": "^", "a": q_(d(st.sampled_from([2, 10, 2.5])), []), "b": _small(S, True)}


def _small(S, exponent=False):
    """A leaf-level expression with value in about [-4, 4] (argument of exp, exponent of a literal base).
    exponent=True: only nodes whose units-mode value carries no unit at all (`**` has no backend hook that could
    simplify a ratio such as mK/K)."""
    d = S.draw
    k = d(st.sampled_from([0, 1, 3]) if exponent else st.integers(0, 3))
    if k == 0:
        return {"t": "const", "q": q_(d(lin(-3, 3)), [])}
    if k == 1:
        return {"t": "sym", "k": S.new_name(q_(d(lin(-3, 3)), [])), "impl": False}
    if k == 2:
        return gen_cls(S, "TPoly", positive=False, uo=[])
    return gen_cls(S, "GibbsEqConst", positive=True)


def _exponent(S, base_positive):
    d = S.draw
    k = d(st.integers(0, 9))
    if not base_positive:
        return q_(d(st.integers(0, 3)), [])
    if k <= 5:
        return q_(d(st.integers(-3, 3)), [])
    if k <= 7:
        return q_(d(st.sampled_from([0.5, 1.5, -0.5, 2.0, -1.0, 1.0])), [])
    if k == 8:
        return {"t": "const", "q": q_(d(lin(-3, 3)), [])}
    return {"t": "sym", "k": S.new_name(q_(d(lin(-3, 3)), [])), "impl": d(st.booleans())}


def _gtree(S, dep, kinds):
    """General tree: subtraction and negation allowed; denominators and bases of negative/real powers are positive."""
    d = S.draw
    if dep == 0 or d(st.integers(0, 9)) < 1:
        if d(st.booleans()):
            return _leaf(S, False, kinds)
        return _leaf(S, True, kinds)
    k = d(st.integers(0, 13))
    if k >= 12:
        # literal operands that hit (or just miss) algebraic shortcuts: 1/e, 0 - e, e - 0, e*1, e*0, e/1, 0 + e ...
        form = d(st.sampled_from(["l/", "l-", "-r", "*r", "l*", "/r", "l+", "+r", "+0"]))
        if form == "l/":
            return {"t": "op", "op": "/", "a": _lit(S, LIT_ANY), "b": _ptree(S, dep - 1, kinds)}
        if form == "l-":
            return {"t": "op", "op": "-", "a": _lit(S, LIT_ANY), "b": _gtree(S, dep - 1, kinds)}
        if form == "-r":
            return {"t": "op", "op": "-", "a": _gtree(S, dep - 1, kinds), "b": _lit(S, LIT_ANY)}
        if form == "*r":
            return {"t": "op", "op": "*", "a": _gtree(S, dep - 1, kinds), "b": _lit(S, LIT_ANY)}
        if form == "l*":
            return {"t": "op", "op": "*", "a": _lit(S, LIT_ANY), "b": _gtree(S, dep - 1, kinds)}
        if form == "/r":
            return {"t": "op", "op": "/", "a": _gtree(S, dep - 1, kinds), "b": _lit(S, LIT_NONZERO)}
        if form == "l+":
            return {"t": "op", "op": "+", "a": _lit(S, LIT_ANY), "b": _gtree(S, dep - 1, kinds)}
        if form == "+r":
            return {"t": "op", "op": "+", "a": _gtree(S, dep - 1, kinds), "b": _lit(S, LIT_ANY)}
        return {"t": "op", "op": "+", "a": _gtree(S, dep - 1, kinds), "b": {"t": "const", "q": q_(0.0, [])}}
    if k <= 1:
        return {"t": "op", "op": "-", "a": _gtree(S, dep - 1, kinds), "b": _gtree(S, dep - 1, kinds)}
    if k == 2:
        return {"t": "op", "op": "+", "a": _gtree(S, dep - 1, kinds), "b": _gtree(S, dep - 1, kinds)}
    if k <= 4:
        return {"t": "op", "op": "*", "a": _gtree(S, dep - 1, kinds), "b": _gtree(S, dep - 1, kinds)}
    if k <= 6:
        return {"t": "op", "op": "/", "a": _gtree(S, dep - 1, kinds), "b": _ptree(S, dep - 1, kinds)}
    if k == 7:
        return {"t": "neg", "a": _gtree(S, dep - 1, kinds)}
    if k == 8:
        return {"t": "op", "op": "^", "a": _gtree(S, dep - 1, kinds), "b": _exponent(S, False)}
    if k == 9:
        return {"t": "fn", "fn": "log10", "a": _ptree(S, min(dep - 1, 1), kinds)}
    return _ptree(S, dep, kinds)


@st.composite
def tree_cases(draw, max_depth=4, keyp=8):
    rxn = gen_rxn(draw)
    S = State(draw, "system", True, keyp, sum(rxn["reac"].values()))
    env = gen_env(S)
    dep = draw(st.integers(1, max_depth))
    root = _gtree(S, dep, LEAF_CLASSES)
    wrap = draw(st.sampled_from(["none", "none", "ma", "ma*x", "x*ma", "ma/x", "x/ma"]))
    b = None
    if wrap == "x/ma":
        root = _ptree(S, min(dep, 2), LEAF_CLASSES)
    if wrap not in ("none", "ma"):
        if draw(st.integers(0, 9)) >= 7:
            # MassAction (UnaryWrapper) multiplied with / divided by a literal: ma/1, 1/ma, ma*1, 0*ma, 2/ma ...
            b = _lit(S, LIT_ANY if wrap in ("ma*x", "x*ma") else LIT_NONZERO)
        else:
            b = _ptree(S, draw(st.integers(0, 2)), LEAF_CLASSES)
    return _finish(draw, S, root, wrap, b, rxn, env)


@st.composite
def override_cases(draw):
    rxn = gen_rxn(draw)
    shape = draw(st.integers(0, 3))
    kinds = [c for c in LEAF_CLASSES if c != "Constant"]
    if shape <= 1:
        S = State(draw, "mixed", draw(st.booleans()), 100, sum(rxn["reac"].values()))
        env = gen_env(S)
        cls = draw(st.sampled_from([c for c in ALL_CLASSES if c != "Constant"]))
        root = gen_cls(S, cls, positive=True, allow_nested=1)
        wrap = "ma" if (cls in ("Arrhenius", "Eyring", "EyringHS") and draw(st.booleans())) else "none"
        if cls == "Radiolytic":
            rxn = {"reac": {}, "prod": rxn["prod"], "inact": {}}
    else:
        S = State(draw, "system", True, 100, sum(rxn["reac"].values()))
        env = gen_env(S)
        a = gen_cls(S, draw(st.sampled_from(kinds)), positive=True)
        b = gen_cls(S, draw(st.sampled_from(kinds)), positive=True)
        op = draw(st.sampled_from(["+", "-", "*", "/"]))
        root = {"t": "op", "op": op, "a": a, "b": b}
        if shape == 3:
            root = {"t": "op", "op": draw(st.sampled_from(["*", "+"])), "a": root,
                    "b": gen_cls(S, draw(st.sampled_from(kinds)), positive=True)}
        wrap = "none"
    return _finish(draw, S, root, wrap, None, rxn, env)


# -- parameter sets (ArrheniusParam / EyringParam) ---------------------------------------------------------------

@st.composite
def param_cases(draw):
    kind = draw(st.sampled_from(["arrhenius", "eyring"]))
    rxn = gen_rxn(draw)
    order = sum(rxn["reac"].values())
    S = State(draw, "mixed", False, 0, order)
    ku = S.rate_unit() if kind == "arrhenius" else [["s", -1]]
    case = {"kind": kind, "rxn": rxn,
            "T": q_(draw(lin(200, 2000)), S.unit("temp")),
            "T2": q_(draw(lin(200, 2000)), S.unit("temp")),
            "conc": {k: q_(draw(logu(1e-4, 1e2)), S.unit("conc")) for k in sorted(set(rxn["reac"]) | set(rxn["prod"]))}}
    if kind == "arrhenius":
        case["A"] = q_(draw(logu(1e-5, 1e15)), ku)
        case["Ea"] = q_(draw(lin(0, 300e3)), S.unit("emol"))
        case["k"] = q_(draw(logu(1e-10, 1e10)), ku)
    else:
        case["dH"] = q_(draw(lin(0, 300e3)), S.unit("emol"))
        case["dS"] = q_(draw(lin(-300, 300)), umul(S.unit("emol"), upow(S.unit("temp"), -1)))
    case["keys"] = draw(st.sampled_from([None, None, ["ka"], ["ka", "kb"]]))
    case["over"] = {}
    if case["keys"]:
        for i, k in enumerate(case["keys"]):
            if draw(st.booleans()):
                case["over"][k] = draw(lin(0.5, 2.0))     # factor applied to the original argument
    return case

# -*- coding: utf-8 -*-
"""C02 helpers: generators of balancing problems and an independent exact reference.

A *case* is JSON:
    {"kind": "synthetic"|"textbook", "plan": ..., "species": {name: {"Z": int | "p/q"}}, "reac": [names],
     "prod": [names], "container": "list"|"set", "substances": "dict"|"none"|"string"}
Composition key "0" is the signed charge.  Everything the oracle needs is in the case; nothing here imports chempy.

Reference (elementary, exact):
  * signed composition matrix A (rows = composition keys, columns = species, reactant columns negated), Fractions;
  * reduced row echelon form -> rank, nullity, integer null-space basis;
  * nullity 1: the coprime integer ray; positive ray <=> feasible, and the ray is the unique minimal solution;
  * nullity >= 2: feasibility is decided only with an exact certificate: a positive integer witness x (A x = 0, found
    by a bounded enumeration of the free columns or by rationalising an LP vertex, verified with Fractions), or a
    Stiemke certificate y (A^T y >= 0, != 0, verified with Fractions) which excludes any positive solution;
    neither -> undetermined (the clause is skipped);
  * minimal coefficient sum: complete enumeration of the free columns below the claimed sum.
"""
from fractions import Fraction
from functools import reduce
from math import gcd

from hypothesis import strategies as st

from .refdata import Z_OF


# ---------------------------------------------------------------------------
# exact linear algebra
# ---------------------------------------------------------------------------

def frac(x):
    if isinstance(x, str):
        p, q = x.split("/")
        return Fraction(int(p), int(q))
    if isinstance(x, bool) or not isinstance(x, int):
        raise TypeError("composition values are ints or 'p/q' strings: %r" % (x,))
    return Fraction(x)


def enc(fr):
    fr = Fraction(fr)
    return int(fr) if fr.denominator == 1 else "%d/%d" % (fr.numerator, fr.denominator)


def rref(rows, ncols):
    """Reduced row echelon form over Fractions.  Returns (R, pivot_columns)."""
    R = [list(r) for r in rows]
    piv = []
    r = 0
    for c in range(ncols):
        p = None
        for i in range(r, len(R)):
            if R[i][c] != 0:
                p = i
                break
        if p is None:
            continue
        R[r], R[p] = R[p], R[r]
        pv = R[r][c]
        R[r] = [v / pv for v in R[r]]
        for i in range(len(R)):
            if i != r and R[i][c] != 0:
                f = R[i][c]
                R[i] = [a - f * b for a, b in zip(R[i], R[r])]
        piv.append(c)
        r += 1
        if r == len(R):
            break
    return R[:r], piv


def to_coprime_ints(v):
    den = reduce(lambda a, b: a * b // gcd(a, b), [Fraction(x).denominator for x in v], 1)
    iv = [int(Fraction(x) * den) for x in v]
    g = reduce(gcd, [abs(x) for x in iv], 0)
    return [x // g for x in iv] if g else iv


def null_basis(rows, ncols):
    """Integer basis of {x : rows . x = 0}: one vector per free column (free column = 1 before scaling)."""
    R, piv = rref(rows, ncols)
    free = [c for c in range(ncols) if c not in piv]
    basis = []
    for f in free:
        v = [Fraction(0)] * ncols
        v[f] = Fraction(1)
        for r_i, pc in enumerate(piv):
            v[pc] = -R[r_i][f]
        basis.append(to_coprime_ints(v))
    return basis, R, piv, free


def matrix(case, reac=None, prod=None):
    """(keys, names, A) with A[row][col] Fractions; reactant columns negated.  A species on both sides (duplicates
    sub-check) is not allowed here - callers pass an explicit placement."""
    reac = list(case["reac"] if reac is None else reac)
    prod = list(case["prod"] if prod is None else prod)
    names = reac + prod
    keys = sorted({int(k) for n in names for k in case["species"][n]})
    A = []
    for k in keys:
        row = []
        for n in names:
            v = frac(case["species"][n].get(str(k), 0))
            row.append(-v if n in reac else v)
        A.append(row)
    return keys, names, A


def _is_solution(A, x):
    return all(sum(a * b for a, b in zip(row, x)) == 0 for row in A)


def _enumerate_free(A, R, piv, free, n, lo_hi, sum_below=None, budget=3000000):
    """All positive integer solutions with free columns in [1, hi]; yields the one of smallest sum, or None.
    Returns (best, complete) where complete says the whole box was enumerated."""
    import numpy as np
    d = len(free)
    hi = lo_hi
    if hi < 1:
        return None, True
    if d == 0:
        return None, True
    if float(hi) ** d > budget:
        return None, False
    # integer form of the dependent rows: x_p = -(sum_f Rn[p][f] x_f) / L_p
    Ls, Rn = [], []
    for r_i in range(len(piv)):
        L = reduce(lambda a, b: a * b // gcd(a, b), [R[r_i][f].denominator for f in free], 1)
        Ls.append(L)
        Rn.append([int(R[r_i][f] * L) for f in free])
    best = None
    outer = range(1, hi + 1) if d > 1 else [None]
    for x0 in outer:
        if d > 1:
            grids = np.meshgrid(*[np.arange(1, hi + 1, dtype=np.int64)] * (d - 1), indexing="ij")
            cols = [np.full(grids[0].size, x0, dtype=np.int64)] + [g.ravel() for g in grids]
        else:
            cols = [np.arange(1, hi + 1, dtype=np.int64)]
        ok = np.ones(cols[0].size, dtype=bool)
        total = sum(cols)
        deps = []
        for L, rn in zip(Ls, Rn):
            s = -sum(c * int(k) for c, k in zip(cols, rn))
            ok &= (s % L == 0)
            v = s // L
            ok &= (v >= 1)
            deps.append(v)
            total = total + v
        if sum_below is not None:
            ok &= (total < sum_below)
        idx = np.nonzero(ok)[0]
        if idx.size:
            j = idx[np.argmin(total[idx])]
            x = [0] * n
            for f, c in zip(free, cols):
                x[f] = int(c[j])
            for pc, v in zip(piv, deps):
                x[pc] = int(v[j])
            if best is None or sum(x) < sum(best):
                best = x
    if best is not None and not (_is_solution(A, best) and all(v >= 1 for v in best)):
        raise AssertionError("internal: enumeration produced a non-solution %r" % (best,))
    return best, True


def _lp_witness(A, n):
    """Positive integer solution from an LP vertex (verified exactly), or None."""
    import numpy as np
    from scipy.optimize import linprog
    if not A:
        return [1] * n
    res = linprog(np.ones(n), A_eq=np.array([[float(v) for v in row] for row in A]), b_eq=np.zeros(len(A)),
                  bounds=[(1, None)] * n, method="highs")
    if res.status != 0:
        return None
    for lim in (60, 2000):
        xs = [Fraction(float(v)).limit_denominator(lim) for v in res.x]
        if all(v >= 1 for v in xs) and _is_solution(A, xs):
            den = reduce(lambda a, b: a * b // gcd(a, b), [v.denominator for v in xs], 1)
            return [int(v * den) for v in xs]
    return None


def _stiemke_certificate(A, n):
    """y with A^T y >= 0 and != 0 (verified exactly): then no x > 0 has A x = 0.  None if none was found."""
    import numpy as np
    from scipy.optimize import linprog
    m = len(A)
    if m == 0:
        return None
    At = np.array([[float(A[r][c]) for r in range(m)] for c in range(n)])
    # maximise sum(A^T y) subject to 0 <= A^T y <= 1
    res = linprog(-At.sum(axis=0), A_ub=np.vstack([At, -At]), b_ub=np.concatenate([np.ones(n), np.zeros(n)]),
                  bounds=[(None, None)] * m, method="highs")
    if res.status != 0 or -res.fun < 1e-7:
        return None
    for lim in (60, 2000, 10 ** 5):
        y = [Fraction(float(v)).limit_denominator(lim) for v in res.x]
        s = [sum(A[r][c] * y[r] for r in range(m)) for c in range(n)]
        if all(v >= 0 for v in s) and any(v > 0 for v in s):
            return y
    return None


def analyse(case, reac=None, prod=None):
    """Exact classification of one placed balancing problem."""
    keys, names, A = matrix(case, reac, prod)
    n = len(names)
    basis, R, piv, free = null_basis(A, n)
    d = len(basis)
    out = {"keys": keys, "names": names, "A": A, "n": n, "rank": len(piv), "nullity": d, "basis": basis,
           "R": R, "piv": piv, "free": free, "ray": None, "feasible": None, "witness": None, "certificate": None}
    if d == 0:
        out["feasible"] = False
    elif d == 1:
        ray = basis[0]
        if all(v < 0 for v in ray):
            ray = [-v for v in ray]
        out["ray"] = ray
        out["feasible"] = all(v > 0 for v in ray)
        if out["feasible"]:
            out["witness"] = ray
    else:
        hi = {2: 150, 3: 40, 4: 16, 5: 8}.get(d, 5 if d == 6 else 3)
        w, _ = _enumerate_free(A, R, piv, free, n, hi, budget=400000)
        if w is None:
            w = _lp_witness(A, n)
        if w is not None:
            out["feasible"] = True
            out["witness"] = w
        else:
            y = _stiemke_certificate(A, n)
            if y is not None:
                out["feasible"] = False
                out["certificate"] = [enc(v) for v in y]
    return out


def smaller_sum_solution(an, total, budget=3000000):
    """A positive integer solution with coefficient sum < total, or None; second value False if not enumerable."""
    n = an["n"]
    hi = total - n          # sum <= total-1 and the other n-1 entries >= 1
    if an["nullity"] == 0:
        return None, True
    return _enumerate_free(an["A"], an["R"], an["piv"], an["free"], n, hi, sum_below=total, budget=budget)


# ---------------------------------------------------------------------------
# formulas of the textbook pool: a tiny own parser (symbols, counts, parentheses, trailing charge)
# ---------------------------------------------------------------------------

def simple_formula_composition(txt):
    """Composition {Z: count, 0: charge} of formulas of the restricted shape used in TEXTBOOK:
    (Element[count] | '(' ... ')'[count])+ ['+'|'-' [n]];  'e-' is the electron; count = digits['.'digits]."""
    if txt == "e-":
        return {0: -1}
    body, charge = txt, 0
    for sign in "+-":
        if sign in txt:
            body, tail = txt.split(sign)
            charge = (1 if sign == "+" else -1) * (int(tail) if tail else 1)
    pos = [0]

    def group(closing):
        comp = {}
        while pos[0] < len(body):
            ch = body[pos[0]]
            if ch == "(":
                pos[0] += 1
                inner = group(True)
            elif ch == ")":
                if not closing:
                    raise ValueError(txt)
                pos[0] += 1
                return comp
            elif ch.isupper():
                j = pos[0] + 1
                while j < len(body) and body[j].islower():
                    j += 1
                inner = {Z_OF[body[pos[0]:j]]: 1}
                pos[0] = j
            else:
                raise ValueError(txt)
            j = pos[0]
            while j < len(body) and body[j].isdigit():
                j += 1
            if j > pos[0] and j + 1 < len(body) and body[j] == "." and body[j + 1].isdigit():
                j += 1                                  # decimal subscript ('Fe0.95O'): exact Fraction of the text
                while j < len(body) and body[j].isdigit():
                    j += 1
            mult = Fraction(body[pos[0]:j]) if j > pos[0] else 1
            pos[0] = j
            for k, v in inner.items():
                comp[k] = comp.get(k, 0) + v * mult
        if closing:
            raise ValueError(txt)
        return comp

    comp = group(False)
    if charge:
        comp[0] = charge
    return comp


TEXTBOOK = [
    ("H2 O2", "H2O"),
    ("C CO", "CO2"),                                     # D1: needs a negative coefficient
    ("C2H2 O2", "CO H2O"),
    ("NH4ClO4 Al", "Al2O3 HCl H2O N2"),
    ("C2H6 O2", "H2O CO2"),
    ("C7H5(NO2)3 NH4NO3", "CO H2O N2"),
    ("CuSCN KIO3 HCl", "CuSO4 KCl HCN ICl H2O"),
    ("Zn+2 e-", "Zn"),
    ("Na2CO3", "Na2O CO2"),
    ("Fe O2", "FeO Fe2O3"),                              # nullity 2
    ("C O2", "CO CO2"),                                  # nullity 2
    ("C2H6 O2", "H2O CO2 CO"),                           # nullity 2
    ("MnO4- H+ Fe+2", "Mn+2 Fe+3 H2O"),
    ("Cr2O7-2 H+ e-", "Cr+3 H2O"),
    ("KMnO4 HCl", "KCl MnCl2 H2O Cl2"),
    ("Al HCl", "AlCl3 H2"),
    ("Ca(OH)2 H3PO4", "Ca3(PO4)2 H2O"),
    ("C6H12O6 O2", "CO2 H2O"),
    ("Fe2O3 CO", "Fe CO2"),
    ("NH3 O2", "NO H2O"),
    ("Cu HNO3", "Cu(NO3)2 NO H2O"),
    ("P4O10 H2O", "H3PO4"),
    ("CH4 O2", "CO2 H2O"),
    ("N2 H2", "NH3"),
    ("KClO3", "KCl O2"),
    ("H2O2", "H2O O2"),
    ("Ag+ Cl-", "AgCl"),
    ("Fe+3 SCN-", "FeSCN+2"),
    ("H+ OH-", "H2O"),
    ("CO2 H2O", "C6H12O6 O2"),
    ("S8 O2", "SO3"),
    ("Na H2O", "NaOH H2"),
    ("Al2(SO4)3 Ca(OH)2", "Al(OH)3 CaSO4"),
    ("C3H8 O2", "CO2 H2O"),
    ("MnO2 HCl", "MnCl2 Cl2 H2O"),
    ("Zn MnO2 H2O", "Zn(OH)2 Mn2O3"),
    ("Pb PbO2 H2SO4", "PbSO4 H2O"),
    ("I- IO3- H+", "I2 H2O"),
    ("S2O3-2 I2", "S4O6-2 I-"),
    ("H2O2 MnO4- H+", "Mn+2 O2 H2O"),                   # nullity 2
    ("CO", "CO2"),                                       # nullity 0
    ("C3H4O3 H3PO4", "C3H6O3"),                          # superfluous species
    ("C3H5NO CH4 NH3 H2O", "C2H6 CH4O CH5N CH3N"),       # nullity 3
    ("O2 O3 C NO N2O NO2 N2O4", "CO CO2 N2"),            # nullity 7
    ("O2 Fe Al Cr", "FeO Fe2O3 Fe3O4 Al2O3 Cr2O3 CrO3"),  # nullity 6
    ("C7H5O3- O2 C21H27N7O14P2-2 H+", "C7H5O4- C21H26N7O14P2- H2O"),
]
POOL = sorted({s for r, p in TEXTBOOK for s in (r + " " + p).split()})


def _comp_json(comp):
    return {str(k): enc(v) for k, v in sorted(comp.items()) if v != 0}


# ---------------------------------------------------------------------------
# strategies
# ---------------------------------------------------------------------------

_ZKEYS = [1, 6, 8, 17]
_CHARGES = [0, 0, 0, 1, -1, 2, -2, 3]
_PLANS = ["planted"] * 12 + ["wrong_side"] * 5 + ["free"] * 3


def _finalize_synthetic(raw):
    comps = raw["comps"]                    # list of {Z: Fraction}
    n = len(comps)
    keys = sorted({k for c in comps for k in c})
    M = [[c.get(k, Fraction(0)) for c in comps] for k in keys]
    basis, _, _, _ = null_basis(M, n)
    plan = raw["plan"]
    side = list(raw["bits"])                # True = product
    v = None
    if plan != "free" and basis:
        w = list(raw["weights"][:len(basis)])
        if not any(w):
            w[0] = 1
        v = [sum(wj * b[i] for wj, b in zip(w, basis)) for i in range(n)]
        if not any(v):
            v = list(basis[0])
        for i in range(n):
            if v[i] > 0:
                side[i] = True
            elif v[i] < 0:
                side[i] = False
        if plan == "wrong_side":
            cand = [i for i in range(n) if v[i] != 0]
            i = cand[raw["flip"] % len(cand)]
            side[i] = not side[i]
            if all(side) or not any(side):
                side[i] = not side[i]
                plan = "planted"
    else:
        plan = "free"
    if raw.get("prune_zero") and plan == "planted" and sum(1 for c in v if c) >= 2 and 0 in v:
        # leave out the species the planted vector does not use (they would be superfluous)
        keep = [i for i in range(n) if v[i]]
        comps, side, v = [comps[i] for i in keep], [side[i] for i in keep], [v[i] for i in keep]
        perm = [raw["perm"][i] for i in keep]
        raw = dict(raw, perm=perm, names=[raw["names"][i] for i in keep] if raw.get("names") else None)
        n = len(keep)
    if all(side):
        side[-1] = False
    elif not any(side):
        side[-1] = True
    names = raw.get("names") or ["S%d" % p for p in raw["perm"]]
    case = {
        "kind": raw.get("kind", "synthetic"), "plan": plan,
        "species": {names[i]: _comp_json(comps[i]) for i in range(n)},
        "reac": [names[i] for i in range(n) if not side[i]],
        "prod": [names[i] for i in range(n) if side[i]],
        "container": raw["container"], "substances": raw.get("substances", "dict"),
    }
    if any(v.denominator != 1 for c in comps for v in c.values()):
        case["decimal"] = True      # some composition entry is passed to chempy as a float
    return case


@st.composite
def _raw_synthetic(draw, max_species=6, max_keys=4, decimals=True):
    nk = draw(st.integers(1, max_keys))
    keys = _ZKEYS[:nk] if nk <= len(_ZKEYS) else _ZKEYS + list(range(20, 20 + nk - len(_ZKEYS)))
    charged = draw(st.booleans())
    # most problems get rank+1 species (single ray); fewer get more (nullity 2-4) or fewer (nullity 0)
    delta = draw(st.sampled_from([1, 1, 1, 2, 1, 0, 3, 2]))
    n = max(2, min(max_species, nk + (1 if charged else 0) + delta))
    comps = []
    for i in range(n):
        kind = "fresh" if i == 0 else draw(st.sampled_from(["fresh", "fresh", "fresh", "combo", "fresh", "scaled",
                                                            "fresh", "isomer"]))
        if kind == "fresh":
            vals = draw(st.lists(st.integers(0, 4), min_size=nk, max_size=nk))
            comp = {k: Fraction(v) for k, v in zip(keys, vals) if v}
            if charged:
                q = draw(st.sampled_from(_CHARGES))
                if q:
                    comp[0] = Fraction(q)
            if not comp:
                comp = {keys[0]: Fraction(1)}
        elif kind == "combo":
            a = comps[draw(st.integers(0, i - 1))]
            b = comps[draw(st.integers(0, i - 1))]
            ca, cb = draw(st.integers(1, 3)), draw(st.integers(1, 3))
            comp = {}
            for k in set(a) | set(b):
                val = ca * a.get(k, 0) + cb * b.get(k, 0)
                if val:
                    comp[k] = Fraction(val)
            if not comp:        # charges cancelled and nothing else: keep a species with some content
                comp = dict(a)
        elif kind == "scaled":
            a = comps[draw(st.integers(0, i - 1))]
            m = draw(st.integers(2, 4))
            comp = {k: v * m for k, v in a.items()}
        else:
            comp = dict(comps[draw(st.integers(0, i - 1))])
        comps.append(comp)
    if decimals and draw(st.integers(0, 7)) == 7:
        j = draw(st.integers(0, n - 1))
        k = keys[draw(st.integers(0, nk - 1))]
        comps[j] = dict(comps[j])
        comps[j][k] = Fraction(draw(st.integers(1, 49)), draw(st.sampled_from([10, 2, 4, 5])))
    return {
        "comps": comps,
        "plan": draw(st.sampled_from(_PLANS)),
        "weights": draw(st.lists(st.sampled_from([1, -1, 2, -2, 0, 3, -3]), min_size=6, max_size=6)),
        "bits": draw(st.lists(st.booleans(), min_size=n, max_size=n)),
        "flip": draw(st.integers(0, 11)),
        "perm": draw(st.permutations(list(range(n)))),
        "container": draw(st.sampled_from(["list", "set"])),
    }


def synthetic_cases(max_species=6, max_keys=4):
    return _raw_synthetic(max_species=max_species, max_keys=max_keys).map(_finalize_synthetic)


@st.composite
def textbook_cases(draw):
    reac, prod = TEXTBOOK[draw(st.integers(0, len(TEXTBOOK) - 1))]
    reac, prod = reac.split(), prod.split()
    tweak = draw(st.sampled_from(["none", "none", "none", "reverse", "move", "drop", "extra"]))
    if tweak == "reverse":
        reac, prod = prod, reac
    elif tweak == "move" and len(reac) + len(prod) >= 3:
        i = draw(st.integers(0, len(reac) + len(prod) - 1))
        if i < len(reac) and len(reac) > 1:
            prod = prod + [reac[i]]
            reac = reac[:i] + reac[i + 1:]
        elif i >= len(reac) and len(prod) > 1:
            j = i - len(reac)
            reac = reac + [prod[j]]
            prod = prod[:j] + prod[j + 1:]
        else:
            tweak = "none"
    elif tweak == "drop" and len(reac) + len(prod) >= 3:
        i = draw(st.integers(0, len(reac) + len(prod) - 1))
        if i < len(reac) and len(reac) > 1:
            reac = reac[:i] + reac[i + 1:]
        elif i >= len(reac) and len(prod) > 1:
            j = i - len(reac)
            prod = prod[:j] + prod[j + 1:]
        else:
            tweak = "none"
    elif tweak == "extra":
        s = POOL[draw(st.integers(0, len(POOL) - 1))]
        if s in reac or s in prod:
            tweak = "none"
        elif draw(st.booleans()):
            prod = prod + [s]
        else:
            reac = reac + [s]
    else:
        tweak = "none"
    return {
        "kind": "textbook", "plan": tweak,
        "species": {s: _comp_json(simple_formula_composition(s)) for s in reac + prod},
        "reac": reac, "prod": prod,
        "container": draw(st.sampled_from(["list", "set"])),
        "substances": draw(st.sampled_from(["none", "dict", "string"])),
    }


@st.composite
def duplicate_cases(draw):
    """A planted / textbook problem with 1-2 species additionally listed on the other side."""
    base = draw(st.one_of(_raw_synthetic(max_species=5, max_keys=3, decimals=False).map(
        lambda raw: _finalize_synthetic(dict(raw, plan="planted" if raw["plan"] != "free" else "free"))),
        textbook_cases()))
    names = base["reac"] + base["prod"]
    idx = draw(st.lists(st.integers(0, len(names) - 1), min_size=1, max_size=2, unique=True))
    reac, prod = list(base["reac"]), list(base["prod"])
    for i in idx:
        if names[i] in base["reac"]:
            prod.append(names[i])
        else:
            reac.append(names[i])
    out = dict(base)
    out["reac"], out["prod"] = reac, prod
    out["dups"] = sorted(names[i] for i in idx)
    if out["substances"] == "string":
        out["substances"] = "dict"
    return out


# ---------------------------------------------------------------------------
# 'large': 7-16 species, nullity 1-3 by construction
# ---------------------------------------------------------------------------
# A positive integer vector x and a placement are drawn first.  The species are joined by a spanning forest of d trees
# (every tree has species on both sides; every edge joins a reactant i and a product j and is one composition key
# that occurs in just these two species, with counts t*x_j/g and t*x_i/g, so the key balances exactly for x).  The
# n-d edge rows are independent, hence the solution space is d-dimensional and contains x > 0.  Row operations that
# do not change the solution space then make it look like chemistry: a key is added to another one (an atom that
# always comes with another atom), redundant keys are appended, one key is turned into a signed charge row.

_XS = [1, 1, 2, 1, 3, 2, 4, 6, 5]
_LARGE_PLANS = ["planted"] * 7 + ["wrong_side"] * 2 + ["drop"]


@st.composite
def _raw_large(draw, min_species=7, max_species=16):
    n = draw(st.integers(min_species, max_species))
    d = draw(st.sampled_from([1, 1, 1, 2, 1, 3, 2, 1]))
    nrows = n - d
    small = st.sampled_from([1, 1, 2])
    return {
        "n": n, "d": d,
        "x": draw(st.lists(st.sampled_from(_XS), min_size=n, max_size=n)),
        "side": draw(st.lists(st.booleans(), min_size=n, max_size=n)),
        "comp": draw(st.lists(st.integers(0, d - 1), min_size=n, max_size=n)),
        "attach": draw(st.lists(st.integers(0, 15), min_size=n, max_size=n)),
        "t": draw(st.lists(small, min_size=n, max_size=n)),
        "mix": draw(st.lists(st.tuples(st.integers(0, nrows - 1), st.integers(0, nrows - 1), small), max_size=n)),
        "extra": draw(st.lists(st.tuples(st.integers(0, nrows - 1), st.integers(0, nrows - 1), small, small),
                               max_size=2)),
        "charge": draw(st.sampled_from(["none", "none", "replace", "extra"])),
        "charge_op": draw(st.tuples(st.integers(0, nrows - 1), st.integers(0, nrows - 1), small, small)),
        "plan": draw(st.sampled_from(_LARGE_PLANS)),
        "flip": draw(st.integers(0, n - 1)),
        "perm": draw(st.permutations(list(range(n)))),
        "container": draw(st.sampled_from(["list", "set"])),
    }


def _finalize_large(raw):
    n, d, x = raw["n"], raw["d"], raw["x"]
    side, comp = list(raw["side"]), list(raw["comp"])       # side True = product
    rows = []
    for i in range(n):
        if i < 2 * d:                                        # the first reactant / product of every tree
            side[i], comp[i] = bool(i % 2), i // 2
            if i % 2 == 0:
                continue
            j = i - 1
        else:
            cand = [j for j in range(i) if comp[j] == comp[i] and side[j] != side[i]]
            j = cand[raw["attach"][i] % len(cand)]
        g = gcd(x[i], x[j])
        rows.append({i: raw["t"][i] * x[j] // g, j: raw["t"][i] * x[i] // g})

    def lin(ca, a, cb, b):
        out = {}
        for k in set(rows[a]) | set(rows[b]):
            v = ca * rows[a].get(k, 0) + cb * rows[b].get(k, 0)
            if v:
                out[k] = v
        return out

    for a, b, c in raw["mix"]:
        if a != b:
            new = lin(1, a, c, b)
            if max(new.values()) <= 40:
                rows[a] = new
    keys = list(range(1, len(rows) + 1))
    for a, b, c1, c2 in raw["extra"]:
        new = lin(c1, a, c2, b) if a != b else lin(c1 + 1, a, 0, b)
        if max(new.values()) <= 60:
            rows.append(new)
            keys.append(len(rows))
    a, b, c1, c2 = raw["charge_op"]
    charge = raw["charge"] if a != b else "none"
    if charge != "none":
        new = lin(c1, a, -c2, b)
        if not new:
            charge = "none"
        elif charge == "replace":
            kept = [r for i_, r in enumerate(rows) if i_ != a]
            if all(any(i in r for r in kept) for i in range(n)):    # every species keeps some element
                rows[a] = new
                keys[a] = 0
            else:
                charge = "extra"
        if charge == "extra":
            rows.append(new)
            keys.append(0)
    plan = raw["plan"]
    idx = list(range(n))
    f = raw["flip"]
    if plan == "wrong_side":
        side[f] = not side[f]
        if all(side) or not any(side):
            side[f] = not side[f]
            plan = "planted"
    elif plan == "drop":
        rest = [side[i] for i in idx if i != f]
        if all(rest) or not any(rest):
            plan = "planted"
        else:
            idx.remove(f)
    names = {i: "S%d" % p for i, p in zip(range(n), raw["perm"])}
    order = sorted(idx, key=lambda i: raw["perm"][i])
    return {
        "kind": "large", "plan": plan,
        "species": {names[i]: {str(k): r[i] for k, r in sorted(zip(keys, rows)) if i in r} for i in order},
        "reac": [names[i] for i in order if not side[i]],
        "prod": [names[i] for i in order if side[i]],
        "container": raw["container"], "substances": "dict",
    }


_UNION_POOL = []


def _union_pool():
    """Textbook reactions with a positive single ray (the building blocks of an overall equation)."""
    if not _UNION_POOL:
        for i, (r, p) in enumerate(TEXTBOOK):
            r, p = r.split(), p.split()
            an = analyse({"species": {s: _comp_json(simple_formula_composition(s)) for s in r + p},
                          "reac": r, "prod": p})
            if an["nullity"] == 1 and an["feasible"]:
                _UNION_POOL.append(i)
    return _UNION_POOL


@st.composite
def textbook_union_cases(draw, min_species=7, max_species=16):
    """Two to five species-disjoint textbook processes written as one overall equation (as formulas)."""
    pool = _union_pool()
    start = draw(st.lists(st.integers(0, len(pool) - 1), min_size=2, max_size=5, unique=True))
    reac, prod = [], []
    # the drawn reactions first; then, if still fewer than min_species, the following ones of the pool
    for k in start + [(start[-1] + 1 + j) % len(pool) for j in range(len(pool))]:
        r, p = TEXTBOOK[pool[k]]
        r, p = r.split(), p.split()
        if (set(r) | set(p)) & (set(reac) | set(prod)) or len(reac) + len(prod) + len(r) + len(p) > max_species:
            continue
        if draw(st.booleans()):
            r, p = p, r
        reac, prod = reac + r, prod + p
        if len(reac) + len(prod) >= min_species and k not in start[:2]:
            break
    tweak = draw(st.sampled_from(["none", "none", "none", "none", "move", "none"]))
    if tweak == "move":
        i = draw(st.integers(0, len(reac) + len(prod) - 1))
        if i < len(reac) and len(reac) > 1:
            prod = prod + [reac[i]]
            reac = reac[:i] + reac[i + 1:]
        elif i >= len(reac) and len(prod) > 1:
            j = i - len(reac)
            reac = reac + [prod[j]]
            prod = prod[:j] + prod[j + 1:]
        else:
            tweak = "none"
    order = draw(st.permutations(list(range(len(reac) + len(prod)))))
    rank = {s: order[i] for i, s in enumerate(reac + prod)}
    reac, prod = sorted(reac, key=rank.get), sorted(prod, key=rank.get)
    return {
        "kind": "textbook_union", "plan": tweak,
        "species": {s: _comp_json(simple_formula_composition(s)) for s in reac + prod},
        "reac": reac, "prod": prod,
        "container": draw(st.sampled_from(["list", "set"])),
        "substances": draw(st.sampled_from(["none", "dict", "string"])),
    }


def large_cases():
    return st.integers(0, 3).flatmap(lambda k: textbook_union_cases() if k == 3 else
                                     _raw_large().map(_finalize_large))


# ---------------------------------------------------------------------------
# 'fractional': formula-like species with one or two decimal subscripts (non-stoichiometric compounds)
# ---------------------------------------------------------------------------

_NS_ELEMENTS = ["H", "Fe", "Co", "La", "Sr", "U", "Ce", "Gd", "Ti", "Ni", "Li", "Na", "W", "Zr", "Y", "C", "Mn", "Cu",
                "Ba", "S"]
_NS_FRACTIONS = ([Fraction(k, 10) for k in (5, 1, 9, 2, 8, 3, 7, 4, 6)] +            # tenths
                 [Fraction(k, 20) for k in (19, 1, 17, 3, 15, 5, 13, 7, 11, 9)] +     # steps of 0.05
                 [Fraction(k, 4) for k in (1, 3)])                                    # quarters


def decimal_text(fr):
    """'0.95' for 19/20 (denominators dividing 1000), '3' for 3."""
    fr = Fraction(fr)
    if fr.denominator == 1:
        return str(fr.numerator)
    q = fr * 1000
    if q.denominator != 1:
        raise ValueError(fr)
    return ("%d.%03d" % divmod(int(q), 1000)).rstrip("0")


def formula_text(comp, order):
    return "".join(e + ("" if comp[e] == 1 else decimal_text(comp[e])) for e in order if comp.get(e))


@st.composite
def _raw_fractional(draw):
    others = draw(st.lists(st.sampled_from(_NS_ELEMENTS), min_size=1, max_size=3, unique=True))
    elems = others + ["O"]                                   # formula order: cations first, oxygen last
    nk = len(elems)
    delta = draw(st.sampled_from([1, 1, 1, 2, 1, 0]))
    n = max(2, min(7, nk + delta))
    comps = []
    for i in range(n):
        kind = draw(st.sampled_from(["fresh", "element", "fresh", "oxide", "fresh", "combo"]))
        if kind == "element" or (kind == "combo" and i < 2):
            comp = {elems[draw(st.integers(0, nk - 1))]: Fraction(draw(st.sampled_from([1, 2, 1, 4])))}
        elif kind == "oxide":
            comp = {elems[draw(st.integers(0, nk - 2))]: Fraction(draw(st.integers(1, 3))),
                    "O": Fraction(draw(st.integers(1, 5)))}
        elif kind == "fresh":
            vals = draw(st.lists(st.integers(0, 3), min_size=nk, max_size=nk))
            comp = {e: Fraction(v) for e, v in zip(elems, vals) if v}
            if not comp:
                comp = {"O": Fraction(2)}
        else:
            a, b = comps[draw(st.integers(0, i - 1))], comps[draw(st.integers(0, i - 1))]
            ca, cb = draw(st.integers(1, 2)), draw(st.integers(1, 2))
            comp = {e: ca * a.get(e, 0) + cb * b.get(e, 0) for e in elems if ca * a.get(e, 0) + cb * b.get(e, 0)}
        comps.append(comp)
    # one or two species get one or two decimal subscripts
    for _ in range(draw(st.sampled_from([1, 1, 2]))):
        j = draw(st.integers(0, n - 1))
        comp = dict(comps[j])
        style = draw(st.sampled_from(["one", "complement", "one", "two"]))
        e1 = elems[draw(st.integers(0, nk - 1))]
        f1 = draw(st.sampled_from(_NS_FRACTIONS))
        whole = draw(st.sampled_from([0, 0, 1, 2, 0]))
        comp[e1] = whole + f1
        if style != "one" and nk >= 2:
            e2 = elems[(elems.index(e1) + 1 + draw(st.integers(0, nk - 2))) % nk]
            if style == "complement":                        # A(x) B(1-x): substitution on one lattice site
                comp[e1] = f1
                comp[e2] = 1 - f1
            else:
                comp[e2] = draw(st.sampled_from([0, 1, 0, 2])) + draw(st.sampled_from(_NS_FRACTIONS))
        comps[j] = comp
    return {
        "elems": elems, "comps": comps,
        "via": draw(st.sampled_from(["dict", "formula", "formula_string", "formula_dict"])),
        "prune_zero": draw(st.sampled_from([True, True, False, True])),
        "plan": draw(st.sampled_from(["planted"] * 8 + ["wrong_side", "free"])),
        "weights": draw(st.lists(st.sampled_from([1, -1, 2, -2, 0, 3, -3]), min_size=6, max_size=6)),
        "bits": draw(st.lists(st.booleans(), min_size=n, max_size=n)),
        "flip": draw(st.integers(0, 11)),
        "perm": draw(st.permutations(list(range(n)))),
        "container": draw(st.sampled_from(["list", "set"])),
    }


def _finalize_fractional(raw):
    elems = raw["elems"]
    comps, texts = [], []
    for comp in raw["comps"]:
        txt = formula_text(comp, elems)
        if raw["via"] == "dict" or txt not in texts:       # formulas name the species: no duplicates
            comps.append(comp)
            texts.append(txt)
    if len(comps) < 2:
        comps.append({"O": Fraction(2)} if texts[0] != "O2" else {"O": Fraction(3)})
        texts.append(formula_text(comps[-1], elems))
    n = len(comps)
    sub = dict(raw, kind="fractional", comps=[{Z_OF[e]: v for e, v in c.items()} for c in comps],
               bits=raw["bits"][:n], perm=[p for p in raw["perm"] if p < n],
               substances={"dict": "dict", "formula": "none", "formula_string": "string",
                           "formula_dict": "dict"}[raw["via"]])
    if raw["via"] != "dict":
        sub["names"] = texts
    case = _finalize_synthetic(sub)
    case["via"] = raw["via"]
    if raw["via"] == "dict":                               # for the reader of a counterexample only
        case["formulas"] = {nm: txt for nm, txt in zip(["S%d" % p for p in sub["perm"]], texts)
                            if nm in case["species"]}
    return case


def fractional_cases():
    return _raw_fractional().map(_finalize_fractional)

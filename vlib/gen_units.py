# -*- coding: utf-8 -*-
"""G3: unit lattice with an own table of SI factors and dimension vectors.

Nothing in the *reference* part of this module uses `quantities` or chempy: the SI factor of every unit is
a `Fraction` typed in from the SI brochure / the unit's definition, the dimension vector is a tuple of
integer exponents over DIMS.  `quantities`/chempy are touched only by the builders (description ->
object handed to the code under test) and by `observe` (reads magnitude + unit bookkeeping of a result
and converts it to SI with *this* table).

JSON descriptions
    unit product   [[name, exp], ...]                 name in UNITS, exp a non-zero int; [] = plain number
    quantity       {"mag": float | [float, ...], "units": <unit product>}
    target unit    {"units": <unit product>, "scale": float}      (scale 1.0 = a bare unit)
    registry       {"length": [name, scale], "mass": ..., "time": ..., "current": ..., "temperature": ...,
                    "amount": ...}                   (luminous_intensity is always 1 candela)

Small API
    UNITS[name] -> Unit(name, attr, factor: Fraction, dim: tuple, kind, rel_unc)
    si_factor(name) / dimension(name)                 table lookups
    factor(units) -> Fraction, dim(units) -> tuple, rel_unc(units) -> float     of a unit product
    ref_si(qdesc) -> Fraction | [Fraction]            reference SI magnitude of a quantity description
    ref_in(qdesc, tdesc) -> Fraction | [Fraction]     reference magnitude of q expressed in the target unit
    registry_factor(rdesc, dimvec) -> Fraction        SI factor of the registry's default unit for dimvec
    unit_products(...), compatible_units(dimvec, ...), quantities(...), targets_for(units, ...),
    registries(...)                                   Hypothesis strategies (shrink towards m / SI)
    pq_unit(units, scale=1.0), pq_quantity(qdesc), pq_registry(rdesc)    builders (lazy chempy import)
    observe(obj) -> (SI magnitude float|ndarray, dim tuple)              own-table reading of a result
"""
from collections import namedtuple
from fractions import Fraction

from hypothesis import strategies as st

DIMS = ("length", "mass", "time", "current", "temperature", "amount")
ND = len(DIMS)

Unit = namedtuple("Unit", "name attr factor dim kind rel_unc")


def _dv(**kw):
    return tuple(int(kw.get(d, 0)) for d in DIMS)


_L, _M, _T, _I, _TH, _N = (_dv(**{d: 1}) for d in DIMS)
_ENERGY = _dv(mass=1, length=2, time=-2)
_PRESSURE = _dv(mass=1, length=-1, time=-2)
_CONC = _dv(amount=1, length=-3)

# 2019 SI: exact by definition
_E_CHARGE = Fraction("1.602176634e-19")      # C, hence J per eV
_N_A = Fraction("6.02214076e23")             # 1/mol
# `quantities` 0.16 carries CODATA-2002/2006 values (eV 1.60217653e-19 J, N_A 6.02214179e23), i.e. its eV differs
# from the exact 2019 value by 6.5e-8 and N_A by 1.7e-7 relative.  Units defined through measured constants are
# therefore compared with 5e-7 relative slack per unit of exponent (all others: exact decimal factors).
_CODATA = 5e-7

_TABLE = [
    # name    attribute of chempy.units.default_units   SI factor          dimension   kind
    ("m", "metre", "1", _L, "length"),
    ("dm", "decimetre", "1e-1", _L, "length"),
    ("cm", "centimetre", "1e-2", _L, "length"),
    ("mm", "millimetre", "1e-3", _L, "length"),
    ("um", "micrometre", "1e-6", _L, "length"),
    ("nm", "nanometre", "1e-9", _L, "length"),
    ("km", "kilometre", "1e3", _L, "length"),
    ("kg", "kilogram", "1", _M, "mass"),
    ("g", "gram", "1e-3", _M, "mass"),
    ("mg", "milligram", "1e-6", _M, "mass"),
    ("s", "second", "1", _T, "time"),
    ("ms", "millisecond", "1e-3", _T, "time"),
    ("min", "minute", "60", _T, "time"),
    ("h", "hour", "3600", _T, "time"),
    ("A", "ampere", "1", _I, "current"),
    ("mA", "milliampere", "1e-3", _I, "current"),
    ("K", "kelvin", "1", _TH, "temperature"),
    ("mK", "mK", "1e-3", _TH, "temperature"),
    ("mol", "mole", "1", _N, "amount"),
    ("mmol", "mmol", "1e-3", _N, "amount"),
    ("umol", "umol", "1e-6", _N, "amount"),            # the unit `quantities` ships
    ("umol_cp", "micromole", "1e-6", _N, "amount"),    # the unit chempy defines itself (symbol 'μmol')
    ("nmol", "nanomole", "1e-9", _N, "amount"),
    # chemistry units added by chempy.units
    ("M", "molar", "1e3", _CONC, "derived"),
    ("mM", "millimolar", "1", _CONC, "derived"),
    ("uM", "micromolar", "1e-3", _CONC, "derived"),
    ("nM", "nanomolar", "1e-6", _CONC, "derived"),
    ("molal", "molal", "1", _dv(amount=1, mass=-1), "derived"),
    ("per100eV", "per100eV", None, _dv(amount=1, mass=-1, length=-2, time=2), "derived"),
    ("kJ", "kilojoule", "1e3", _ENERGY, "derived"),
    ("kGy", "kilogray", "1e3", _dv(length=2, time=-2), "derived"),
    ("m3", "m3", "1", _dv(length=3), "derived"),
    ("dm3", "dm3", "1e-3", _dv(length=3), "derived"),
    ("cm3", "cm3", "1e-6", _dv(length=3), "derived"),
    # named SI / accepted units from their definitions
    ("L", "litre", "1e-3", _dv(length=3), "derived"),
    ("J", "joule", "1", _ENERGY, "derived"),
    ("Pa", "pascal", "1", _PRESSURE, "derived"),
    ("bar", "bar", "1e5", _PRESSURE, "derived"),
    ("atm", "atm", "101325", _PRESSURE, "derived"),
    ("C", "coulomb", "1", _dv(current=1, time=1), "derived"),
    ("V", "volt", "1", _dv(mass=1, length=2, time=-3, current=-1), "derived"),
    ("Gy", "gray", "1", _dv(length=2, time=-2), "derived"),
    ("eV", "eV", None, _ENERGY, "derived"),
    ("cP", "centipoise", "1e-3", _dv(mass=1, length=-1, time=-1), "derived"),
]

_SPECIAL = {
    "eV": (_E_CHARGE, _CODATA),
    "per100eV": (1 / (100 * _E_CHARGE * _N_A), 2 * _CODATA),
}

UNITS = {}
for _name, _attr, _f, _dim, _kind in _TABLE:
    if _f is None:
        _fac, _unc = _SPECIAL[_name]
    else:
        _fac, _unc = Fraction(_f), 0.0
    UNITS[_name] = Unit(_name, _attr, _fac, _dim, _kind, _unc)
del _name, _attr, _f, _dim, _kind, _fac, _unc

BASE_UNITS = {d: [u.name for u in UNITS.values() if u.kind == d] for d in DIMS}   # first = SI base unit
DERIVED_UNITS = [u.name for u in UNITS.values() if u.kind == "derived"]
SI_BASE = {d: BASE_UNITS[d][0] for d in DIMS}
SI_REGISTRY = {d: [SI_BASE[d], 1.0] for d in DIMS}


# -- reference arithmetic (no quantities, no chempy) ------------------------------------------------------------

def si_factor(name):
    return UNITS[name].factor


def dimension(name):
    return UNITS[name].dim


def factor(units):
    """SI factor of a unit product as an exact Fraction."""
    f = Fraction(1)
    for name, e in units:
        f *= UNITS[name].factor ** int(e)
    return f


def dim(units):
    out = [0] * ND
    for name, e in units:
        for i, x in enumerate(UNITS[name].dim):
            out[i] += x * int(e)
    return tuple(out)


def rel_unc(units):
    """Relative slack owed to units defined through measured constants (0.0 for exact decimal units)."""
    return sum(UNITS[name].rel_unc * abs(int(e)) for name, e in units)


def dim_dict(dimvec):
    return {d: e for d, e in zip(DIMS, dimvec) if e != 0}


def _map(mag, fn):
    if isinstance(mag, (list, tuple)):
        return [_map(m, fn) for m in mag]
    return fn(Fraction(mag))


def ref_si(qdesc):
    """Exact SI magnitude(s) of a quantity description (Fraction, or nested lists of Fractions)."""
    f = factor(qdesc["units"])
    return _map(qdesc["mag"], lambda m: m * f)


def target_factor(tdesc):
    return Fraction(tdesc.get("scale", 1.0)) * factor(tdesc["units"])


def ref_in(qdesc, tdesc):
    """Exact magnitude(s) of q expressed in the (dimensionally compatible) target."""
    r = factor(qdesc["units"]) / target_factor(tdesc)
    return _map(qdesc["mag"], lambda m: m * r)


def registry_factor(rdesc, dimvec):
    """SI factor of prod(registry[d] ** dimvec[d])."""
    f = Fraction(1)
    for d, e in zip(DIMS, dimvec):
        if e:
            name, scale = rdesc[d]
            f *= (Fraction(scale) * UNITS[name].factor) ** int(e)
    return f


def registry_unc(rdesc, dimvec):
    return 0.0   # registries are made of exact base units only


# -- strategies ---------------------------------------------------------------------------------------------------

def _exp(draw, max_exp):
    k = draw(st.integers(0, 2 * max_exp - 1))     # 0 -> +1, 1 -> -1, 2 -> +2, ...
    e = k // 2 + 1
    return e if k % 2 == 0 else -e


ALL_NAMES = [u[0] for u in _TABLE]
BASE_NAMES = [n for n in ALL_NAMES if UNITS[n].kind != "derived"]


@st.composite
def unit_products(draw, min_factors=1, max_factors=4, max_exp=3, derived=True):
    """[[name, exp], ...] with distinct names; mostly base/prefixed units, sometimes a derived one."""
    n = draw(st.integers(min_factors, max_factors))
    out, seen = [], set()
    for _ in range(n):
        if derived and draw(st.integers(0, 9)) >= 7:
            name = draw(st.sampled_from(DERIVED_UNITS))
        else:
            name = draw(st.sampled_from(BASE_NAMES))
        if name in seen:
            continue
        seen.add(name)
        out.append([name, _exp(draw, max_exp)])
    return out


@st.composite
def compatible_units(draw, dimvec, derived=True, split=True, padding=True, avoid=()):
    """A unit product with exactly the dimension `dimvec`, built by construction: up to two derived units with
    free exponents, then every remaining exponent is filled with base/prefixed units of that dimension (sometimes
    split over two different prefixes, e.g. length**1 = m**2/cm), optionally padded with a dimensionless pair
    such as dm3*M/mol."""
    rest = list(dimvec)
    out = []
    used = set(avoid)
    if derived:
        for _ in range(draw(st.integers(0, 2))):
            name = draw(st.sampled_from(DERIVED_UNITS))
            if name in used:
                continue
            used.add(name)
            e = _exp(draw, 2)
            out.append([name, e])
            for i, x in enumerate(UNITS[name].dim):
                rest[i] -= x * e
    for i, d in enumerate(DIMS):
        e = rest[i]
        if e == 0:
            if padding and draw(st.integers(0, 19)) == 19:
                a, b = draw(st.sampled_from(BASE_UNITS[d])), draw(st.sampled_from(BASE_UNITS[d]))
                if a != b:
                    k = draw(st.integers(1, 2))
                    out.append([a, k])
                    out.append([b, -k])
            continue
        a = draw(st.sampled_from(BASE_UNITS[d]))
        if split and draw(st.integers(0, 9)) >= 7:
            b = draw(st.sampled_from(BASE_UNITS[d]))
            k = draw(st.integers(1, 2))
            if b != a:
                out.append([a, e + k])
                out.append([b, -k])
                if e + k == 0:
                    out.pop(-2)
                continue
        out.append([a, e])
    if draw(st.booleans()):
        out = draw(st.permutations(out))
    return [list(x) for x in out]


def magnitudes(signed=True, decades=8):
    """Floats m * 10**k with m in 1..9999 (shrinks to 1.0); exact value is Fraction(float)."""
    def mk(t):
        m, k, neg = t
        v = float("%de%d" % (m, k))
        return -v if neg else v
    return st.tuples(st.integers(1, 9999), st.integers(0, 2 * decades).map(lambda j: (j + 1) // 2 * (1 if j % 2 else -1)),
                     st.booleans() if signed else st.just(False)).map(mk)


@st.composite
def quantities(draw, max_factors=4, max_exp=3, derived=True, signed=True, decades=8, array=None):
    """{"mag": float | [floats], "units": unit product}; array=None: scalar, array=n: list of 1..n magnitudes."""
    units = draw(unit_products(1, max_factors, max_exp, derived))
    if array:
        mag = draw(st.lists(magnitudes(signed, decades), min_size=1, max_size=array))
    else:
        mag = draw(magnitudes(signed, decades))
    return {"mag": mag, "units": units}


SCALES = [1.0, 1e3, 1e-3, 10.0, 0.5, 2.0, 1e-9, 60.0, 0.25]


@st.composite
def targets_for(draw, units, scaled=True, **kw):
    """A target unit description dimensionally compatible with the unit product `units`."""
    t = draw(compatible_units(dim(units), **kw))
    scale = 1.0
    if scaled and draw(st.integers(0, 9)) >= 8:
        scale = draw(st.sampled_from(SCALES))
    return {"units": t, "scale": scale}


@st.composite
def registries(draw, scaled=True, choices=None):
    """Independent base unit per dimension (optionally times a scale factor); shrinks to the SI registry."""
    reg = {}
    for d in DIMS:
        pool = (choices or BASE_UNITS)[d]
        name = draw(st.sampled_from(pool))
        scale = 1.0
        if scaled and draw(st.integers(0, 9)) >= 8:
            scale = draw(st.sampled_from(SCALES))
        reg[d] = [name, scale]
    return reg


def registry_differs_from_si(rdesc):
    return sum(1 for d in DIMS if Fraction(rdesc[d][1]) * UNITS[rdesc[d][0]].factor != 1)


def has_negative_exponent(units):
    return any(e < 0 for _, e in units)


def has_prefix(units):
    return any(UNITS[n].factor != 1 for n, _ in units)


def n_dimensions(units):
    return sum(1 for x in dim(units) if x != 0)


# -- builders (lazy chempy / quantities import) ------------------------------------------------------------------

def _du():
    from chempy.units import default_units
    return default_units


def pq_single(name):
    return getattr(_du(), UNITS[name].attr)


def pq_unit(units, scale=1.0):
    """The `quantities` object of a unit product (1 for the empty product), times `scale` unless it is 1.0."""
    res = None
    for name, e in units:
        u = pq_single(name) ** int(e) if int(e) != 1 else pq_single(name)
        res = u if res is None else res * u
    if res is None:
        res = 1
    if scale != 1.0:
        res = scale * res
    return res


def pq_target(tdesc):
    return pq_unit(tdesc["units"], tdesc.get("scale", 1.0))


def pq_quantity(qdesc):
    """mag * unit; a list magnitude becomes a Quantity array."""
    import numpy as np
    unit = pq_unit(qdesc["units"])
    mag = qdesc["mag"]
    if isinstance(mag, (list, tuple)):
        return np.array(mag, dtype=float) * unit
    return mag * unit


def pq_registry(rdesc):
    du = _du()
    reg = {}
    for d in DIMS:
        name, scale = rdesc[d]
        reg[d] = pq_single(name) if scale == 1.0 else scale * pq_single(name)
    reg["luminous_intensity"] = du.candela
    return reg


_BY_ID = {}


def _by_id():
    if not _BY_ID:
        for u in UNITS.values():
            obj = pq_single(u.name)
            if hasattr(obj, "u_symbol"):          # a UnitQuantity (dm3 & co are plain compound Quantities)
                _BY_ID[id(obj)] = u
    return _BY_ID


def observe(obj):
    """(SI magnitude, dimension vector) of a result object, read with this module's table.

    The magnitude array and the {unit: exponent} bookkeeping are taken from the object; every unit found in the
    table is converted with the table's factor, any other unit (candela, ...) with its `quantities` definition.
    Plain numbers/arrays have the zero dimension."""
    import numpy as np
    if not hasattr(obj, "dimensionality"):
        return (np.asarray(obj, dtype=float) if not isinstance(obj, (int, float)) else float(obj)), (0,) * ND
    mag = np.asarray(obj.magnitude, dtype=float)
    f = Fraction(1)
    extra = 1.0
    dv = [0] * ND
    table = _by_id()
    for uq, e in obj.dimensionality.items():
        u = table.get(id(uq))
        ei = int(e)
        if u is not None and ei == e:
            f *= u.factor ** ei
            for i, x in enumerate(u.dim):
                dv[i] += x * ei
        else:
            s = uq.simplified
            extra *= float(s.magnitude) ** float(e)
            for bq, be in s.dimensionality.items():
                b = table.get(id(bq))
                if b is None or b.kind == "derived":
                    if bq.name == "candela":
                        continue
                    raise ValueError("observe: unknown base unit %r" % (bq,))
                dv[DIMS.index(b.kind)] += be * e
    res = mag * float(f) * extra
    if res.ndim == 0:
        res = float(res)
    return res, tuple(dv)

#!/venv/bin/python
"""Run the pinned test suite in <dir> and report the stable_pass tests of /root/.vp/BASELINE.json that do not pass.

    selftest/baseline.py <repo_dir>      exit 0 iff every stable_pass test passes
"""
import json
import os
import subprocess
import sys
import tempfile
import xml.etree.ElementTree as ET


def run(repo_dir):
    base = json.load(open("/root/.vp/BASELINE.json"))
    want = set(base["stable_pass"])
    fd, xml = tempfile.mkstemp(suffix=".xml")
    os.close(fd)
    try:
        subprocess.run(["/venv/bin/python", "-m", "pytest", "-q", "-p", "no:cacheprovider", "--timeout=900",
                        "--continue-on-collection-errors", "--junitxml=" + xml], cwd=repo_dir,
                       stdout=subprocess.PIPE, stderr=subprocess.STDOUT,
                       env=dict(os.environ, PYTHONDONTWRITEBYTECODE="1"))
        passed = set()
        for tc in ET.parse(xml).getroot().iter("testcase"):
            if not any(ch.tag in ("failure", "error", "skipped") for ch in tc):
                passed.add("%s::%s" % (tc.get("classname"), tc.get("name")))
    finally:
        os.unlink(xml)
    return sorted(want - passed), len(want)


if __name__ == "__main__":
    missing, n = run(sys.argv[1])
    print("stable_pass: %d, not passing: %d" % (n, len(missing)))
    for m in missing:
        print("  NOT PASSING", m)
    sys.exit(1 if missing else 0)

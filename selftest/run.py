#!/venv/bin/python
"""Sensitivity self-test (not a registered check): every mutant must be caught by the quick check.

    selftest/run.py [--only C01[,C02..]] [--ids m1,m2] [--tests] [--tier quick] [--jobs 4] [--seeded]

Each mutant is an exact string replacement in one file of a scratch copy of /repo (made under
$TMPDIR, outside /repo and /verif, removed afterwards).  The check is run with VERIF_REPO=<scratch>.
`--tests` additionally runs the repository's pytest suite on the mutant (a realistic breakage passes it).
`--seeded` runs the patches under /verif/seeded/<id>/patch.diff instead of mutants.json.
Results are written to selftest/results.json.
"""
import argparse
import json
import os
import shutil
import subprocess
import sys
import tempfile
import time
from concurrent.futures import ThreadPoolExecutor

HERE = os.path.dirname(os.path.abspath(__file__))
VERIF = os.path.dirname(HERE)
REPO = "/repo"
PY = "/venv/bin/python"


def make_copy():
    d = tempfile.mkdtemp(prefix="chempy_mut_")
    subprocess.check_call(["rsync", "-a", "--exclude", ".git", "--exclude", "build", "--exclude", "__pycache__",
                           "--exclude", "examples", "--exclude", "joss-paper", "--exclude", "benchmarks",
                           REPO + "/", d + "/"])
    return d


def run_one(m, args):
    d = make_copy()
    t0 = time.time()
    res = {"id": m["id"], "property": m["property"]}
    try:
        if "patch" in m:
            subprocess.check_call(["patch", "-p1", "-s", "-i", os.path.join(VERIF, m["patch"])], cwd=d)
        else:
            path = os.path.join(d, m["file"])
            src = open(path).read()
            if src.count(m["old"]) != 1:
                res["error"] = "old string occurs %d times" % src.count(m["old"])
                return res
            open(path, "w").write(src.replace(m["old"], m["new"]))
        env = dict(os.environ, VERIF_REPO=d, VERIF_SEED=str(args.seed), PYTHONDONTWRITEBYTECODE="1")
        for prop in m.get("checks", [m["property"]]):
            p = subprocess.run([PY, os.path.join(VERIF, "run_check.py"), prop, "--tier", args.tier, "--procs", str(args.procs)],
                               env=env, stdout=subprocess.PIPE, stderr=subprocess.STDOUT, text=True, cwd=VERIF)
            out = p.stdout
            res.setdefault("checks", {})[prop] = {
                "exit": p.returncode,
                "violations": [ln for ln in out.splitlines() if ln.startswith("violation:")][:4],
                "tail": out[-1500:] if p.returncode not in (0, 1) else "",
            }
        res["caught"] = any(c["exit"] == 1 for c in res["checks"].values())
        if args.tests:
            sys.path.insert(0, HERE)
            import baseline
            missing, n = baseline.run(d)
            res["tests_pass"] = not missing
            res["tests_not_passing"] = missing[:5]
    finally:
        shutil.rmtree(d, ignore_errors=True)
    res["wall_s"] = round(time.time() - t0, 1)
    return res


def main():
    ap = argparse.ArgumentParser()
    ap.add_argument("--only")
    ap.add_argument("--ids")
    ap.add_argument("--tests", action="store_true")
    ap.add_argument("--tier", default="quick")
    ap.add_argument("--jobs", type=int, default=4)
    ap.add_argument("--procs", type=int, default=4)
    ap.add_argument("--seed", type=int, default=1)
    ap.add_argument("--seeded", action="store_true")
    args = ap.parse_args()
    if args.seeded:
        muts = []
        for name in sorted(os.listdir(os.path.join(VERIF, "seeded"))):
            dd = os.path.join(VERIF, "seeded", name)
            if os.path.exists(os.path.join(dd, "patch.diff")):
                meta = json.load(open(os.path.join(dd, "meta.json")))
                if meta.get("obsolete"):
                    continue   # no longer manifests on the current /repo (see its meta.json)
                muts.append({"id": name, "property": meta["property"], "patch": os.path.join(dd, "patch.diff"),
                             "checks": meta.get("checks", [meta["property"]])})
        outname = "results_seeded.json"
    else:
        muts = json.load(open(os.path.join(HERE, "mutants.json")))
        import glob
        for fn in sorted(glob.glob(os.path.join(HERE, "mutants.d", "*.json"))):
            muts.extend(json.load(open(fn)))
        outname = "results.json"
    if args.only:
        want = set(args.only.upper().split(","))
        muts = [m for m in muts if m["property"] in want]
    if args.ids:
        want = set(args.ids.split(","))
        muts = [m for m in muts if m["id"] in want]
    with ThreadPoolExecutor(args.jobs) as ex:
        results = list(ex.map(lambda m: run_one(m, args), muts))
    path = os.path.join(HERE, outname)
    old = {}
    if os.path.exists(path):
        old = {r["id"]: r for r in json.load(open(path))}
    for r in results:
        old[r["id"]] = r
        print("%-40s %-4s caught=%s %s %s" % (r["id"], r["property"], r.get("caught"), r.get("error", ""),
                                              ("tests_pass=%s" % r["tests_pass"]) if "tests_pass" in r else ""))
        if not r.get("caught"):
            print(json.dumps(r, indent=1)[:3000])
    json.dump(sorted(old.values(), key=lambda r: r["id"]), open(path, "w"), indent=1, sort_keys=True)
    missed = [r["id"] for r in results if not r.get("caught")]
    print("mutants: %d, caught: %d, missed: %s" % (len(results), len(results) - len(missed), missed))
    return 1 if missed else 0


if __name__ == "__main__":
    sys.exit(main())

#!/venv/bin/python
"""Markdown table of the seeded changes and which quick checks catch them (from selftest/results_seeded.json)."""
import json
import os

V = os.path.dirname(os.path.dirname(os.path.abspath(__file__)))
res = {r["id"]: r for r in json.load(open(os.path.join(V, "selftest", "results_seeded.json")))}
print("| change | breaks (property clause) | needs to manifest | caught by quick check |")
print("|---|---|---|---|")
for name in sorted(os.listdir(os.path.join(V, "seeded"))):
    mp = os.path.join(V, "seeded", name, "meta.json")
    if not os.path.exists(mp):
        continue
    m = json.load(open(mp))
    r = res.get(name, {})
    caught = [k for k, v in sorted(r.get("checks", {}).items()) if v["exit"] == 1]
    missed = [k for k, v in sorted(r.get("checks", {}).items()) if v["exit"] != 1]
    c = ", ".join(caught) if caught else "**no**"
    if caught and missed:
        c += " (not by %s)" % ", ".join(missed)
    print("| %s | %s | %s | %s |" % (name, m["breaks"], m["needs_to_manifest"], c))

#!/bin/bash
# run every registered quick check once (sequentially) and summarise
cd /verif
tier=${1:-quick}
for p in C01 C02 C03 C04 C05 C06 C07 C08 C09 C10 C11 C12 C13 C14 C15 C16 C17 C18 C19 C20; do
  s=$(date +%s)
  /venv/bin/python run_check.py $p --tier $tier > out/last_$p.log 2>&1
  rc=$?
  e=$(date +%s)
  echo "$p exit=$rc wall=$((e-s))s $(grep -E '^C[0-9]+ tier=' out/last_$p.log | sed 's/^C[0-9]* //')"
done

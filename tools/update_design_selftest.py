#!/venv/bin/python
"""Rewrite the mutation table of DESIGN.md section 8 from selftest/results.json."""
import json
import re
from collections import Counter

p = '/verif/DESIGN.md'
s = open(p).read()
r = json.load(open('/verif/selftest/results.json'))
c = Counter(); k = Counter(); t = Counter()
for x in r:
    c[x['property']] += 1
    k[x['property']] += bool(x.get('caught'))
    t[x['property']] += bool(x.get('tests_pass'))
rows = '\n'.join('| %s | %d | %d | %d |' % (pp, c[pp], k[pp], t[pp]) for pp in sorted(c))
new = '| property | mutants | caught by quick check | pass suite |\n|---|---|---|---|\n%s\n| total | %d | %d | %d |' % (
    rows, sum(c.values()), sum(k.values()), sum(t.values()))
s2 = re.sub(r'\| property \| mutants \| caught by quick check \| pass suite \|\n\|---\|---\|---\|---\|\n(?:\|.*\n)*?\| total \|.*\|', new.replace('\\', '\\\\'), s)
assert s2 != s or new in s
open(p, 'w').write(s2)
missed = [x['id'] for x in r if not x.get('caught')]
print(sum(c.values()), sum(k.values()), sum(t.values()), 'missed:', missed)

#!/venv/bin/python
"""Confirm seeded changes delivered by blind sub-agents and file them under /verif/seeded/<id>/.

For each /tmp/seeded_out/<id>/ (patch.diff, demo.py, notes.md):
  1. scratch copy of /repo (rsync, outside /repo and /verif, removed afterwards)
  2. demo.py exits 0 on the clean copy
  3. `git apply` the patch; demo.py exits non-zero
  4. the 510 pinned tests still pass with the patch (selftest/baseline.py)
Only changes passing all of that are kept: seeded/<id>/{patch.diff,demo.py,notes.md,meta.json}.
"""
import json
import os
import shutil
import subprocess
import sys
import tempfile
from concurrent.futures import ThreadPoolExecutor

HERE = os.path.dirname(os.path.abspath(__file__))
VERIF = os.path.dirname(HERE)
sys.path.insert(0, os.path.join(VERIF, "selftest"))
import baseline  # noqa

SRC = sys.argv[1] if len(sys.argv) > 1 else "/tmp/seeded_out"
TRIGGERS = json.load(open(os.path.join(HERE, "seeded_triggers.json")))


def run(cmd, cwd):
    return subprocess.run(cmd, cwd=cwd, stdout=subprocess.PIPE, stderr=subprocess.STDOUT, text=True,
                          env=dict(os.environ, PYTHONDONTWRITEBYTECODE="1", PYTHONHASHSEED="0"))


def verify(name):
    src = os.path.join(SRC, name)
    dst = os.path.join(VERIF, "seeded", name)
    d = tempfile.mkdtemp(prefix="seedchk_")
    res = {"id": name}
    try:
        subprocess.check_call(["rsync", "-a", "--exclude", ".git", "--exclude", "build", "--exclude", "__pycache__", "/repo/", d + "/"])
        p = run(["/venv/bin/python", os.path.join(src, "demo.py")], d)
        res["demo_clean_exit"] = p.returncode
        p = run(["git", "apply", "--unsafe-paths", "--directory", d, os.path.join(src, "patch.diff")], d)
        if p.returncode != 0:
            # not inside a git repo: fall back to patch(1)
            p = run(["patch", "-p1", "-i", os.path.join(src, "patch.diff")], d)
        res["apply_exit"] = p.returncode
        p = run(["/venv/bin/python", os.path.join(src, "demo.py")], d)
        res["demo_patched_exit"] = p.returncode
        res["demo_patched_tail"] = p.stdout.strip().splitlines()[-3:]
        missing, n = baseline.run(d)
        res["baseline_not_passing"] = missing
        res["ok"] = (res["demo_clean_exit"] == 0 and res["apply_exit"] == 0 and res["demo_patched_exit"] != 0 and not missing)
        if res["ok"]:
            os.makedirs(dst, exist_ok=True)
            for f in ("patch.diff", "demo.py", "notes.md"):
                shutil.copy(os.path.join(src, f), os.path.join(dst, f))
            meta = {
                "property": name.split("_")[0],
                "breaks": TRIGGERS.get(name, {}).get("breaks", "see notes.md"),
                "needs_to_manifest": TRIGGERS.get(name, {}).get("trigger", "see notes.md"),
                "author": "fresh sub-agent given only the property text and a scratch worktree of /repo",
                "confirmed_by": "tools/verify_seeded.py: demo.py exit 0 on a clean scratch copy of /repo, exit %d with patch.diff applied; "
                                "all 510 stable_pass tests of /root/.vp/BASELINE.json pass with the patch" % res["demo_patched_exit"],
                "checks": [name.split("_")[0]],
            }
            json.dump(meta, open(os.path.join(dst, "meta.json"), "w"), indent=1)
    finally:
        shutil.rmtree(d, ignore_errors=True)
    return res


if __name__ == "__main__":
    names = sorted(n for n in os.listdir(SRC) if os.path.exists(os.path.join(SRC, n, "patch.diff")))
    if len(sys.argv) > 2:
        names = [n for n in names if n in sys.argv[2].split(",")]
    with ThreadPoolExecutor(4) as ex:
        for r in ex.map(verify, names):
            print(r["id"], "OK" if r.get("ok") else "REJECTED", {k: v for k, v in r.items() if k not in ("id", "ok")} if not r.get("ok") else "")

#!/venv/bin/python
"""Regenerate MANIFEST.json from tools/checks.json (one entry per claimed property) and validate it."""
import json
import os

HERE = os.path.dirname(os.path.abspath(__file__))
VERIF = os.path.dirname(HERE)
checks = json.load(open(os.path.join(HERE, "checks.json")))
props = [json.loads(l) for l in open(os.path.join(VERIF, "properties.jsonl"))]
ids = [p["id"] for p in props]

SETUP = ("/venv/bin/python -c 'import hypothesis, numpy, scipy, sympy, mpmath, quantities, pyodesys, pyneqsys, pulp' "
         "|| /venv/bin/pip install --no-index --find-links /opt/veriftools/wheels --target /verif/.deps hypothesis")

man = {
    "version": 1,
    "setup_cmd": SETUP,
    "hooks": {
        "guard": "CHEMPY_VERIF",
        "enable": "no source hooks are needed: every property is observable through public return values, exceptions and "
                  "warnings; checks import chempy from /repo's working tree (vlib/env.py puts /repo first on sys.path and "
                  "verifies chempy.__file__), CHEMPY_VERIF=1 is set by the runner but nothing in /repo reads it",
        "baseline_off_cmd": "cd /repo && /venv/bin/python -m pytest -ra -q -p no:cacheprovider --timeout=900 --continue-on-collection-errors",
        "source_commits": [],
        "add_only": True,
    },
    "engines": [
        {"name": "run_check", "path": "run_check.py", "serves_properties": [c["id"] for c in checks],
         "kind_free_text": "Hypothesis 6.168 property-based search (seeded by VERIF_SEED), rule-based state machines for "
                           "histories, exhaustive enumeration of finite domains, 16-way sharding in the thorough tier; "
                           "collect-then-continue bucketing, shrunk failures written as JSON replay files"},
    ],
    "checks": [],
    "notes": "Known findings: /verif/known_findings.json.  Regression corpus: /verif/replays/<id>/*.json (replayed first by "
             "every run).  New violations are written to /verif/out/replays/<id>/.  Sensitivity self-test: selftest/run.py.",
    "not_applicable": [],
}
for c in checks:
    man["checks"].append({
        "property_id": c["id"],
        "quick_cmd": "/venv/bin/python run_check.py %s --tier quick" % c["id"],
        "thorough_cmd": "/venv/bin/python run_check.py %s --tier thorough" % c["id"],
        "evidence_file": "/verif/evidence/%s.json" % c["id"],
        "replay_cmd_template": "/venv/bin/python run_check.py %s --replay {path}" % c["id"],
        "engine": "run_check",
        "level_claimed": {"category": c.get("level", "exploration"), "text": c["text"], "design_ref": "DESIGN.md section 4, %s" % c["id"]},
        "level_note": c["note"],
        "technique": c["technique"],
    })
claimed = set(c["id"] for c in checks)
for i in ids:
    if i not in claimed:
        man["not_applicable"].append({"property_id": i, "reason": "check not built yet at this commit (planned in DESIGN.md section 4); not claimed until it exists"})
json.dump(man, open(os.path.join(VERIF, "MANIFEST.json"), "w"), indent=1)
import jsonschema
jsonschema.validate(man, json.load(open("/root/.vp/MANIFEST.schema.json")))
print("MANIFEST.json: %d checks, %d not_applicable, valid" % (len(man["checks"]), len(man["not_applicable"])))

# -*- coding: utf-8 -*-
"""C17 - closed-form integrated rate laws solve the rate equation of their documented mechanism from the stated start,
and give the same values under the numpy, math and sympy backends."""
from fractions import Fraction
import math

from hypothesis import strategies as st

from vlib import env  # noqa  (sys.path)
from vlib.harness import SubCheck, sut, is_err

PROPERTY = "C17"
LEVEL = "exploration"
RULE = ("Cases name one of the seven functions of chempy/kinetics/integrated.py, positive rational parameters over four "
        "decades [0.01, 100] (initial product / product feed may also be 0), the optional arguments (t0 and the inert P0 of "
        "dimerization_irrev, n of binary_irrev_cstr) given explicitly with non-default values in a share of the cases, major = minor*(1+q) with q >= 1/100, a time "
        "t = tau/lambda (lambda = characteristic rate computed from the parameters, tau in [0, 8]) or a free time in "
        "[0.01, 100]; for binary_irrev_cstr the initial reactant concentration is placed on both sides of the steady "
        "state A_ss (r = rho*A_ss, rho in {1/100 .. 100}, or free).  'ode': the sympy-backend expression with symbolic "
        "arguments is differentiated once per function and dP/dt - (hand-written right-hand side of the documented "
        "mechanism) is evaluated at the rational point with 50 digits; the same expression at t = 0 must give the stated "
        "initial concentration.  'initial': the function is called with t = 0 and exact rationals (sympy backend), the "
        "result must be exactly the initial concentration.  'backends': numpy (name, module, default; scalar and array "
        "t), math (name, module) at binary-float parameters against the sympy backend evaluated exactly at the same "
        "binary-float point; every array evaluation of a case uses one and the same ndarray (twice per backend) and the "
        "array arguments must be unchanged after each call.  'late_times': the same at 30..10000 characteristic times "
        "(binary_irrev_cstr <= 300).  'backend_types': the same comparison with the *type* of every parameter drawn "
        "independently (or one type for all): Python int, numpy.int64, 0-d int64 array for integral values, float, "
        "numpy.float64, 0-d float64 array, fractions.Fraction for any value; time as float, numpy.float64 or int; "
        "parameter sets are integral (1..100, so every type applies) or the general rationals.  Non-trivial = non-zero "
        "initial product and all parameters pairwise distinct; distinct by case digest.")
ASSUMPTIONS = ["sympy differentiation (diff) and lambdify->mpmath evaluation at 50 digits are trusted",
               "identity in t and the parameters is decided by evaluation at generated rational points "
               "(|residual| <= 1e-30 * sum of |terms|), not by a symbolic proof",
               "backend agreement is judged to 1e-9 relative to the sum of the concentration inputs (the terms the "
               "closed forms add and subtract), for times up to 8 characteristic times, and at 30..10000 characteristic times for "
               "the functions that evaluate finitely there on the unchanged tree (binary_irrev_cstr: exp(+fv*t) overflows for "
               "fv*t > 709.78 - OverflowError with math, nan with numpy - so it is judged up to 300 characteristic times only)",
               "parameter types ('backend_types'): the domain is what the unchanged tree accepts for all seven functions "
               "with every backend it is combined with - int, numpy.int64, numpy.float64, float, 0-d int64/float64 "
               "arrays with numpy/math/sympy; Fraction with math and sympy only (numpy ufuncs reject Fraction objects: "
               "np.sqrt(Fraction) in binary_rev / binary_irrev_cstr and np.exp of an object array for array t - "
               "numpy's behaviour, not judged).  Not generated: numpy.float32 (single-precision arithmetic agrees to "
               "1e-7 only), 32-bit and unsigned numpy integers (silent wrap-around of intermediates such as -fv or "
               "x4**2 is numpy semantics), 1-d parameter arrays (broadcasting, another clause), sympy numbers with "
               "the numeric backends"]

# ---------------------------------------------------------------------------------------------------------------------
# description of the seven functions (names, argument order as documented, outputs, initial values)
# ---------------------------------------------------------------------------------------------------------------------
SPECS = {
    "dimerization_irrev": {"args": ["kf", "initial_C"], "backend": False, "out": ["C"], "init": ["initial_C"],
                           "conc": ["initial_C"], "prod": []},
    "pseudo_irrev": {"args": ["kf", "prod", "major", "minor"], "backend": True, "out": ["P"], "init": ["prod"],
                     "conc": ["prod", "major", "minor"], "prod": ["prod"]},
    "pseudo_rev": {"args": ["kf", "kb", "prod", "major", "minor"], "backend": True, "out": ["P"], "init": ["prod"],
                   "conc": ["prod", "major", "minor"], "prod": ["prod"]},
    "binary_irrev": {"args": ["kf", "prod", "major", "minor"], "backend": True, "out": ["P"], "init": ["prod"],
                     "conc": ["prod", "major", "minor"], "prod": ["prod"]},
    "binary_rev": {"args": ["kf", "kb", "prod", "major", "minor"], "backend": True, "out": ["P"], "init": ["prod"],
                   "conc": ["prod", "major", "minor"], "prod": ["prod"]},
    "unary_irrev_cstr": {"args": ["k", "r", "p", "fr", "fp", "fv"], "backend": True, "out": ["A", "B"],
                         "init": ["r", "p"], "conc": ["r", "p", "fr", "fp"], "prod": ["p"]},
    "binary_irrev_cstr": {"args": ["k", "r", "p", "fr", "fp", "fv"], "backend": True, "out": ["A", "B"],
                          "init": ["r", "p"], "conc": ["r", "p", "fr", "fp"], "prod": ["p"]},
}
# optional arguments besides `backend`: given explicitly (non-default) by a share of the cases.  P0 of dimerization_irrev is
# an inert reference argument: the documented mechanism dC/dt = -2 kf C**2 and C(t0) = initial_C hold whatever P0 is.
OPTIONAL = {"dimerization_irrev": ["P0", "t0"], "binary_irrev_cstr": ["n"]}
OPT_DEFAULT = {"P0": Fraction(1), "t0": Fraction(0), "n": Fraction(1)}


def all_names(fn):
    return SPECS[fn]["args"] + OPTIONAL.get(fn, [])


FN_ORDER = ["dimerization_irrev", "pseudo_irrev", "pseudo_rev", "binary_irrev", "binary_rev", "unary_irrev_cstr",
            "binary_irrev_cstr"]


def F(x):
    return x if isinstance(x, Fraction) else Fraction(x)


def fstr(x):
    x = F(x)
    return "%d/%d" % (x.numerator, x.denominator)


def case_params(case):
    return {k: F(v) for k, v in case["p"].items()}


def rate_scale(fn, p):
    """Characteristic rate (1/time) of the transient, a rational upper estimate built from the parameters."""
    if fn == "dimerization_irrev":
        return 2 * p["kf"] * p["initial_C"]
    if fn == "pseudo_irrev":
        return p["kf"] * p["major"]
    if fn == "pseudo_rev":
        return p["kf"] * p["major"] + p["kb"]
    if fn == "binary_irrev":
        return p["kf"] * p["major"]
    if fn == "binary_rev":
        return p["kf"] * (p["major"] + p["minor"] + 2 * p["prod"]) + p["kb"]
    if fn == "unary_irrev_cstr":
        return p["fv"] + p["k"]
    if fn == "binary_irrev_cstr":
        return p["fv"] + 4 * p["k"] * max(p["fr"], p["r"])
    raise KeyError(fn)


def conc_scale(fn, p):
    """Sum of the concentration inputs: the size of the terms the closed form adds and subtracts."""
    s = sum(abs(p[k]) for k in SPECS[fn]["conc"])
    if fn == "binary_irrev_cstr":
        s = s * (1 + p.get("n", 1))   # 2 A -> n B: the product expression carries the factor n
    return s


def cstr2_margin(p):
    """Exact 1 - arg**2 of the atanh argument of binary_irrev_cstr = 8 k (fv fr - fv r - 2 k r^2) / (fv (fv + 8 k fr)):
    positive iff r is below the steady state A_ss (dA/dt(0) > 0)."""
    g = p["fv"] * p["fr"] - p["fv"] * p["r"] - 2 * p["k"] * p["r"] ** 2
    return 8 * p["k"] * g / (p["fv"] * (p["fv"] + 8 * p["k"] * p["fr"]))


def cstr2_regime(p):
    m = cstr2_margin(p)
    if m >= Fraction(1, 10 ** 9):
        return "below"
    if m <= -Fraction(1, 10 ** 9):
        return "above"
    return "near"   # within rounding of the steady state (includes r == A_ss exactly)


def classify(case, ctx, p, ts):
    fn = case["fn"]
    spec = SPECS[fn]
    ctx.label("fn:" + fn)
    prods = [p[k] for k in spec["prod"]]
    prod_nonzero = all(v != 0 for v in prods)
    if spec["prod"]:
        ctx.label("prod!=0" if prod_nonzero else "prod=0")
    vals = [p[k] for k in spec["args"]] + ([p["n"]] if "n" in p else [])
    distinct = len(set(vals)) == len(vals)
    ctx.label("distinct" if distinct else "coinciding_params")
    lam = rate_scale(fn, p)
    t0 = p.get("t0", Fraction(0))
    for t in ts:
        tau = (t - t0) * lam
        ctx.label("t=0" if tau == 0 else "tau<0.1" if tau < Fraction(1, 10) else "tau:0.1-3" if tau <= 3 else
                  "tau:3-20" if tau <= 20 else "tau>20")
    if fn == "binary_irrev_cstr":
        ctx.label("regime:" + cstr2_regime(p))
        ctx.label("n=default" if "n" not in p else "n=%s" % p["n"])
    if fn == "dimerization_irrev":
        ctx.label("t0=default" if "t0" not in p else "t0 given")
        ctx.label("P0=default" if "P0" not in p else "P0=1 given" if p["P0"] == 1 else "P0 given")
    if "major" in p:
        q = p["major"] / p["minor"] - 1
        ctx.label("major/minor-1<=0.1" if q <= Fraction(1, 10) else "major/minor-1>0.1")
    ctx.nontrivial(prod_nonzero and distinct)


# ---------------------------------------------------------------------------------------------------------------------
# hand-written right-hand sides: list of signed terms per output (residual = lhs - sum(terms))
# ---------------------------------------------------------------------------------------------------------------------
def rhs_terms(fn, p, y):
    """p: parameter values, y: values of the outputs; numbers of any field (mpmath mpf/mpc here)."""
    if fn == "dimerization_irrev":
        return [[-2 * p["kf"] * y[0] * y[0]]]
    if fn in ("pseudo_irrev", "pseudo_rev"):
        x = y[0] - p["prod"]                     # converted amount
        terms = [p["kf"] * p["major"] * p["minor"], -p["kf"] * p["major"] * x]
        if fn == "pseudo_rev":
            terms.append(-p["kb"] * y[0])
        return [terms]
    if fn in ("binary_irrev", "binary_rev"):
        x = y[0] - p["prod"]
        terms = [p["kf"] * p["major"] * p["minor"], -p["kf"] * p["major"] * x, -p["kf"] * p["minor"] * x,
                 p["kf"] * x * x]
        if fn == "binary_rev":
            terms.append(-p["kb"] * y[0])
        return [terms]
    if fn == "unary_irrev_cstr":
        a, b = y
        return [[p["fv"] * p["fr"], -p["fv"] * a, -p["k"] * a],
                [p["fv"] * p["fp"], -p["fv"] * b, p["k"] * a]]
    if fn == "binary_irrev_cstr":
        a, b = y
        n = p.get("n", 1)
        return [[p["fv"] * p["fr"], -p["fv"] * a, -2 * p["k"] * a * a],
                [p["fv"] * p["fp"], n * p["k"] * a * a, -p["fv"] * b]]
    raise KeyError(fn)


# ---------------------------------------------------------------------------------------------------------------------
# calling chempy
# ---------------------------------------------------------------------------------------------------------------------
def call(fn, t, vals, backend=None, use_backend=True):
    """vals: dict name -> value (already of the type the backend wants).  Arguments positionally in documented order;
    n / t0 / backend by keyword and only when the case gives them."""
    from chempy.kinetics import integrated
    f = getattr(integrated, fn)
    args = [t] + [vals[k] for k in SPECS[fn]["args"]]
    kw = {}
    if "n" in vals:
        kw["n"] = vals["n"]
    if "P0" in vals and "t0" in vals:
        args += [vals["P0"], vals["t0"]]          # both given: positionally, in the documented order (t, kf, initial_C, P0, t0)
    else:
        for k in ("P0", "t0"):
            if k in vals:
                kw[k] = vals[k]
    if SPECS[fn]["backend"] and use_backend:
        kw["backend"] = backend
    out = f(*args, **kw)
    if len(SPECS[fn]["out"]) == 1:
        return [out]
    if not isinstance(out, (tuple, list)) or len(out) != len(SPECS[fn]["out"]):
        raise ValueError("expected a length-%d tuple, got %r" % (len(SPECS[fn]["out"]), type(out)))
    return list(out)


_SYM_CACHE = {}


def symbolic(fn):
    """(argument symbols, lambdified [y..., dy/dt...]) of the sympy-backend expression, or a SutError."""
    if fn in _SYM_CACHE:
        return _SYM_CACHE[fn]
    import sympy as sp
    names = all_names(fn)
    t = sp.Symbol("t", real=True)
    syms = {k: sp.Symbol(k, positive=True) for k in names}
    ys = sut(call, fn, t, syms, backend=sp)
    if is_err(ys):
        _SYM_CACHE[fn] = ys
        return ys
    ys = [sp.sympify(y) for y in ys]
    dys = [y.diff(t) for y in ys]
    order = [t] + [syms[k] for k in names]
    f = sp.lambdify(order, ys + dys, "mpmath")
    _SYM_CACHE[fn] = (names, f)
    return _SYM_CACHE[fn]


RES_TOL = 1e-30     # residual at 50 digits relative to sum |terms| (DESIGN exactness policy)


def check_ode(case, ctx):
    import mpmath as mp
    fn = case["fn"]
    p = case_params(case)
    t = F(case["t"])
    classify(case, ctx, p, [t])
    sym = symbolic(fn)
    if is_err(sym):
        ctx.fail("sympy_backend_raises:" + fn, error=repr(sym))
        return
    names, f = sym
    full = dict(p)
    for k, v in OPT_DEFAULT.items():
        full.setdefault(k, v)
    with mp.workdps(50):
        mpv = {k: mp.mpf(v.numerator) / v.denominator for k, v in full.items()}
        S = sum(abs(mpv[k]) for k in SPECS[fn]["conc"]) * (1 + (mpv["n"] if fn == "binary_irrev_cstr" else 0))
        nout = len(SPECS[fn]["out"])
        for which, tt in (("t", t), ("t_start", full["t0"])):
            try:
                out = f(mp.mpf(tt.numerator) / tt.denominator, *[mpv[k] for k in names])
            except (ZeroDivisionError, ValueError, OverflowError, TypeError) as e:
                # the expression is finite on the whole generated domain (denominators are sums of positive terms)
                ctx.fail("expression_not_evaluable:" + fn, error=repr(e)[:200], at=which)
                return
            ys, dys = out[:nout], out[nout:]
            for name, y in zip(SPECS[fn]["out"], ys):
                # mathematically real (above the CSTR steady state sympy's atanh passes through i*pi/2): an imaginary
                # part is evaluation noise at 1e-50 relative
                if not (abs(mp.im(y)) <= RES_TOL * S):          # (also true for nan)
                    ctx.fail("nonreal_value:%s:%s" % (fn, name), value=mp.nstr(y, 20), at=which)
                    return
            if which == "t_start":
                for name, y, key in zip(SPECS[fn]["out"], ys, SPECS[fn]["init"]):
                    # exact identity evaluated with 50 digits; 1e-30 relative to the concentration scale
                    if not (abs(y - mpv[key]) <= RES_TOL * S):
                        ctx.fail("initial_value:%s:%s" % (fn, name), got=mp.nstr(y, 25), expected=fstr(full[key]))
                        return
            terms = rhs_terms(fn, mpv, ys)
            for name, dy, tr in zip(SPECS[fn]["out"], dys, terms):
                res = dy - mp.fsum(tr)
                scale = abs(dy) + mp.fsum(abs(x) for x in tr)
                if not (abs(res) <= RES_TOL * scale):
                    ctx.fail("ode_residual:%s:%s" % (fn, name), residual=mp.nstr(res, 10), scale=mp.nstr(scale, 10),
                             dydt=mp.nstr(dy, 20), rhs=mp.nstr(mp.fsum(tr), 20), at=which)
                    return


def to_sympy(v):
    import sympy as sp
    v = F(v)
    return sp.Rational(v.numerator, v.denominator)


def check_initial(case, ctx):
    """fn(0, exact rationals, backend=sympy) is exactly the stated initial concentration."""
    import sympy as sp
    fn = case["fn"]
    p = case_params(case)
    t_start = p.get("t0", Fraction(0))
    classify(case, ctx, p, [t_start])
    be = {"sympy": "sympy", "sympy_mod": sp}[case.get("be", "sympy")]
    ctx.label("be:" + case.get("be", "sympy"))
    vals = {k: to_sympy(v) for k, v in p.items()}
    ys = sut(call, fn, to_sympy(t_start), vals, backend=be)
    if is_err(ys):
        ctx.fail("sympy_backend_raises:" + fn, error=repr(ys))
        return
    for name, y, key in zip(SPECS[fn]["out"], ys, SPECS[fn]["init"]):
        d = sp.expand(sp.sympify(y) - vals[key])
        if d != 0:
            d = sp.simplify(d)
        if d == 0:
            ctx.label("initial_exact")
            continue
        num = sp.N(d, 60)
        scale = max(conc_scale(fn, p), Fraction(1, 10 ** 6))
        # the difference is an algebraic number that sympy did not reduce; decide it numerically at 60 digits
        if not (abs(num) <= 1e-45 * float(scale)):
            ctx.fail("initial_value:%s:%s" % (fn, name), got=str(y)[:200], expected=fstr(p[key]), diff=str(num)[:60])
            return
        ctx.label("initial_numeric_only")


def enum_symbolic(tier):
    if tier == "thorough":
        for fn in FN_ORDER:
            yield {"fn": fn}


class _Timeout(Exception):
    pass


def check_symbolic(case, ctx):
    """Report only (DESIGN C17): does sympy.simplify reduce the fully symbolic residual / initial-value difference
    to 0?  Never a violation: a CAS failing to prove an identity says nothing about the identity ('ode' decides)."""
    import signal
    import sympy as sp
    fn = case["fn"]
    ctx.label("fn:" + fn)
    ctx.nontrivial(True)
    names = all_names(fn)
    t = sp.Symbol("t", real=True)
    syms = {k: sp.Symbol(k, positive=True) for k in names}
    ys = sut(call, fn, t, syms, backend=sp)
    if is_err(ys):
        ctx.fail("sympy_backend_raises:" + fn, error=repr(ys))
        return
    ys = [sp.sympify(y) for y in ys]

    def on_alarm(signum, frame):
        raise _Timeout()
    old = signal.signal(signal.SIGALRM, on_alarm)
    try:
        for name, y, tr, key in zip(SPECS[fn]["out"], ys, rhs_terms(fn, syms, ys), SPECS[fn]["init"]):
            for what, expr in (("residual", y.diff(t) - sum(tr)), ("initial", y.subs(t, syms.get("t0", 0)) - syms[key])):
                signal.alarm(120)          # a guard for the report, not part of any verdict
                try:
                    r = sp.simplify(expr)
                    ctx.label("simplify_%s_%s:%s:%s" % (what, "zero" if r == 0 else "NOT_reduced", fn, name))
                except _Timeout:
                    ctx.label("simplify_%s_timeout:%s:%s" % (what, fn, name))
                finally:
                    signal.alarm(0)
    finally:
        signal.signal(signal.SIGALRM, old)


# ---------------------------------------------------------------------------------------------------------------------
# backends
# ---------------------------------------------------------------------------------------------------------------------
BACKENDS = ["numpy", "numpy_mod", "default", "math", "math_mod"]
BE_TOL = 1e-9


def _backend_obj(name):
    import numpy as np
    return {"numpy": "numpy", "numpy_mod": np, "default": None, "math": "math", "math_mod": math}[name]


def _family(name):
    return "math" if name.startswith("math") else "numpy"


# parameter types: name -> (constructor from the binary-float value, needs an integral value)
INT_TYPES = ["int", "np.int64", "0d_int64"]
ANY_TYPES = ["float", "np.float64", "0d_float64", "Fraction"]
T_TYPES = ["float", "np.float64", "int"]


def typed(tname, x):
    """x: float (the binary-float point) -> the same number as an object of the named type."""
    import numpy as np
    if tname in INT_TYPES:
        if x != int(x):
            raise ValueError("type %s for the non-integral value %r" % (tname, x))      # generator error
        return {"int": int, "np.int64": np.int64, "0d_int64": lambda v: np.array(v, dtype=np.int64)}[tname](int(x))
    return {"float": float, "np.float64": np.float64, "0d_float64": lambda v: np.array(v, dtype=np.float64),
            "Fraction": Fraction}[tname](x)


def typed_time(tname, x):
    import numpy as np
    if tname == "int":
        return int(x) if x == int(x) else x     # an integral time (t = 0) as a Python int
    return np.float64(x) if tname == "np.float64" else x


def check_backends(case, ctx):
    import numpy as np
    import sympy as sp
    import warnings
    fn = case["fn"]
    # the point is the binary-float point: all backends (and the exact reference) see the same numbers
    pf = {k: float(F(v)) for k, v in case["p"].items()}
    if "n" in case["p"]:
        pf["n"] = int(F(case["p"]["n"]))
    p = {k: Fraction(v) for k, v in pf.items()}
    tsf = [float(F(t)) for t in case["ts"]]
    ts = [Fraction(t) for t in tsf]
    classify(case, ctx, p, ts)
    # what chempy is called with: the same numbers, each as an object of the type the case names (default: float)
    types = case.get("types") or {}
    t_type = case.get("t_type", "float")
    pv = {k: (v if k == "n" else typed(types.get(k, "float"), v)) for k, v in pf.items()}
    tsv = [typed_time(t_type, t) for t in tsf]
    used = sorted(set(types.get(k, "float") for k in pf if k != "n"))
    has_fraction = "Fraction" in used
    if types:
        ctx.label("types:uniform" if len(used) == 1 else "types:mixed", "t_type:" + t_type, *["type:" + u for u in used])
        rate_keys = [k for k in ("k", "kf", "kb", "fv") if k in pf]
        ctx.label("rate_params:all_numpy_int" if all(types.get(k) in ("np.int64", "0d_int64") for k in rate_keys) else
                  "rate_params:all_python_int" if all(types.get(k) == "int" for k in rate_keys) else "rate_params:other")
    tdesc = {k: types.get(k, "float") for k in pf if k != "n"}
    regime = cstr2_regime(p) if fn == "binary_irrev_cstr" else "n/a"
    S = float(conc_scale(fn, p))
    nout = len(SPECS[fn]["out"])

    # reference: sympy backend, exact arithmetic on the same point, evaluated with 40 digits
    svals = {k: to_sympy(v) for k, v in p.items()}
    ref = []
    for t in ts:
        ys = sut(call, fn, to_sympy(t), svals, backend="sympy")
        if is_err(ys):
            ctx.fail("sympy_backend_raises:" + fn, error=repr(ys))
            return
        row = []
        for name, y in zip(SPECS[fn]["out"], ys):
            v = sp.N(sp.sympify(y), 40)
            re, im = v.as_real_imag()
            if not (re.is_Float or re.is_Rational) or not (abs(im) <= 1e-30 * S):
                ctx.fail("sympy_value_not_real:%s:%s" % (fn, name), value=str(v)[:120], regime=regime)
                return
            row.append(float(re))
        ref.append(row)

    # One time array and one set of parameter objects for the whole case, as a caller fitting a curve has them: every
    # array evaluation gets the *same* ndarray (twice per backend: 'array', 'array_again'), and after each call the
    # array arguments (t, 0-d array parameters) must still hold what they held before.
    t_arr = np.array(tsf)
    t_snap = t_arr.copy()
    pv_snap = {k: v.copy() for k, v in pv.items() if isinstance(v, np.ndarray)}

    def arguments_intact(bname, mode):
        ok = True
        if t_arr.dtype != t_snap.dtype or t_arr.shape != t_snap.shape or not np.array_equal(t_arr, t_snap):
            ctx.fail("argument_modified_in_place:%s" % fn, argument="t", backend=bname, mode=mode,
                     before=[float(x) for x in t_snap], after=[float(x) for x in np.ravel(t_arr)][:8])
            ok = False
        for k, snap in pv_snap.items():
            v = pv[k]
            if not isinstance(v, np.ndarray) or v.dtype != snap.dtype or v.shape != snap.shape or not np.array_equal(v, snap):
                ctx.fail("argument_modified_in_place:%s" % fn, argument=k, backend=bname, mode=mode, before=float(snap),
                         after=repr(v)[:60], types=tdesc)
                ok = False
        return ok

    if SPECS[fn]["backend"]:
        # the sympy backend fed with floats (sympy Float arithmetic, 15 digits).  Above the CSTR steady state sympy's
        # atanh runs through the complex branch and leaves an imaginary rounding residue (~1e-17) on a mathematically
        # real value: judged with the same tolerance as the value itself
        for tf, tv, rrow in zip(tsf, tsv, ref):
            ys = sut(call, fn, tv, pv, backend="sympy")
            if not arguments_intact("sympy", "scalar"):
                return
            if is_err(ys):
                ctx.fail("sympy_backend_raises:" + fn, error=repr(ys), arguments="float" if not types else "typed",
                         types=tdesc, t_type=t_type)
                if types:
                    break       # typed parameters: show what the numeric backends do with the same objects as well
                return
            for name, y, r in zip(SPECS[fn]["out"], ys, rrow):
                try:
                    v = complex(sp.N(sp.sympify(y), 15))
                except (TypeError, ValueError) as e:
                    ctx.fail("sympy_value_not_numeric:%s:%s" % (fn, name), value=str(y)[:120], error=repr(e)[:100])
                    return
                if not (abs(v.imag) <= BE_TOL * S and abs(v.real - r) <= BE_TOL * S):
                    ctx.fail("backend_value:%s:%s" % (fn, name), backend="sympy", spec="sympy_float", mode="scalar",
                             t=tf, got=str(v), reference=r, scale=S, regime=regime, types=tdesc, t_type=t_type)
                    return
    backends = BACKENDS if SPECS[fn]["backend"] else ["plain"]
    for bname in backends:
        modes = ["scalar"] if _family(bname) == "math" else ["scalar", "array", "array_again"]
        if bname == "plain":
            modes = ["scalar", "array", "array_again"]
        t_arr[...] = t_snap           # (a previous backend's damage is reported once, not inherited)
        if has_fraction and (bname == "plain" or _family(bname) == "numpy"):
            # numpy ufuncs do not take Fraction objects (np.sqrt(Fraction(..)), np.exp of an object array): Fraction
            # parameters are in the domain of the math and sympy backends only (see ASSUMPTIONS)
            ctx.label("numpy_family_not_called:Fraction_parameter")
            continue
        for mode in modes:
            with warnings.catch_warnings():
                warnings.simplefilter("ignore")       # numpy RuntimeWarnings (invalid value in arctanh) are judged via the nan
                if mode.startswith("array"):
                    got = sut(call, fn, t_arr, pv, backend=_backend_obj(bname) if bname != "plain" else None)
                    rows = got
                    if not is_err(got):
                        try:
                            cols = [np.broadcast_to(np.asarray(g, dtype=float), (len(tsf),)) for g in got]
                            rows = [[float(c[i]) for c in cols] for i in range(len(tsf))]
                        except (TypeError, ValueError) as e:
                            ctx.fail("array_time_not_supported:%s" % fn, backend=bname, error=repr(e)[:200])
                            return
                else:
                    rows = []
                    for tv in tsv:
                        got = sut(call, fn, tv, pv, backend=_backend_obj(bname) if bname != "plain" else None)
                        if is_err(got):
                            rows = got
                            break
                        try:
                            rows.append([float(g) for g in got])
                        except (TypeError, ValueError) as e:
                            ctx.fail("value_not_a_real_number:%s" % fn, backend=bname, error=repr(e)[:200])
                            return
            fam = _family(bname) if bname != "plain" else "numpy"
            arguments_intact(bname, mode)
            if is_err(rows):
                how = "%s: %s" % (rows.type, rows.msg[:60])
                ctx.fail("real_backend_fails", fn=fn, backend=fam, spec=bname, mode=mode, regime=regime, how=how,
                         signature="%s:%s" % (fam, how), types=tdesc, t_type=t_type)
                continue
            bad = [(i, j) for i in range(len(tsf)) for j in range(nout) if not math.isfinite(rows[i][j])]
            if bad:
                ctx.fail("real_backend_fails", fn=fn, backend=fam, spec=bname, mode=mode, regime=regime, how="nan",
                         signature="%s:nan" % fam, t=tsf[bad[0][0]], output=SPECS[fn]["out"][bad[0][1]], types=tdesc,
                         t_type=t_type)
                continue
            for i in range(len(tsf)):
                for j in range(nout):
                    # double-precision evaluation at a point inside 8 characteristic times (no exp overflow) or, for
                    # 'late_times', where every exponential has decayed (measured there: <= 3e-15*S).  The
                    # closed forms add and subtract terms of the size of the concentration inputs (sum S); the worst
                    # conditioned form is binary_rev, whose numerator terms are ~ kb/(kf*S) times larger than the
                    # result (<= 3.4e5 on the domain), i.e. an error <= ~4e-11*S; measured over the corners
                    # {0.01, 0.37, 100}^n of the domain: <= 2.1e-11*S (binary_rev), <= 4e-13*S (binary_irrev_cstr),
                    # <= 2e-15*S (others).  1e-9*S leaves a factor 50 and is 9 orders below any formula error.
                    if not (abs(rows[i][j] - ref[i][j]) <= BE_TOL * S):
                        ctx.fail("backend_value:%s:%s" % (fn, SPECS[fn]["out"][j]), backend=fam, spec=bname, mode=mode,
                                 t=tsf[i], got=rows[i][j], reference=ref[i][j], scale=S, regime=regime, types=tdesc,
                                 t_type=t_type)
                        return


# ---------------------------------------------------------------------------------------------------------------------
# generators
# ---------------------------------------------------------------------------------------------------------------------
def _dec(m, e):
    return Fraction(m) * Fraction(10) ** e


# positive rationals over the four decades [0.01, 100]; shrinks to 1
pos = st.one_of(st.builds(Fraction, st.integers(1, 100), st.integers(1, 100)),
                st.builds(_dec, st.integers(10, 99), st.integers(-3, 0)),
                st.builds(_dec, st.integers(101, 999), st.integers(-4, -1)))
RHOS = [Fraction(1, 2), Fraction(2), Fraction(9, 10), Fraction(11, 10), Fraction(1, 10), Fraction(10),
        Fraction(1, 100), Fraction(100), Fraction(97, 100), Fraction(103, 100)]
TAUS = [Fraction(1), Fraction(0), Fraction(1, 8), Fraction(1, 2), Fraction(2), Fraction(4), Fraction(8),
        Fraction(1, 100)]


def _sig3(x):
    """x > 0 (float) rounded to three significant digits, as a Fraction."""
    e = int(math.floor(math.log10(x)))
    m = int(round(x / 10.0 ** (e - 2)))
    return Fraction(m) * Fraction(10) ** (e - 2)


@st.composite
def param_sets(draw, fns=FN_ORDER):
    fn = draw(st.sampled_from(fns))
    p = {}
    if fn == "dimerization_irrev":
        p["kf"] = draw(pos)
        p["initial_C"] = draw(pos)
        if draw(st.integers(0, 3)) == 3:
            p["t0"] = draw(pos)
        if draw(st.integers(0, 3)) >= 2:
            p["P0"] = draw(pos)
    elif fn in ("pseudo_irrev", "pseudo_rev", "binary_irrev", "binary_rev"):
        p["kf"] = draw(pos)
        if fn.endswith("_rev"):
            p["kb"] = draw(pos)
        p["prod"] = Fraction(0) if draw(st.integers(0, 7)) == 7 else draw(pos)
        p["minor"] = draw(pos)
        q = draw(st.one_of(st.sampled_from([Fraction(1), Fraction(1, 100), Fraction(1, 10), Fraction(10)]), pos))
        p["major"] = p["minor"] * (1 + q)
    else:
        p["k"] = draw(pos)
        p["fr"] = draw(pos)
        p["fv"] = draw(pos)
        p["p"] = Fraction(0) if draw(st.integers(0, 7)) == 7 else draw(pos)
        p["fp"] = Fraction(0) if draw(st.integers(0, 7)) == 7 else draw(pos)
        if fn == "unary_irrev_cstr" or draw(st.integers(0, 3)) == 3:
            p["r"] = draw(pos)
        else:
            # both sides of the steady state A_ss = (-fv + sqrt(fv^2 + 8 k fr fv)) / (4 k)
            k, fr, fv = float(p["k"]), float(p["fr"]), float(p["fv"])
            a_ss = 2 * fr * fv / (fv + math.sqrt(fv * fv + 8 * k * fr * fv))      # cancellation-free form
            p["r"] = draw(st.sampled_from(RHOS)) * _sig3(a_ss)
        if fn == "binary_irrev_cstr" and draw(st.integers(0, 3)) != 0:
            p["n"] = Fraction(draw(st.integers(1, 4)))
    return fn, p


def _time(draw, fn, p, free_ok):
    lam = rate_scale(fn, p)
    if free_ok and draw(st.integers(0, 4)) == 4:
        dt = draw(pos)
    else:
        tau = draw(st.one_of(st.sampled_from(TAUS), st.builds(Fraction, st.integers(0, 64), st.just(8))))
        dt = tau / lam
    return p.get("t0", Fraction(0)) + dt


@st.composite
def ode_cases(draw):
    fn, p = draw(param_sets())
    t = _time(draw, fn, p, True)
    return {"fn": fn, "p": {k: fstr(v) for k, v in p.items()}, "t": fstr(t)}


@st.composite
def initial_cases(draw):
    fn, p = draw(param_sets())
    be = draw(st.sampled_from(["sympy", "sympy_mod"]))
    return {"fn": fn, "p": {k: fstr(v) for k, v in p.items()}, "be": be}


@st.composite
def backend_cases(draw):
    fn, p = draw(param_sets())
    n = draw(st.integers(1, 3))
    ts = [p.get("t0", Fraction(0))] + [_time(draw, fn, p, False) for _ in range(n)]
    return {"fn": fn, "p": {k: fstr(v) for k, v in p.items()}, "ts": [fstr(t) for t in ts]}


# late times: tau = (t - t0) * characteristic rate.  Probed on the unchanged tree (700 parameter sets, numpy and math,
# tau in LATE_TAUS): six functions evaluate finitely and within 3e-15 * S of the 40-digit reference everywhere (they only
# contain decaying exponentials, which underflow to 0).  binary_irrev_cstr multiplies exp(+fv*t) by exp(-fv*t): for
# fv*t > 709.78 the math backend raises OverflowError and numpy gives inf*0 = nan - today, on the unchanged tree - so for
# that function only tau <= 300 is generated (fv*t <= tau, because the characteristic rate is >= fv).
LATE_TAUS = [30, 300, 3000, 10000]
LATE_TAU_MAX = {"binary_irrev_cstr": 300}


@st.composite
def late_cases(draw):
    fn, p = draw(param_sets())
    lam = rate_scale(fn, p)
    taus = [x for x in LATE_TAUS if x <= LATE_TAU_MAX.get(fn, LATE_TAUS[-1])]
    picked = draw(st.lists(st.sampled_from(taus), min_size=1, max_size=3, unique=True))
    t0 = p.get("t0", Fraction(0))
    return {"fn": fn, "p": {k: fstr(v) for k, v in p.items()}, "ts": [fstr(t0)] + [fstr(t0 + Fraction(x) / lam) for x in picked]}


ipos = st.integers(1, 100)        # integral parameter value: every parameter type can carry it
TYPE_ORDER = ["float", "int", "np.int64", "np.float64", "0d_int64", "0d_float64", "Fraction"]   # first = the plain case


@st.composite
def integral_param_sets(draw, fns=FN_ORDER):
    """Same shapes as param_sets, all values integers: 1..100 (initial product / product feed may be 0),
    major = minor + d with d in 1..1000, r free or next to rho*A_ss (both sides of the steady state of 2 A -> n B)."""
    fn = draw(st.sampled_from(fns))
    p = {}
    zero_or = lambda: Fraction(0) if draw(st.integers(0, 7)) == 7 else Fraction(draw(ipos))   # noqa: E731
    if fn == "dimerization_irrev":
        p["kf"] = Fraction(draw(ipos))
        p["initial_C"] = Fraction(draw(ipos))
        if draw(st.integers(0, 3)) == 3:
            p["t0"] = Fraction(draw(ipos))
        if draw(st.integers(0, 3)) >= 2:
            p["P0"] = Fraction(draw(ipos))
    elif fn in ("pseudo_irrev", "pseudo_rev", "binary_irrev", "binary_rev"):
        p["kf"] = Fraction(draw(ipos))
        if fn.endswith("_rev"):
            p["kb"] = Fraction(draw(ipos))
        p["prod"] = zero_or()
        p["minor"] = Fraction(draw(ipos))
        # major = minor + d: q = d/minor >= 1/100 as in param_sets, and major is in general not a multiple of minor
        p["major"] = p["minor"] + draw(st.one_of(ipos, st.integers(101, 1000)))
    else:
        p["k"] = Fraction(draw(ipos))
        p["fr"] = Fraction(draw(ipos))
        p["fv"] = Fraction(draw(ipos))
        p["p"] = zero_or()
        p["fp"] = zero_or()
        if fn == "unary_irrev_cstr" or draw(st.integers(0, 3)) == 3:
            p["r"] = Fraction(draw(ipos))
        else:
            # the integer next to rho * A_ss: both sides of the steady state (see param_sets)
            k, fr, fv = float(p["k"]), float(p["fr"]), float(p["fv"])
            a_ss = 2 * fr * fv / (fv + math.sqrt(fv * fv + 8 * k * fr * fv))
            p["r"] = Fraction(max(1, int(round(float(draw(st.sampled_from(RHOS))) * a_ss))))
        if fn == "binary_irrev_cstr" and draw(st.integers(0, 3)) != 0:
            p["n"] = Fraction(draw(st.integers(1, 4)))
    return fn, p


@st.composite
def typed_backend_cases(draw):
    """backend_cases plus a type per parameter.  Integer types are offered wherever the value is integral (always for the
    integral parameter sets, 2 of 3 cases), float-like types and Fraction everywhere."""
    fn, p = draw(integral_param_sets()) if draw(st.integers(0, 2)) < 2 else draw(param_sets())
    n = draw(st.integers(1, 3))
    ts = [p.get("t0", Fraction(0))] + [_time(draw, fn, p, False) for _ in range(n)]
    names = [k for k in p if k != "n"]
    allowed = {k: (TYPE_ORDER if float(p[k]) == int(float(p[k])) else ANY_TYPES) for k in names}
    if draw(st.booleans()):       # one type for all parameters (of those every value admits)
        common = [t for t in TYPE_ORDER if all(t in allowed[k] for k in names)]
        one = draw(st.sampled_from(common))
        types = {k: one for k in names}
    else:
        # Fraction switches the numpy family off for the whole case: admit it in 1 of 4 mixed cases only
        with_fraction = draw(st.integers(0, 3)) == 3
        types = {k: draw(st.sampled_from([t for t in allowed[k] if with_fraction or t != "Fraction"])) for k in names}
    return {"fn": fn, "p": {k: fstr(v) for k, v in p.items()}, "ts": [fstr(t) for t in ts], "types": types,
            "t_type": draw(st.sampled_from(T_TYPES))}


SUBCHECKS = [
    SubCheck("ode", check_ode, strategy=ode_cases(), quick=1500, thorough=60000,
             rule="d/dt of the sympy-backend expression minus the hand-written mechanism right-hand side at rational "
                  "points, 50 digits; same expression at t = 0 (t0) equals the initial concentration",
             tolerances={"residual": "|res| <= 1e-30 * (|dy/dt| + sum |rhs terms|) at 50 digits",
                         "initial": "|y(0) - y0| <= 1e-30 * sum of concentration inputs at 50 digits"}),
    SubCheck("initial", check_initial, strategy=initial_cases(), quick=400, thorough=8000,
             rule="fn(0, exact rationals, backend='sympy' | sympy module) == stated initial concentration, exactly "
                  "(expand/simplify to 0; a 60-digit evaluation only if sympy cannot reduce the algebraic number)",
             tolerances={"initial": "exact; numeric fallback 1e-45 * concentration scale at 60 digits"}),
    SubCheck("symbolic", check_symbolic, enumerate=enum_symbolic,
             rule="thorough tier only, report only: sympy.simplify of the fully symbolic residual and of y(0) - y0 for "
                  "each of the seven functions (labels simplify_*_zero / NOT_reduced / timeout); never a violation"),
    SubCheck("backends", check_backends, strategy=backend_cases(), quick=500, thorough=12000,
             rule="numpy ('numpy', module, default None; scalar and array t) and math ('math', module) against the "
                  "sympy backend evaluated exactly (40 digits) at the same binary-float point; t = 0 and 1-3 times "
                  "within 8 characteristic times",
             tolerances={"backend_value": "|got - ref| <= 1e-9 * (sum of concentration inputs [* (1+n) for 2A->nB])"}),
    SubCheck("late_times", check_backends, strategy=late_cases(), quick=400, thorough=10000,
             rule="'backends' at t = 0 and 1-3 late times tau in {30, 300, 3000, 10000} characteristic times (the reaction "
                  "is complete, the value is the plateau / steady state); binary_irrev_cstr only tau <= 300 (it "
                  "overflows beyond fv*t = 709.78 on the unchanged tree)",
             tolerances={"backend_value": "|got - ref| <= 1e-9 * (sum of concentration inputs [* (1+n) for 2A->nB])"}),
    SubCheck("backend_types", check_backends, strategy=typed_backend_cases(), quick=800, thorough=20000,
             rule="'backends' with a type per parameter: int / numpy.int64 / 0-d int64 array (integral values), float / "
                  "numpy.float64 / 0-d float64 array / Fraction (any value), one type for all or drawn per parameter; "
                  "time as float, numpy.float64 or (t = 0) int; Fraction parameters with math and sympy only; integral "
                  "parameter sets 1..100 in 2 of 3 cases; same reference (sympy, exact) and tolerance",
             tolerances={"backend_value": "|got - ref| <= 1e-9 * (sum of concentration inputs [* (1+n) for 2A->nB])"}),
]

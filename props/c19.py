# -*- coding: utf-8 -*-
"""C19 - physical-chemistry relations give unit-independent values in their valid ranges.

Sub-checks
  water     water_density / water_viscosity / water_self_diffusion_coefficient / water_permittivity:
            plain call == units call (documented or scaled units) after conversion with the own SI table;
            result dimension; temperature-range warning iff T outside the documented range; none with warn=False
  sulfuric  sulfuric_acid_density: same clauses, warnings for temperature and mass fraction separately
  dfc       density_from_concentration: unit modes agree, result inverts sulfuric_acid_density, silent by default
            returns iff the documented fixed-point iteration (re-run here) needs <= maxiter steps (default 10, 3..12, 300)
  schumpe   lg_solubility_ratio = sum((h_gas + h_ion) * c) with c taken physically; dimensionless
  henry     Henry / HenryWithUnits vs H*exp(Tderiv*(1/T - 1/T0)); get_c_at_T_and_P / get_P_at_T_and_c and their round trip
  nernst    nernst_potential vs R*T/(z*F)*ln(c_out/c_in) (ratio taken physically), antisymmetry, volt dimension
  mobility  electrical_mobility_from_D vs z*e*D/(k_B*T), dimension A s2/kg
  shape     generated pairs: viscosity/permittivity fall with T, diffusivity rises, density rises below 3.9 C and falls
            above 4.1 C, permittivity rises with P, acid density rises with mass fraction
  grid      the same on dense grids over the whole validity ranges + location/value of the density maximum
  anchors   published values (Tanaka, Korson table II, Holz, Bradley-Pitzer, CRC 20 C acid densities, repo-quoted values)
  edges     float-exact range boundaries: inclusive (no warning), one ulp beyond warns
  options   optional arguments of the correlations: err_mult of the self-diffusion coefficient, a= of the density,
            U= of the permittivity - plain == units == the published closed form evaluated here; warnings unchanged
  arrays    one call with a numpy array of 2..8 temperatures (below / inside / above the range, mixtures included):
            every in-range element equals the scalar call; temperature warning iff some element is outside the range
"""
import math
import os
import re
import warnings
from fractions import Fraction

from hypothesis import strategies as st

from vlib import env  # noqa  (sys.path)
from vlib.harness import SubCheck, sut, is_err

PROPERTY = "C19"
LEVEL = "exploration"
RULE = ("Every case names a function, its inputs as plain floats in the documented units (K, bar, M, atm, m2/s, mol/m3, "
        "kg/mol), a call mode (plain numbers / units=default_units) and the unit in which each input is handed over "
        "(K|mK, bar|Pa|atm, M|mM|uM|mol/m3, m2/s|cm2/s, kg/mol|g/mol, M/atm|M/bar|mM/atm|mol/m3/Pa), optionally a "
        "constants object and warn=False.  Temperatures are drawn inside the documented range, within 5 % of a boundary "
        "(inside or outside) and up to 20 % outside, never closer than 1e-6 K to a boundary (exact boundaries are the "
        "enumerated 'edges').  Results are converted to SI with the module's own factor table and compared with the "
        "plain-number call and, for the closed-form relations, with the formula evaluated here.  Non-trivial = at least "
        "one input handed over in a non-documented (scaled) unit, or a temperature/mass fraction within 5 % of a range "
        "boundary; for shape/grid/anchors/edges every case.")
ASSUMPTIONS = [
    "own SI factor table below (decimal factors from the unit definitions; atm = 101325 Pa; cP = 1e-3 Pa s)",
    "2019 SI exact constants R, F, k_B, e as reference; chempy/quantities carry CODATA 2006/2014 values that differ by "
    "< 2e-6 relative, compared with 1e-5",
    "anchor values: Tanaka 2001 / CIPM water densities (+-0.01 kg/m3), Korson 1969 table II as quoted by the repo test "
    "(+-1e-3 cP), Holz 2000 table (1 %), permittivity 87.9/80.2/78.4/69.9/55.5 at 0/20/25/50/100 C (0.5 %), CRC 20 C "
    "sulfuric acid densities (0.3 %), Schumpe 1993 h(Na+, K+, Cl-, OH-, H+, O2, CO2)",
    "documented validity ranges: density 0-40 C, viscosity 0-100 C, diffusivity 273.15-373.15 K, permittivity 0-350 C "
    "(pressures kept in 0.5-1000 bar where no pressure warning is documented), acid density 0-50 C and w in 0.1-0.9",
    "reading the magnitude and the {unit: exponent} bookkeeping of a quantities.Quantity result is trusted",
]

# ---------------------------------------------------------------------------------------------------------------------
# own SI table (no `quantities` involved in any reference value)
# ---------------------------------------------------------------------------------------------------------------------
NDIM = 6  # length, mass, time, current, temperature, amount


def _dv(L=0, M=0, T=0, I=0, TH=0, N=0):  # noqa: E741
    return (L, M, T, I, TH, N)


_ENERGY = _dv(M=1, L=2, T=-2)
_PRESS = _dv(M=1, L=-1, T=-2)
_CONC = _dv(N=1, L=-3)

# key: (attribute of chempy.units.default_units, `name` of the quantities unit, SI factor, dimension)
PRIM = {
    "m": ("metre", "meter", "1", _dv(L=1)),
    "dm": ("decimetre", "decimetre", "1e-1", _dv(L=1)),
    "cm": ("centimetre", "centimeter", "1e-2", _dv(L=1)),
    "kg": ("kilogram", "kilogram", "1", _dv(M=1)),
    "g": ("gram", "gram", "1e-3", _dv(M=1)),
    "s": ("second", "second", "1", _dv(T=1)),
    "A": ("ampere", "ampere", "1", _dv(I=1)),
    "K": ("kelvin", "Kelvin", "1", _dv(TH=1)),
    "mK": ("mK", "millikelvin", "1e-3", _dv(TH=1)),
    "mol": ("mol", "mole", "1", _dv(N=1)),
    "Pa": ("pascal", "pascal", "1", _PRESS),
    "bar": ("bar", "bar", "1e5", _PRESS),
    "atm": ("atm", "standard_atmosphere", "101325", _PRESS),
    "M": ("molar", "molar", "1e3", _CONC),
    "mM": ("millimolar", "millimolar", "1", _CONC),
    "uM": ("micromolar", "micromolar", "1e-3", _CONC),
    "L": ("litre", "liter", "1e-3", _dv(L=3)),
    "J": ("joule", "joule", "1", _ENERGY),
    "N": ("newton", "newton", "1", _dv(M=1, L=1, T=-2)),
    "C": ("coulomb", "coulomb", "1", _dv(I=1, T=1)),
    "V": ("volt", "volt", "1", _dv(M=1, L=2, T=-3, I=-1)),
    "cP": ("centipoise", "centipoise", "1e-3", _dv(M=1, L=-1, T=-1)),
}
# 2019 SI (exact); used for results that carry a `quantities` constant as a unit (R*K/F, e*cm**2/(k*s*mK))
R_GAS = 8.314462618
FARADAY = 96485.33212
K_B = 1.380649e-23
E_CHARGE = 1.602176634e-19
CONSTS = {
    "molar_gas_constant": (R_GAS, _dv(M=1, L=2, T=-2, TH=-1, N=-1)),
    "Faraday_constant": (FARADAY, _dv(I=1, T=1, N=-1)),
    "Boltzmann_constant": (K_B, _dv(M=1, L=2, T=-2, TH=-1)),
    "elementary_charge": (E_CHARGE, _dv(I=1, T=1)),
}
BY_QNAME = {v[1]: (float(Fraction(v[2])), v[3]) for v in PRIM.values()}
BY_QNAME.update(CONSTS)

# unit products in which inputs are handed over
COMPOSITE = {
    "mol/m3": [("mol", 1), ("m", -3)],
    "m2/s": [("m", 2), ("s", -1)],
    "cm2/s": [("cm", 2), ("s", -1)],
    "kg/mol": [("kg", 1), ("mol", -1)],
    "g/mol": [("g", 1), ("mol", -1)],
    "kg/m3": [("kg", 1), ("m", -3)],
    "g/cm3": [("g", 1), ("cm", -3)],
    "M/atm": [("M", 1), ("atm", -1)],
    "M/bar": [("M", 1), ("bar", -1)],
    "mM/atm": [("mM", 1), ("atm", -1)],
    "mol/m3/Pa": [("mol", 1), ("m", -3), ("Pa", -1)],
}


def _parts(unit):
    return COMPOSITE.get(unit) or [(unit, 1)]


def si_factor(unit):
    """Exact SI factor of an input unit (Fraction)."""
    f = Fraction(1)
    for p, e in _parts(unit):
        f *= Fraction(PRIM[p][2]) ** e
    return f


def pq_unit(unit):
    from chempy.units import default_units as u
    res = None
    for p, e in _parts(unit):
        o = getattr(u, PRIM[p][0])
        o = o if e == 1 else o ** e
        res = o if res is None else res * o
    return res


def to_q(value, doc_unit, unit):
    """`value` (float, in doc_unit) as a Quantity written in `unit`."""
    ratio = si_factor(doc_unit) / si_factor(unit)
    return (value * float(ratio)) * pq_unit(unit)


def observe(obj):
    """(SI magnitude, dimension vector, used_fallback) of a result, converted with the table above."""
    if not hasattr(obj, "dimensionality"):
        return float(obj), (0.0,) * NDIM, False
    mag = float(obj.magnitude)
    dim = [0.0] * NDIM
    fallback = False
    for uq, e in obj.dimensionality.items():
        ent = BY_QNAME.get(getattr(uq, "name", None))
        if ent is None:       # a unit outside the table: let quantities reduce it to base units, then use the table
            fallback = True
            s = uq.simplified
            mag *= float(s.magnitude) ** float(e)
            for bq, be in s.dimensionality.items():
                f, dv = BY_QNAME[bq.name]
                mag *= f ** float(be * e)
                for i in range(NDIM):
                    dim[i] += dv[i] * float(be * e)
            continue
        f, dv = ent
        mag *= f ** float(e)
        for i in range(NDIM):
            dim[i] += dv[i] * float(e)
    return mag, tuple(dim), fallback


def observe_array(obj):
    """([SI magnitudes], dimension vector, used_fallback) of an array-valued result: the unit part goes through
    `observe` (as a quantity of magnitude 1), the numbers are multiplied by the resulting factor."""
    import numpy as np
    if not hasattr(obj, "dimensionality"):
        return [float(x) for x in np.ravel(np.asarray(obj, dtype=float))], (0.0,) * NDIM, False
    factor, dim, fallback = observe(obj.units)
    return [float(x) * factor for x in np.ravel(np.asarray(obj.magnitude, dtype=float))], dim, fallback


def same_dim(got, want):
    # exponents are small integers (or 2.063 - 2.063 for the diffusivity): 1e-9 absorbs float addition noise only
    return all(abs(g - w) <= 1e-9 for g, w in zip(got, want))


DIM_DENSITY = _dv(M=1, L=-3)
DIM_VISC = _dv(M=1, L=-1, T=-1)
DIM_DIFF = _dv(L=2, T=-1)
DIM_NONE = _dv()
DIM_VOLT = _dv(M=1, L=2, T=-3, I=-1)
DIM_MOB = _dv(M=-1, T=2, I=1)
DIM_HENRY = tuple(a - b for a, b in zip(_CONC, _PRESS))

# relative tolerance between two call modes of the same function: both evaluate the same float formula, the inputs
# differ by one rounding of the unit conversion (<= 2.3e-16 relative, amplified by at most |d ln f / d ln x| ~ 50) and
# quantities adds a handful of rescalings: 1e-9 leaves > 4 decades of slack and is far below any unit slip (>= 1.3 %).
REL_MODE = 1e-9
# closed-form relations against the 2019 SI constants: CODATA 2006/2014 values in chempy/quantities differ < 2e-6
REL_CONST = 1e-5


def close(a, b, rel, abs_=0.0):
    return math.isfinite(a) and math.isfinite(b) and abs(a - b) <= rel * max(abs(a), abs(b)) + abs_


# ---------------------------------------------------------------------------------------------------------------------
# calling chempy, looking only at chempy's own UserWarnings
# ---------------------------------------------------------------------------------------------------------------------
def _fn(name):
    if name == "water_density":
        from chempy.properties.water_density_tanaka_2001 import water_density as f
    elif name == "water_viscosity":
        from chempy.properties.water_viscosity_korson_1969 import water_viscosity as f
    elif name == "water_self_diffusion_coefficient":
        from chempy.properties.water_diffusivity_holz_2000 import water_self_diffusion_coefficient as f
    elif name == "water_permittivity":
        from chempy.properties.water_permittivity_bradley_pitzer_1979 import water_permittivity as f
    elif name == "sulfuric_acid_density":
        from chempy.properties.sulfuric_acid_density_myhre_1998 import sulfuric_acid_density as f
    elif name == "density_from_concentration":
        from chempy.properties.sulfuric_acid_density_myhre_1998 import density_from_concentration as f
    elif name == "lg_solubility_ratio":
        from chempy.properties.gas_sol_electrolytes_schumpe_1993 import lg_solubility_ratio as f
    elif name == "nernst_potential":
        from chempy.electrochemistry.nernst import nernst_potential as f
    elif name == "electrical_mobility_from_D":
        from chempy.einstein_smoluchowski import electrical_mobility_from_D as f
    else:
        raise KeyError(name)
    return f


def _du():
    from chempy.units import default_units
    return default_units


def _dc():
    from chempy.units import default_constants
    return default_constants


def call(fn, *a, **k):
    """(result | SutError, [messages of UserWarnings raised from files of the tree under test])."""
    import numpy as np
    with warnings.catch_warnings(record=True) as rec:
        warnings.simplefilter("always")
        with np.errstate(all="ignore"):
            res = sut(fn, *a, **k)
    own = [str(w.message) for w in rec
           if w.category is UserWarning and os.path.abspath(w.filename).startswith(env.REPO + os.sep)]
    return res, own


def kinds(msgs):
    out = set()
    for m in msgs:
        if re.search("range", m, re.I):
            if re.search("temperature", m, re.I):
                out.add("T")
            elif re.search("fraction", m, re.I):
                out.add("w")
            elif re.search("pressure", m, re.I):
                out.add("P")
            else:
                out.add("other")
        else:
            out.add("other")
    return out


def raised(ctx, res, what, **detail):
    ctx.fail("raises:" + res.type, what=what, message=res.msg, **detail)


def judge_warnings(ctx, msgs, warn, want, what):
    """want: set of range kinds that must be reported ({'T'}, {'w'}, ...) when warn is on."""
    got = kinds(msgs)
    if not warn:
        ctx.require(not msgs, "warning_with_warn_False", what=what, messages=msgs)
        return
    for k in sorted(want - got):
        ctx.fail("range_warning_missing:" + k, what=what, messages=msgs)
    for k in sorted(got - want):
        ctx.fail("range_warning_spurious:" + k, what=what, messages=msgs)


# ---------------------------------------------------------------------------------------------------------------------
# generators
# ---------------------------------------------------------------------------------------------------------------------
EXCL = 1e-6        # K: no generated temperature closer than this to a boundary


def in_range_values(lo, hi, lo_out=None, lo_in=None, hi_in=None, hi_out=None, out_lo_limit=None, out_hi_limit=None,
                    digits=7):
    """Values over [lo, hi] and up to 20 % of the width outside.  Returns (value, class) pairs; class in
    in / edge_in / edge_out / out.  lo_out < lo_in are the closest generated values around the lower boundary."""
    width = hi - lo
    lo_out = lo - EXCL if lo_out is None else lo_out
    lo_in = lo + EXCL if lo_in is None else lo_in
    hi_in = hi - EXCL if hi_in is None else hi_in
    hi_out = hi + EXCL if hi_out is None else hi_out
    out_lo_limit = lo - 0.2 * width if out_lo_limit is None else out_lo_limit
    out_hi_limit = hi + 0.2 * width if out_hi_limit is None else out_hi_limit

    def mk(t):
        cls, upper, frac = t
        if cls == "in":
            v = lo + 0.05 * width + frac * 0.9 * width
            v = min(max(v, lo_in), hi_in)
        elif cls == "edge_in":
            v = (hi - frac * 0.05 * width) if upper else (lo + frac * 0.05 * width)
            v = min(max(v, lo_in), hi_in)
        elif cls == "edge_out":
            v = (hi + frac * 0.05 * width) if upper else (lo - frac * 0.05 * width)
            v = min(max(v, hi_out), out_hi_limit) if upper else max(min(v, lo_out), out_lo_limit)
        else:
            v = (hi + (0.05 + 0.15 * frac) * width) if upper else (lo - (0.05 + 0.15 * frac) * width)
            v = min(max(v, hi_out), out_hi_limit) if upper else max(min(v, lo_out), out_lo_limit)
        v = round(v, digits)
        if cls in ("in", "edge_in"):
            v = min(max(v, lo_in), hi_in)
        elif upper:
            v = max(v, hi_out)
        else:
            v = min(v, lo_out)
        return v

    return st.tuples(st.sampled_from(["in", "edge_in", "edge_out", "out"]), st.booleans(),
                     st.floats(0.0, 1.0, allow_nan=False)).map(mk)


def classify(v, lo, hi):
    width = hi - lo
    if v < lo or v > hi:
        return "edge_out" if (lo - v <= 0.05 * width and v - hi <= 0.05 * width) else "out"
    return "edge_in" if (v - lo <= 0.05 * width or hi - v <= 0.05 * width) else "in"


def log_uniform(lo_exp, hi_exp, digits=6):
    return st.floats(lo_exp, hi_exp, allow_nan=False).map(lambda x: float("%.*g" % (digits, 10.0 ** x)))


T_UNITS = ["K", "mK"]
P_UNITS = ["bar", "Pa", "atm"]
C_UNITS = ["M", "mM", "mol/m3", "uM"]

WATER = {
    "water_density": {"lo": 273.15, "hi": 313.15, "dim": DIM_DENSITY, "doc": 1.0, "T0": True},
    "water_viscosity": {"lo": 273.15, "hi": 373.15, "dim": DIM_VISC, "doc": 1e-3, "T0": False},
    "water_self_diffusion_coefficient": {"lo": 273.15, "hi": 373.15, "dim": DIM_DIFF, "doc": 1.0, "T0": False},
    "water_permittivity": {"lo": 273.15, "hi": 623.15, "dim": DIM_NONE, "doc": 1.0, "T0": False},
}
WATER_FNS = ["water_density", "water_viscosity", "water_self_diffusion_coefficient", "water_permittivity"]


@st.composite
def water_cases(draw):
    fn = draw(st.sampled_from(WATER_FNS))
    spec = WATER[fn]
    case = {"fn": fn, "T": draw(in_range_values(spec["lo"], spec["hi"])),
            "mode": draw(st.sampled_from(["plain", "units", "units"])), "units": {"T": "K"},
            "warn": draw(st.sampled_from([True, True, False]))}
    units = case["mode"] == "units"
    if units:
        case["units"]["T"] = draw(st.sampled_from(T_UNITS))
    if spec["T0"] and draw(st.integers(0, 3)) == 3:
        case["T0"] = 273.15
        case["units"]["T0"] = draw(st.sampled_from(T_UNITS)) if units else "K"
    if fn == "water_permittivity" and draw(st.integers(0, 3)) > 0:
        case["P"] = draw(log_uniform(-0.3, 3.0))
        case["units"]["P"] = draw(st.sampled_from(P_UNITS)) if units else "bar"
    return case


@st.composite
def sulfuric_cases(draw):
    # docstring: 273 <= T <= 323, warning text and code: 0-50 degC (273.15-323.15): the 0.15 K strips where the two
    # disagree are not generated (closest values 272.99 / 273.16 and 322.99 / 323.16)
    T = draw(in_range_values(273.15, 323.15, lo_out=272.99, lo_in=273.16, hi_in=322.99, hi_out=323.16))
    w = draw(in_range_values(0.1, 0.9, out_lo_limit=0.001, out_hi_limit=1.0, digits=9))
    case = {"fn": "sulfuric_acid_density", "w": w, "T": T, "mode": draw(st.sampled_from(["plain", "units", "units"])),
            "units": {"T": "K"}, "warn": draw(st.sampled_from([True, True, False]))}
    units = case["mode"] == "units"
    if units:
        case["units"]["T"] = draw(st.sampled_from(T_UNITS))
    if draw(st.integers(0, 3)) == 3:
        case["T0"] = 273.15
        case["units"]["T0"] = draw(st.sampled_from(T_UNITS)) if units else "K"
    return case


@st.composite
def dfc_cases(draw):
    # w = c*M/rho is inside 0.1-0.9 for c >~ 1090 mol/m3; the iteration stops converging near 13000 mol/m3
    c = draw(st.one_of(st.floats(1100.0, 10000.0).map(lambda x: round(x, 3)), log_uniform(2.0, 4.0)))
    case = {"fn": "density_from_concentration", "c": c,
            "mode": draw(st.sampled_from(["plain", "units", "units"])), "units": {"c": "mol/m3"}}
    units = case["mode"] == "units"
    if units:
        case["units"]["c"] = draw(st.sampled_from(["mol/m3", "M", "mM"]))
    if draw(st.integers(0, 4)) > 0:
        case["T"] = round(draw(st.floats(273.16, 322.99)), 6)
        case["units"]["T"] = draw(st.sampled_from(T_UNITS)) if units else "K"
    if draw(st.integers(0, 2)) == 2:
        case["Mr"] = round(draw(st.floats(0.09, 0.11)), 8)
        case["units"]["Mr"] = draw(st.sampled_from(["kg/mol", "g/mol"])) if units else "kg/mol"
    if draw(st.integers(0, 2)) == 2:
        case["atol"] = draw(st.sampled_from([1e-1, 1e-6, 1e-2]))
        case["units"]["atol"] = draw(st.sampled_from(["kg/m3", "g/cm3"])) if units else "kg/m3"
    # maxiter: left at its default (10), a small explicit budget (the iteration needs 3..28 steps over this domain, so
    # "exactly enough", "one short" and "plenty" all occur), generous (300: every generated case converges), or tight:
    # "N+k" = the number of steps N the re-implemented iteration needs for this very input, plus k in -1..2
    kind = draw(st.sampled_from(["default", "small", "generous", "tight"]))
    case["maxiter"] = (None if kind == "default" else draw(st.integers(3, 12)) if kind == "small" else
                       300 if kind == "generous" else draw(st.sampled_from(["N+0", "N-1", "N+1", "N+2"])))
    return case


# Schumpe (1993) parameters this module is confident of (per molar); all other ions/gases are judged structurally
# against the parameter dictionaries the module under test publishes (p_ion_rM, p_gas_rM).
SCHUMPE_ION = {"H+": 0.0, "Na+": 0.1171, "K+": 0.0959, "Cl-": 0.0334, "OH-": 0.0756}
SCHUMPE_GAS = {"O2": 0.0, "CO2": -0.0183}
IONS = ["Na+", "Cl-", "K+", "OH-", "H+", "Li+", "Rb+", "Cs+", "NH4+", "Mg+2", "Ca+2", "Ba+2", "Fe+2", "Co+2", "Ni+2",
        "Cu+2", "Mn+2", "Zn+2", "Cd+2", "Al+3", "Fe+3", "Cr+3", "F-", "Br-", "I-", "NO3-", "ClO4-", "IO4-", "HCO3-",
        "HSO3-", "H2PO4-", "S2O3-2", "HPO4-2", "CO3-2", "SO3-2", "SO4-2", "PO4-3"]
GASES = ["O2", "CO2", "N2O", "C2H2", "C2H4", "He", "Ne", "Ar", "Kr", "Xe", "Rn", "H2", "N2", "NO", "C2H6"]


@st.composite
def schumpe_cases(draw):
    mode = draw(st.sampled_from(["plain", "units", "units"]))
    n = draw(st.integers(1, 4))
    ions, seen = [], set()
    for _ in range(n):
        ion = draw(st.sampled_from(IONS[:5] if draw(st.booleans()) else IONS))
        if ion in seen:
            continue
        seen.add(ion)
        ions.append([ion, draw(log_uniform(-3.0, 0.7)), draw(st.sampled_from(C_UNITS)) if mode == "units" else "M"])
    return {"fn": "lg_solubility_ratio", "gas": draw(st.sampled_from(GASES[:2] if draw(st.booleans()) else GASES)),
            "ions": ions, "mode": mode, "warn": draw(st.sampled_from([True, False]))}


H_UNITS = ["M/atm", "M/bar", "mM/atm", "mol/m3/Pa"]


@st.composite
def henry_cases(draw):
    cls = draw(st.sampled_from(["Henry", "HenryWithUnits", "Henry"]))
    mode = "units" if cls == "HenryWithUnits" else draw(st.sampled_from(["plain", "units"]))
    case = {"cls": cls, "mode": mode, "Hcp": draw(log_uniform(-6.0, 2.0)),
            "Tderiv": float(draw(st.integers(-20, 100)) * 100), "T": round(draw(st.floats(250.0, 400.0)), 6),
            "P": draw(log_uniform(-3.0, 2.0)), "c": draw(log_uniform(-6.0, 1.0)),
            "units": {"Hcp": "M/atm", "Tderiv": "K", "T": "K", "P": "atm", "c": "M"}}
    if draw(st.integers(0, 2)) == 2:
        case["T0"] = round(draw(st.floats(273.15, 320.0)), 4)
        case["units"]["T0"] = "K"
    if mode == "units":
        un = case["units"]
        un["Hcp"] = draw(st.sampled_from(H_UNITS))
        # the two temperature-like arguments mostly share their unit (mixed K/mK is the open finding D6e)
        un["T"] = draw(st.sampled_from(T_UNITS))
        un["Tderiv"] = un["T"] if draw(st.integers(0, 4)) > 0 else draw(st.sampled_from(T_UNITS))
        if "T0" in case:
            un["T0"] = draw(st.sampled_from(T_UNITS))
        un["P"] = draw(st.sampled_from(["atm", "bar", "Pa"]))
        un["c"] = draw(st.sampled_from(["M", "mM", "mol/m3"]))
    return case


CHARGES = [1, -1, 2, -2, 3, -3]


@st.composite
def nernst_cases(draw):
    mode = draw(st.sampled_from(["plain", "units", "units", "constants_only"]))
    case = {"fn": "nernst_potential", "mode": mode, "co": draw(log_uniform(-7.0, 1.0)), "ci": draw(log_uniform(-7.0, 1.0)),
            "z": draw(st.sampled_from(CHARGES)), "T": round(draw(st.floats(250.0, 400.0)), 6),
            "constants": mode == "constants_only", "units": {"co": None, "ci": None, "T": "K"}}
    if mode != "plain":
        case["units"]["T"] = draw(st.sampled_from(T_UNITS))
        if mode == "units":
            case["constants"] = draw(st.booleans())
        if mode == "units" or draw(st.booleans()):
            case["units"]["co"] = draw(st.sampled_from(C_UNITS))
            case["units"]["ci"] = draw(st.sampled_from(C_UNITS))
    return case


@st.composite
def mobility_cases(draw):
    mode = draw(st.sampled_from(["plain", "units", "units", "constants_only"]))
    case = {"fn": "electrical_mobility_from_D", "mode": mode, "D": draw(log_uniform(-12.0, -7.0)),
            "z": draw(st.sampled_from(CHARGES)), "T": round(draw(st.floats(250.0, 400.0)), 6),
            "constants": mode == "constants_only", "units": {"D": "m2/s", "T": "K"}}
    if mode != "plain":
        case["units"]["T"] = draw(st.sampled_from(T_UNITS))
        case["units"]["D"] = draw(st.sampled_from(["m2/s", "cm2/s"]))
        if mode == "units":
            case["constants"] = draw(st.booleans())
    return case


# ---------------------------------------------------------------------------------------------------------------------
# checks
# ---------------------------------------------------------------------------------------------------------------------
DOC_UNITS = {"T": "K", "T0": "K", "Tderiv": "K", "Hcp": "M/atm", "D": "m2/s", "Mr": "kg/mol", "atol": "kg/m3",
             "co": "M", "ci": "M", "par_T": "K", "par_R": "kg/m3", "par_P": "bar"}


def _scaled(case):
    """At least one input is handed over in a unit other than the documented one."""
    if case.get("mode") == "plain":
        return False
    doc = dict(DOC_UNITS)
    fn = case.get("fn")
    doc["P"] = "bar" if fn == "water_permittivity" else "atm"
    doc["c"] = "mol/m3" if fn == "density_from_concentration" else "M"
    if fn == "lg_solubility_ratio":
        return any(un != "M" for _, _, un in case["ions"])
    return any(v is not None and v != doc[k] for k, v in case["units"].items())


def _mode_labels(ctx, case, extra=()):
    sc = _scaled(case)
    ctx.label("mode:" + case["mode"] + ("/scaled" if sc else ""), *extra)
    return sc


def check_water(case, ctx):
    fn = case["fn"]
    spec = WATER[fn]
    f = _fn(fn)
    T = case["T"]
    cls = classify(T, spec["lo"], spec["hi"])
    outside = cls in ("out", "edge_out")
    sc = _mode_labels(ctx, case, (fn, "T:" + cls, "warn:%s" % case["warn"], "Tunit:" + case["units"]["T"]))
    ctx.nontrivial(sc or cls in ("edge_in", "edge_out"))
    want = {"T"} if outside else set()
    un = case["units"]

    def args(units):
        a, k = [], {}
        if units:
            a.append(to_q(T, "K", un["T"]))
            if "P" in case:
                a.append(to_q(case["P"], "bar", un["P"]))
            if "T0" in case:
                k["T0"] = to_q(case["T0"], "K", un["T0"])
            k["units"] = _du()
        else:
            a.append(T)
            if "P" in case:
                a.append(case["P"])
            if "T0" in case:
                k["T0"] = case["T0"]
        return a, k

    a, k = args(False)
    base, msgs = call(f, *a, **k)
    if is_err(base):
        return raised(ctx, base, "plain", fn=fn)
    judge_warnings(ctx, msgs, True, want, "plain")
    bval, bdim, _ = observe(base)
    ctx.require(same_dim(bdim, DIM_NONE), "plain_result_not_a_number", fn=fn, got=repr(base)[:100])
    if not outside:
        ctx.require(math.isfinite(bval), "not_finite_inside_range", fn=fn, got=bval)
    a, k = args(case["mode"] == "units")
    res, msgs = call(f, *a, warn=case["warn"], **k)
    if is_err(res):
        return raised(ctx, res, case["mode"], fn=fn)
    judge_warnings(ctx, msgs, case["warn"], want, case["mode"])
    val, dim, fb = observe(res)
    if fb:
        ctx.label("observe_fallback")
    want_dim = spec["dim"] if case["mode"] == "units" else DIM_NONE
    ctx.require(same_dim(dim, want_dim), "result_dimension", fn=fn, got=list(dim), expected=list(want_dim),
                result=repr(res)[:120])
    if not outside:
        ref = bval * (spec["doc"] if case["mode"] == "units" else 1.0)
        ctx.require(close(val, ref, REL_MODE), "value_differs_between_modes", fn=fn, got_si=val, plain_si=ref,
                    result=repr(res)[:120])


def check_sulfuric(case, ctx):
    f = _fn("sulfuric_acid_density")
    T, w = case["T"], case["w"]
    tcls = classify(T, 273.15, 323.15)
    wcls = classify(w, 0.1, 0.9)
    sc = _mode_labels(ctx, case, ("T:" + tcls, "w:" + wcls, "warn:%s" % case["warn"], "Tunit:" + case["units"]["T"]))
    ctx.nontrivial(sc or tcls.startswith("edge") or wcls.startswith("edge"))
    want = set()
    if tcls in ("out", "edge_out"):
        want.add("T")
    if wcls in ("out", "edge_out"):
        want.add("w")
    un = case["units"]

    def args(units):
        k = {}
        if units:
            a = [w, to_q(T, "K", un["T"])]
            if "T0" in case:
                k["T0"] = to_q(case["T0"], "K", un["T0"])
            k["units"] = _du()
        else:
            a = [w, T]
            if "T0" in case:
                k["T0"] = case["T0"]
        return a, k

    a, k = args(False)
    base, msgs = call(f, *a, **k)
    if is_err(base):
        return raised(ctx, base, "plain")
    judge_warnings(ctx, msgs, True, want, "plain")
    bval, bdim, _ = observe(base)
    ctx.require(same_dim(bdim, DIM_NONE), "plain_result_not_a_number", got=repr(base)[:100])
    a, k = args(case["mode"] == "units")
    res, msgs = call(f, *a, warn=case["warn"], **k)
    if is_err(res):
        return raised(ctx, res, case["mode"])
    judge_warnings(ctx, msgs, case["warn"], want, case["mode"])
    val, dim, _ = observe(res)
    want_dim = DIM_DENSITY if case["mode"] == "units" else DIM_NONE
    ctx.require(same_dim(dim, want_dim), "result_dimension", got=list(dim), expected=list(want_dim), result=repr(res)[:120])
    if not want:
        ctx.require(close(val, bval, REL_MODE), "value_differs_between_modes", got_si=val, plain_si=bval,
                    result=repr(res)[:120])


M_H2SO4 = (1.00794 * 2 + 32.066 + 4 * 15.9994) * 1e-3      # kg/mol, the documented default molar mass


DFC_DEFAULT_MAXITER = 10        # documented signature default
DFC_STEP_LIMIT = 400


def _dfc_steps(fwd, c, Mr, T, atol):
    """The documented fixed-point iteration, re-implemented around the forward correlation used as a black box:
    rho_0 = 1100 kg/m3, rho_n = f(c*M/rho_(n-1), T), delta_n = rho_n - rho_(n-1), converged at the first n with
    |delta_n| <= atol.  Returns (N_strict, N_loose, error): the first n with |delta_n| <= atol - tol and with
    |delta_n| <= atol + tol (None = not within DFC_STEP_LIMIT steps).  tol = 1e-11*rho_n + 1e-9*atol: the iterates of
    the call under test can differ from these floats by the rounding of one unit conversion of c, M, T and atol (a
    few 1e-16 relative, i.e. ~1e-12 kg/m3 on rho and on delta; the map is a contraction, so this does not grow) - tol is
    two decades above that.  N_strict != N_loose means that rounding decides the step at which |delta| <= atol is met:
    the one-step grey zone."""
    rho = 1100.0
    n_loose = None
    for n in range(1, DFC_STEP_LIMIT + 1):
        new, _ = call(fwd, c * Mr / rho, T, warn=False)
        if is_err(new):
            return None, None, new
        new = float(new)
        delta = abs(new - rho)
        rho = new
        tol = 1e-11 * abs(rho) + 1e-9 * atol
        if n_loose is None and delta <= atol + tol:
            n_loose = n
        if delta <= atol - tol:
            return n, n_loose, None
    return None, n_loose, None


def check_dfc(case, ctx):
    from chempy.util import NoConvergence
    f = _fn("density_from_concentration")
    fwd = _fn("sulfuric_acid_density")
    un = case["units"]
    c = case["c"]
    Mr = case.get("Mr", M_H2SO4)
    T = case.get("T", 298.15)
    atol = case.get("atol", 1e-3)
    n_strict, n_loose, err = _dfc_steps(fwd, c, Mr, T, atol)
    if err is not None:
        return raised(ctx, err, "forward")
    explicit = case.get("maxiter", 300)          # files written before the key existed always passed 300
    if isinstance(explicit, str):                # "N+k": relative to the steps needed (10 when it never converges)
        maxiter = max(1, (n_strict or DFC_DEFAULT_MAXITER) + int(explicit[1:]))
    else:
        maxiter = DFC_DEFAULT_MAXITER if explicit is None else int(explicit)
    sc = _mode_labels(ctx, case, ["atol:%g" % atol, "T:" + ("given" if "T" in case else "default"),
                                  "maxiter:" + ("default" if explicit is None else "tight" if isinstance(explicit, str)
                                                else "generous" if maxiter >= 100 else "small")])
    # Loop of the unchanged tree: `while atol < |delta|: step; iter_idx += 1; if iter_idx > maxiter: raise`.  Step n
    # (n <= maxiter) never raises, and the loop ends after the first step whose |delta| <= atol, so with N = number of
    # steps the iteration needs:  N <= maxiter -> returns rho_N;  N > maxiter -> NoConvergence (raised after step
    # maxiter+1, also when that very step converged).  "maxiter: maximum number of iterations (when exceeded a
    # NoConvergence exception is raised)": a call that needs exactly maxiter steps has not exceeded it.
    must_return = n_strict is not None and n_strict <= maxiter
    must_raise = n_loose is None or n_loose > maxiter
    ctx.label("steps:" + ("none" if n_strict is None else "%s" % ("<=5" if n_strict <= 5 else "6-9" if n_strict <= 9 else
                                                                   "10-12" if n_strict <= 12 else "13+")),
              "budget:" + ("grey" if not (must_return or must_raise) else "exceeded" if must_raise else
                           "exactly_enough" if n_strict == maxiter else "one_spare" if n_strict == maxiter - 1 else "ample"))

    def outcome(res, what):
        """True: returned legitimately; False: raised NoConvergence legitimately or a failure was reported."""
        if is_err(res):
            if not isinstance(res.exc, NoConvergence):
                raised(ctx, res, what)
            elif must_return:
                ctx.fail("no_convergence_although_steps_needed_le_maxiter", what=what, steps_needed=n_strict,
                         maxiter=maxiter, maxiter_given=explicit is not None)
            return False
        if must_raise:
            ctx.fail("returns_although_steps_needed_gt_maxiter", what=what, steps_needed=n_loose, maxiter=maxiter,
                     result=repr(res)[:100])
            return False
        return True

    def kwargs(units):
        k = {} if explicit is None else {"maxiter": maxiter}
        if units:
            k["units"] = _du()
            if "T" in case:
                k["T"] = to_q(case["T"], "K", un["T"])
            if "Mr" in case:
                k["molar_mass"] = to_q(case["Mr"], "kg/mol", un["Mr"])
            if "atol" in case:
                k["atol"] = to_q(case["atol"], "kg/m3", un["atol"])
            return [to_q(c, "mol/m3", un["c"])], k
        if "T" in case:
            k["T"] = case["T"]
        if "Mr" in case:
            k["molar_mass"] = case["Mr"]
        if "atol" in case:
            k["atol"] = case["atol"]
        return [c], k

    a, k = kwargs(False)
    base, msgs = call(f, *a, **k)
    ctx.require(not msgs, "warning_with_warn_False", what="plain", messages=msgs)
    if not outcome(base, "plain"):
        ctx.nontrivial(sc or (n_strict is not None and abs(n_strict - maxiter) <= 1))
        if case["mode"] == "units":         # the units call is held to the same rule
            a, k = kwargs(True)
            res, msgs = call(f, *a, **k)
            ctx.require(not msgs, "warning_with_warn_False", what="units", messages=msgs)
            outcome(res, "units")
        return
    rho, bdim, _ = observe(base)
    ctx.require(same_dim(bdim, DIM_NONE), "plain_result_not_a_number", got=repr(base)[:100])
    wfrac = c * Mr / rho
    wcls = classify(wfrac, 0.1, 0.9)
    ctx.label("w:" + wcls)
    ctx.nontrivial(sc or wcls.startswith("edge") or (n_strict is not None and abs(n_strict - maxiter) <= 1))
    # inverse: the returned rho is the last iterate rho_n with |rho_n - rho_(n-1)| <= atol, so the residual
    # |f(c*M/rho_n) - rho_n| = |rho_(n+1) - rho_n| <= L*atol with the contraction constant L < 1 (the iteration
    # converged; measured L <= 0.53 over the generated domain): "within its atol"; 1e-12*rho for float noise
    back, _ = call(fwd, wfrac, T, warn=False)
    if is_err(back):
        return raised(ctx, back, "forward")
    ctx.require(abs(float(back) - rho) <= atol + 1e-12 * rho, "inverse_residual", rho=rho, forward=float(back),
                w=wfrac, atol=atol)
    if case["mode"] == "units":
        a, k = kwargs(True)
        res, msgs = call(f, *a, **k)
        ctx.require(not msgs, "warning_with_warn_False", what="units", messages=msgs)
        if not outcome(res, "units"):       # same rule as the plain call (they may differ only inside the grey zone)
            return
        val, dim, _ = observe(res)
        ctx.require(same_dim(dim, DIM_DENSITY), "result_dimension", got=list(dim), expected=list(DIM_DENSITY),
                    result=repr(res)[:120])
        # both modes run the same iteration; they can differ in the step at which |delta| <= atol is first met, the
        # iterates at that point being <= atol apart
        ctx.require(abs(val - rho) <= 1.5 * atol + 1e-9 * rho, "value_differs_between_modes", got_si=val, plain_si=rho,
                    result=repr(res)[:120])


def check_schumpe(case, ctx):
    import chempy.properties.gas_sol_electrolytes_schumpe_1993 as mod
    f = mod.lg_solubility_ratio
    gas = case["gas"]
    sc = _mode_labels(ctx, case, ("n_ions:%d" % len(case["ions"]), "warn:%s" % case["warn"]))
    ctx.nontrivial(sc)
    anchored = gas in SCHUMPE_GAS and all(i in SCHUMPE_ION for i, _, _ in case["ions"])
    ctx.label("anchored" if anchored else "structural")
    hg = SCHUMPE_GAS[gas] if gas in SCHUMPE_GAS else mod.p_gas_rM[gas]
    terms = [(hg + (SCHUMPE_ION[i] if i in SCHUMPE_ION else mod.p_ion_rM[i])) * c for i, c, _ in case["ions"]]
    expected = math.fsum(terms)
    scale = math.fsum(abs(t) for t in terms)
    if case["mode"] == "units":
        el = {i: to_q(c, "M", un) for i, c, un in case["ions"]}
        res, msgs = call(f, el, gas, units=_du(), warn=case["warn"])
    else:
        el = {i: c for i, c, _ in case["ions"]}
        res, msgs = call(f, el, gas, warn=case["warn"])
    if is_err(res):
        return raised(ctx, res, case["mode"])
    if not case["warn"]:
        ctx.require(not msgs, "warning_with_warn_False", messages=msgs)
    ctx.require("T" not in kinds(msgs) and "w" not in kinds(msgs), "range_warning_spurious", messages=msgs)
    val, dim, _ = observe(res)
    ctx.require(same_dim(dim, DIM_NONE), "result_dimension", got=list(dim), expected=list(DIM_NONE), result=repr(res)[:120])
    # a sum of <= 4 products; tolerance relative to the sum of absolute terms (h_gas < 0 makes terms cancel)
    ctx.require(abs(val - expected) <= 1e-9 * scale, "value", got=val, expected=expected, result=repr(res)[:120])


ATM = 101325.0


def check_henry(case, ctx):
    from chempy.henry import Henry, HenryWithUnits
    un = case["units"]
    units = case["mode"] == "units"
    T0 = case.get("T0", 298.15)
    T, Hcp, Td = case["T"], case["Hcp"], case["Tderiv"]
    sc = _mode_labels(ctx, case, (case["cls"], "T0:" + ("given" if "T0" in case else "default"),
                                  "Tderiv:" + ("neg" if Td < 0 else "zero" if Td == 0 else "pos")))
    mixed = units and un["T"] != un["Tderiv"]
    if mixed:
        ctx.label("mixed_temperature_units")
    ctx.nontrivial(sc)
    H_ref = Hcp * math.exp(Td * (1.0 / T - 1.0 / T0))           # M/atm
    c_ref = case["P"] * H_ref                                     # M
    P_ref = case["c"] / H_ref                                     # atm
    if units:
        a = [to_q(Hcp, "M/atm", un["Hcp"]), to_q(Td, "K", un["Tderiv"])]
        if "T0" in case:
            a.append(to_q(case["T0"], "K", un["T0"]))
        Tq, Pq, cq = to_q(T, "K", un["T"]), to_q(case["P"], "atm", un["P"]), to_q(case["c"], "M", un["c"])
        kw = {} if case["cls"] == "HenryWithUnits" else {"units": _du()}
    else:
        a = [Hcp, Td] + ([case["T0"]] if "T0" in case else [])
        Tq, Pq, cq = T, case["P"], case["c"]
        kw = {}
    obj = sut((HenryWithUnits if case["cls"] == "HenryWithUnits" else Henry), *a)
    if is_err(obj):
        return raised(ctx, obj, "constructor")
    # |d ln H| = |Tderiv| * |d(1/T - 1/T0)|: (1e4 K)*(2.3e-16/250 K)*4 roundings ~ 4e-14, far below REL_MODE
    facH = 1e3 / ATM if units else 1.0
    facc = 1e3 if units else 1.0
    facP = ATM if units else 1.0
    for what, thunk, ref, fac, want_dim in (
            ("call", lambda: obj(Tq, **kw), H_ref, facH, DIM_HENRY),
            ("get_c_at_T_and_P", lambda: obj.get_c_at_T_and_P(Tq, Pq, **kw), c_ref, facc, _CONC),
            ("get_P_at_T_and_c", lambda: obj.get_P_at_T_and_c(Tq, cq, **kw), P_ref, facP, _PRESS)):
        res, msgs = call(thunk)
        if is_err(res):
            raised(ctx, res, what, mixed_temperature_units=bool(mixed))
            continue
        ctx.require(not msgs, "unexpected_warning", what=what, messages=msgs)
        val, dim, _ = observe(res)
        want = want_dim if units else DIM_NONE
        ctx.require(same_dim(dim, want), "result_dimension", what=what, got=list(dim), expected=list(want),
                    result=repr(res)[:120])
        ctx.require(close(val, ref * fac, REL_MODE), "value:" + what, got_si=val, expected_si=ref * fac,
                    result=repr(res)[:120])
        if what == "get_c_at_T_and_P":
            back, _ = call(lambda: obj.get_P_at_T_and_c(Tq, res, **kw))
            if is_err(back):
                raised(ctx, back, "round_trip", mixed_temperature_units=bool(mixed))
                continue
            bval, bdim, _ = observe(back)
            ctx.require(same_dim(bdim, _PRESS if units else DIM_NONE), "result_dimension", what="round_trip",
                        got=list(bdim), result=repr(back)[:120])
            # P*H/H: two roundings plus the unit factors of the observation
            ctx.require(close(bval, case["P"] * facP, 1e-12), "inverse_round_trip", got_si=bval,
                        expected_si=case["P"] * facP, result=repr(back)[:120])


def check_nernst(case, ctx):
    f = _fn("nernst_potential")
    un = case["units"]
    mode = case["mode"]
    z, T, co, ci = case["z"], case["T"], case["co"], case["ci"]
    sc = _mode_labels(ctx, case, ("constants:%s" % case["constants"], "z:%d" % z,
                                  "c_units:" + ("plain" if un["co"] is None else "same" if un["co"] == un["ci"] else "mixed")))
    ctx.nontrivial(sc)
    S = R_GAS * T / (abs(z) * FARADAY)
    V_ref = R_GAS * T / (z * FARADAY) * math.log(co / ci)
    # ln(co/ci) is evaluated from a ratio carrying <= 4 roundings: absolute noise ~1e-15 on the logarithm, i.e.
    # 1e-13*S with two decades of slack; everything else is multiplicative
    noise = 1e-13 * S

    def build(a_out, a_in):
        if mode == "plain":
            return [a_out, a_in, z, T], {}
        Tq = to_q(T, "K", un["T"])
        k = {}
        if mode == "units":
            k["units"] = _du()
        if case["constants"]:
            k["constants"] = _dc()
        if un["co"] is None:
            return [a_out, a_in, z, Tq], k
        return [to_q(a_out, "M", un["co"]), to_q(a_in, "M", un["ci"]), z, Tq], k

    a, k = build(co, ci)
    res, msgs = call(f, *a, **k)
    if is_err(res):
        return raised(ctx, res, mode)
    ctx.require(not msgs, "unexpected_warning", messages=msgs)
    val, dim, _ = observe(res)
    want = DIM_NONE if mode == "plain" else DIM_VOLT
    ctx.require(same_dim(dim, want), "result_dimension", got=list(dim), expected=list(want), result=repr(res)[:120])
    ctx.require(abs(val - V_ref) <= REL_CONST * abs(V_ref) + noise, "value", got_si=val, expected_si=V_ref,
                result=repr(res)[:120])
    # same call with plain numbers in one common unit (mode 1): same constants unless a constants object is used
    plain, _ = call(f, co, ci, z, T)
    if is_err(plain):
        return raised(ctx, plain, "plain")
    rel = REL_CONST if case["constants"] else REL_MODE
    ctx.require(abs(val - float(plain)) <= rel * abs(val) + noise, "value_differs_between_modes", got_si=val,
                plain_si=float(plain), result=repr(res)[:120])
    # V(c_out, c_in) = -V(c_in, c_out)
    a, k = build(ci, co)
    swapped, _ = call(f, *a, **k)
    if is_err(swapped):
        return raised(ctx, swapped, "swapped")
    sval, _, _ = observe(swapped)
    ctx.require(abs(val + sval) <= 1e-12 * abs(val) + noise, "antisymmetry", got_si=val, swapped_si=sval)


def check_mobility(case, ctx):
    f = _fn("electrical_mobility_from_D")
    un = case["units"]
    mode = case["mode"]
    z, T, D = case["z"], case["T"], case["D"]
    sc = _mode_labels(ctx, case, ("constants:%s" % case["constants"], "z:%d" % z))
    ctx.nontrivial(sc)
    ref = D * z * E_CHARGE / (K_B * T)
    if mode == "plain":
        a, k = [D, z, T], {}
    else:
        a, k = [to_q(D, "m2/s", un["D"]), z, to_q(T, "K", un["T"])], {}
        if mode == "units":
            k["units"] = _du()
        if case["constants"]:
            k["constants"] = _dc()
    res, msgs = call(f, *a, **k)
    if is_err(res):
        return raised(ctx, res, mode)
    ctx.require(not msgs, "unexpected_warning", messages=msgs)
    val, dim, _ = observe(res)
    want = DIM_NONE if mode == "plain" else DIM_MOB
    ctx.require(same_dim(dim, want), "result_dimension", got=list(dim), expected=list(want), result=repr(res)[:120])
    ctx.require(close(val, ref, REL_CONST), "value", got_si=val, expected_si=ref, result=repr(res)[:120])
    plain, _ = call(f, D, z, T)
    if is_err(plain):
        return raised(ctx, plain, "plain")
    ctx.require(close(val, float(plain), REL_CONST if case["constants"] else REL_MODE), "value_differs_between_modes",
                got_si=val, plain_si=float(plain), result=repr(res)[:120])


# -- options ------------------------------------------------------------------------------------------------------------
# Optional arguments that must not break unit independence.  T0= (density, acid density) is generated by `water`,
# `sulfuric`, `arrays` and `edges`; here: err_mult= (Holz 2000: D0 and TS shifted by multiples of their reported standard
# errors), a= (the five Thiesen parameters of the density) and U= (the nine Bradley-Pitzer parameters).  Own
# transcription of the published parameters; custom sets are the published ones scaled by 1 + k/1000, k in -20..20.
HOLZ = {"D0": 1.635e-8, "dD0": 2.242e-11, "TS": 215.05, "dTS": 1.2, "gamma": 2.063}
TANAKA_A = (-3.983035, 301.797, 522528.9, 69.34881, 999.974950)
# units of the parameters as (symbol, exponent) lists: T = temperature, R = density, P = pressure
TANAKA_DIMS = ([("T", 1)], [("T", 1)], [("T", 2)], [("T", 1)], [("R", 1)])
BRADLEY_U = (3.4279e2, -5.0866e-3, 9.4690e-7, -2.0525, 3.1159e3, -1.8289e2, -8.0325e3, 4.2142e6, 2.1417)
BRADLEY_DIMS = ([], [("T", -1)], [("T", -2)], [], [("T", 1)], [("T", 1)], [("P", 1)], [("T", 1), ("P", 1)],
                [("T", -1), ("P", 1)])
OPTION_KINDS = ["err_mult", "density_a", "permittivity_U"]
OPTION_FN = {"err_mult": "water_self_diffusion_coefficient", "density_a": "water_density",
             "permittivity_U": "water_permittivity"}
_scales = st.integers(-20, 20).map(lambda k: 1.0 + k / 1000.0)


@st.composite
def option_cases(draw):
    kind = draw(st.sampled_from(OPTION_KINDS))
    spec = WATER[OPTION_FN[kind]]
    mode = draw(st.sampled_from(["plain", "units", "units"]))
    units = mode == "units"
    case = {"kind": kind, "fn": OPTION_FN[kind], "T": draw(in_range_values(spec["lo"], spec["hi"])), "mode": mode,
            "units": {"T": draw(st.sampled_from(T_UNITS)) if units else "K"},
            "warn": draw(st.sampled_from([True, True, False]))}
    if kind == "err_mult":
        # multiples of the standard errors; ints and floats, tuple or list
        mult = st.one_of(st.integers(-3, 3), st.integers(-30, 30).map(lambda i: i / 10.0))
        case["err_mult"] = [draw(mult), draw(mult)]
        case["container"] = draw(st.sampled_from(["tuple", "list"]))
        return case
    n = 5 if kind == "density_a" else 9
    case["scale"] = [draw(_scales) for _ in range(n)]
    if kind == "permittivity_U":
        # B = U7 + U8/T + U9*T is a difference of terms ~8000 bar that falls to 65 bar at 350 degC: these three are scaled
        # by 1 + k/100000 only (B moves by < 3.3 bar and stays positive)
        case["scale"][6:] = [1.0 + (x - 1.0) / 100.0 for x in case["scale"][6:]]
    un = case["units"]
    un["par_T"] = draw(st.sampled_from(T_UNITS)) if units else "K"
    if kind == "density_a":
        un["par_R"] = draw(st.sampled_from(["kg/m3", "g/cm3"])) if units else "kg/m3"
        if draw(st.integers(0, 3)) == 3:
            case["T0"] = 273.15
            un["T0"] = draw(st.sampled_from(T_UNITS)) if units else "K"
    else:
        un["par_P"] = draw(st.sampled_from(P_UNITS)) if units else "bar"
        case["P"] = draw(log_uniform(-0.3, 3.0))
        un["P"] = draw(st.sampled_from(P_UNITS)) if units else "bar"
    return case


def _param_q(value, dims, un):
    """A parameter given in K / kg/m3 / bar powers as a Quantity written in the units chosen by the case."""
    doc = {"T": "K", "R": "kg/m3", "P": "bar"}
    res = value
    for sym, e in dims:
        unit = un["par_" + sym]
        res = res * float(si_factor(doc[sym]) / si_factor(unit)) ** e
    for sym, e in dims:
        res = res * pq_unit(un["par_" + sym]) ** e
    return res


def check_options(case, ctx):
    kind, fn = case["kind"], case["fn"]
    spec = WATER[fn]
    f = _fn(fn)
    un = case["units"]
    T = case["T"]
    cls = classify(T, spec["lo"], spec["hi"])
    outside = cls in ("out", "edge_out")
    sc = _mode_labels(ctx, case, (kind, "T:" + cls, "warn:%s" % case["warn"], "Tunit:" + un["T"]))
    want = {"T"} if outside else set()
    # the published closed forms with the case's parameters (plain floats, documented units)
    if kind == "err_mult":
        e0, e1 = case["err_mult"]
        ctx.label("err_mult:" + ("zero" if e0 == 0 and e1 == 0 else "D0_only" if e1 == 0 else "TS_only" if e0 == 0 else "both"))
        ctx.nontrivial(sc or (e0 != 0 and e1 != 0))
        ref = (HOLZ["D0"] + e0 * HOLZ["dD0"]) * (T / (HOLZ["TS"] + e1 * HOLZ["dTS"]) - 1.0) ** HOLZ["gamma"]
        em = tuple(case["err_mult"]) if case["container"] == "tuple" else list(case["err_mult"])
        opts = lambda units: {"err_mult": em}      # noqa: E731  (pure multipliers: the same in both modes)
    elif kind == "density_a":
        par = [v * k for v, k in zip(TANAKA_A, case["scale"])]
        ctx.nontrivial(sc or any(k != 1.0 for k in case["scale"]))
        t = T - case.get("T0", 273.15)
        ref = par[4] * (1.0 - ((t + par[0]) ** 2 * (t + par[1])) / (par[2] * (t + par[3])))
        opts = lambda units: {"a": tuple(_param_q(v, d, un) if units else v for v, d in zip(par, TANAKA_DIMS))}  # noqa: E731
    else:
        par = [v * k for v, k in zip(BRADLEY_U, case["scale"])]
        ctx.nontrivial(sc or any(k != 1.0 for k in case["scale"]))
        P = case["P"]
        Bp = par[6] + par[7] / T + par[8] * T
        Cp = par[3] + par[4] / (par[5] + T)
        if outside:
            ref = None                      # not judged; above ~640 K B turns negative and the formula has no value
        elif Bp + min(P, 1000.0) <= 0:      # only reachable through a hand-written replay file
            return ctx.skip("custom U outside the domain of the logarithm")
        else:
            ref = par[0] * math.exp(par[1] * T + par[2] * T ** 2) + Cp * math.log((Bp + P) / (Bp + 1000.0))
        opts = lambda units: {"U": tuple(_param_q(v, d, un) if units else v for v, d in zip(par, BRADLEY_DIMS))}  # noqa: E731

    def args(units):
        a, k = [], dict(opts(units))
        if units:
            a.append(to_q(T, "K", un["T"]))
            if "P" in case:
                a.append(to_q(case["P"], "bar", un["P"]))
            if "T0" in case:
                k["T0"] = to_q(case["T0"], "K", un["T0"])
            k["units"] = _du()
        else:
            a.append(T)
            if "P" in case:
                a.append(case["P"])
            if "T0" in case:
                k["T0"] = case["T0"]
        return a, k

    a, k = args(False)
    base, msgs = call(f, *a, **k)
    if is_err(base):
        return raised(ctx, base, "plain", fn=fn, kind=kind)
    judge_warnings(ctx, msgs, True, want, "plain")
    bval, bdim, _ = observe(base)
    ctx.require(same_dim(bdim, DIM_NONE), "plain_result_not_a_number", fn=fn, got=repr(base)[:100])
    if not outside:
        # a handful of float operations on the same numbers in a possibly different order: REL_MODE (1e-9) is generous
        ctx.require(close(bval, ref, REL_MODE), "option_value_differs_from_published_formula", fn=fn, kind=kind, got=bval,
                    expected=ref)
    a, k = args(case["mode"] == "units")
    res, msgs = call(f, *a, warn=case["warn"], **k)
    if is_err(res):
        return raised(ctx, res, case["mode"], fn=fn, kind=kind)
    judge_warnings(ctx, msgs, case["warn"], want, case["mode"])
    val, dim, fb = observe(res)
    if fb:
        ctx.label("observe_fallback")
    want_dim = spec["dim"] if case["mode"] == "units" else DIM_NONE
    ctx.require(same_dim(dim, want_dim), "result_dimension", fn=fn, kind=kind, got=list(dim), expected=list(want_dim),
                result=repr(res)[:120])
    if not outside:
        refv = bval * (spec["doc"] if case["mode"] == "units" else 1.0)
        ctx.require(close(val, refv, REL_MODE), "value_differs_between_modes", fn=fn, kind=kind, got_si=val, plain_si=refv,
                    result=repr(res)[:120])


# -- arrays -------------------------------------------------------------------------------------------------------------
# Which functions take a numpy array of temperatures (decided by calling the unchanged tree):
#   water_density, water_self_diffusion_coefficient, water_permittivity (P absent, scalar or an array of the same
#   length), Henry / HenryWithUnits (__call__, get_c_at_T_and_P, get_P_at_T_and_c): plain numbers and units mode
#   (K or mK; the result of the density / diffusivity keeps an unreduced mK**n/K**n, which `observe` reduces).
#   water_viscosity: plain numbers and units mode (units mode since /repo 91eb8ac; before, float(exponent.simplified)
#   raised TypeError for an array - found by this sub-check).
# Not generated: sulfuric_acid_density (float(t / K) and a (1, 5) power table: scalar T only, in both modes; an array
# of mass fractions does not work either), density_from_concentration (scalar fixed-point iteration),
# lg_solubility_ratio (no temperature), nernst_potential / electrical_mobility_from_D (no validity range; closed forms
# judged point-wise by their own sub-checks).  Python lists are not accepted by any of them (list - float).
ARRAY_FNS = WATER_FNS + ["henry"]
# an element of the array call against the scalar call with the same float in the same mode: the same float formula
# evaluated by numpy's vector loops instead of its scalar path (pow / exp / log may differ by an ulp, 2.2e-16, with
# amplification <= |d ln f / d ln x| ~ 50) - 1e-12 leaves two decades
REL_ARRAY = 1e-12


@st.composite
def array_cases(draw):
    fn = draw(st.sampled_from(ARRAY_FNS))
    mode = draw(st.sampled_from(["plain", "units", "units"]))
    units = mode == "units"
    case = {"fn": fn, "mode": mode, "units": {"T": draw(st.sampled_from(T_UNITS)) if units else "K"}}
    if fn == "henry":
        case["cls"] = "HenryWithUnits" if (units and draw(st.booleans())) else "Henry"
        case["T"] = draw(st.lists(st.floats(250.0, 400.0).map(lambda x: round(x, 6)), min_size=2, max_size=8))
        case.update({"Hcp": draw(log_uniform(-6.0, 2.0)), "Tderiv": float(draw(st.integers(-20, 100)) * 100),
                     "P": draw(log_uniform(-3.0, 2.0)), "c": draw(log_uniform(-6.0, 1.0))})
        un = case["units"]
        un.update({"Hcp": "M/atm", "Tderiv": "K", "P": "atm", "c": "M"})
        if units:
            un["Hcp"] = draw(st.sampled_from(H_UNITS))
            un["Tderiv"] = draw(st.sampled_from(T_UNITS))
            un["P"] = draw(st.sampled_from(["atm", "bar", "Pa"]))
            un["c"] = draw(st.sampled_from(["M", "mM", "mol/m3"]))
        return case
    spec = WATER[fn]
    case["T"] = draw(st.lists(in_range_values(spec["lo"], spec["hi"]), min_size=2, max_size=8))
    case["warn"] = draw(st.sampled_from([True, True, False]))
    if spec["T0"] and draw(st.integers(0, 3)) == 3:
        case["T0"] = 273.15
        case["units"]["T0"] = draw(st.sampled_from(T_UNITS)) if units else "K"
    if fn == "water_permittivity":
        kind = draw(st.sampled_from(["none", "scalar", "array", "array"]))
        if kind == "scalar":
            case["P"] = draw(log_uniform(-0.3, 3.0))
        elif kind == "array":
            case["P"] = [draw(log_uniform(-0.3, 3.0)) for _ in case["T"]]
        if kind != "none":
            case["units"]["P"] = draw(st.sampled_from(P_UNITS)) if units else "bar"
    return case


def _check_henry_array(case, ctx):
    import numpy as np
    from chempy.henry import Henry, HenryWithUnits
    un = case["units"]
    units = case["mode"] == "units"
    Ts = [float(t) for t in case["T"]]
    sc = _mode_labels(ctx, case, ("henry:" + case["cls"], "n:%d" % len(Ts), "Tunit:" + un["T"]))
    ctx.nontrivial(sc)
    if units:
        a = [to_q(case["Hcp"], "M/atm", un["Hcp"]), to_q(case["Tderiv"], "K", un["Tderiv"])]
        Pq, cq = to_q(case["P"], "atm", un["P"]), to_q(case["c"], "M", un["c"])
        kw = {} if case["cls"] == "HenryWithUnits" else {"units": _du()}
        conv = lambda t: to_q(t, "K", un["T"])      # noqa: E731
    else:
        a = [case["Hcp"], case["Tderiv"]]
        Pq, cq, kw = case["P"], case["c"], {}
        conv = lambda t: t                          # noqa: E731
    obj = sut((HenryWithUnits if case["cls"] == "HenryWithUnits" else Henry), *a)
    if is_err(obj):
        return raised(ctx, obj, "constructor")
    Tarr = conv(np.array(Ts, dtype=float))
    for what, fn_, want_dim in (("call", lambda T: obj(T, **kw), DIM_HENRY),
                                ("get_c_at_T_and_P", lambda T: obj.get_c_at_T_and_P(T, Pq, **kw), _CONC),
                                ("get_P_at_T_and_c", lambda T: obj.get_P_at_T_and_c(T, cq, **kw), _PRESS)):
        res, msgs = call(fn_, Tarr)
        if is_err(res):
            raised(ctx, res, "array:" + what, fn="henry")
            continue
        ctx.require(not msgs, "unexpected_warning", what=what, messages=msgs)
        got = sut(observe_array, res)
        if is_err(got) or len(got[0]) != len(Ts):
            ctx.fail("array_result_shape", what=what, result=repr(res)[:160], n=len(Ts))
            continue
        vals, dim, _ = got
        want = want_dim if units else DIM_NONE
        ctx.require(same_dim(dim, want), "result_dimension", what=what, got=list(dim), expected=list(want),
                    result=repr(res)[:120])
        for i, t in enumerate(Ts):
            one, _ = call(fn_, conv(t))
            if is_err(one):
                raised(ctx, one, "scalar:" + what, fn="henry")
                break
            v, _d, _ = observe(one)
            if not close(vals[i], v, REL_ARRAY):
                ctx.fail("array_element_differs_from_scalar_call", what=what, index=i, T=t, array_si=vals[i], scalar_si=v)
                break


def check_arrays(case, ctx):
    import numpy as np
    fn = case["fn"]
    if fn == "henry":
        return _check_henry_array(case, ctx)
    spec = WATER[fn]
    f = _fn(fn)
    un = case["units"]
    units = case["mode"] == "units"
    Ts = [float(t) for t in case["T"]]
    n = len(Ts)
    lo, hi = spec["lo"], spec["hi"]
    classes = [classify(t, lo, hi) for t in Ts]
    inside = [c in ("in", "edge_in") for c in classes]
    sides = sorted({"below" if t < lo else "above" if t > hi else "in" for t in Ts})
    P = case.get("P")
    pkind = "none" if P is None else "array" if isinstance(P, list) else "scalar"
    sc = _mode_labels(ctx, case, (fn, "n:%d" % n, "T:" + "+".join(sides), "warn:%s" % case["warn"], "Tunit:" + un["T"]))
    if fn == "water_permittivity":
        ctx.label("P:" + pkind)
    if any(c.startswith("edge") for c in classes):
        ctx.label("has_edge_element")
    # non-trivial: elements on both sides of a boundary in one call (the case a scalar call cannot express), or a scaled unit
    ctx.nontrivial(len(sides) >= 2 or sc)
    want = set() if all(inside) else {"T"}

    def build(Tval, Pval):
        a, k = [], {}
        if units:
            a.append(to_q(Tval, "K", un["T"]))
            if Pval is not None:
                a.append(to_q(Pval, "bar", un["P"]))
            if "T0" in case:
                k["T0"] = to_q(case["T0"], "K", un["T0"])
            k["units"] = _du()
        else:
            a.append(Tval)
            if Pval is not None:
                a.append(Pval)
            if "T0" in case:
                k["T0"] = case["T0"]
        return a, k

    Parr = np.array(P, dtype=float) if pkind == "array" else P
    a, k = build(np.array(Ts, dtype=float), Parr)
    res, msgs = call(f, *a, warn=case["warn"], **k)
    # the warning is issued before the value is computed: judged also when the call goes on to raise
    judge_warnings(ctx, msgs, case["warn"], want, "array")
    if is_err(res):
        return raised(ctx, res, "array", fn=fn, mode=case["mode"])
    got = sut(observe_array, res)
    if is_err(got) or len(got[0]) != n:
        return ctx.fail("array_result_shape", fn=fn, result=repr(res)[:160], n=n)
    vals, dim, fb = got
    if fb:
        ctx.label("observe_fallback")
    want_dim = spec["dim"] if units else DIM_NONE
    ctx.require(same_dim(dim, want_dim), "result_dimension", fn=fn, got=list(dim), expected=list(want_dim),
                result=repr(res)[:120])
    for i, t in enumerate(Ts):
        if not inside[i]:
            continue            # "in their valid ranges": values outside the range are not judged
        ai, ki = build(t, P[i] if pkind == "array" else P)
        one, _ = call(f, *ai, warn=False, **ki)
        if is_err(one):
            return raised(ctx, one, "scalar", fn=fn, mode=case["mode"])
        v, _d, _ = observe(one)
        ctx.require(math.isfinite(vals[i]), "not_finite_inside_range", fn=fn, index=i, T=t, got=vals[i])
        if not close(vals[i], v, REL_ARRAY):
            return ctx.fail("array_element_differs_from_scalar_call", fn=fn, index=i, T=t, array_si=vals[i], scalar_si=v)


# -- shape --------------------------------------------------------------------------------------------------------------
C0 = 273.15
# (function, varied argument, lo, hi, direction, fixed arguments)
SHAPES = {
    "density_rising": ("water_density", "T", C0, C0 + 3.9, +1),
    "density_falling": ("water_density", "T", C0 + 4.1, C0 + 40.0, -1),
    "viscosity": ("water_viscosity", "T", C0, C0 + 100.0, -1),
    "diffusivity": ("water_self_diffusion_coefficient", "T", C0, C0 + 100.0, +1),
    "permittivity_T": ("water_permittivity", "T", C0, C0 + 350.0, -1),
    "permittivity_P": ("water_permittivity", "P", 0.5, 1000.0, +1),
    "acid_w": ("sulfuric_acid_density", "w", 0.1, 0.9, +1),
}
SHAPE_NAMES = list(SHAPES)


def _shape_eval(name, x, fixed):
    fn, var = SHAPES[name][0], SHAPES[name][1]
    f = _fn(fn)
    if fn == "water_permittivity":
        a = [x, fixed["P"]] if var == "T" else [fixed["T"], x]
    elif fn == "sulfuric_acid_density":
        a = [x, fixed["T"]]
    else:
        a = [x]
    res, _ = call(f, *a, warn=False)
    return res


@st.composite
def shape_cases(draw):
    name = draw(st.sampled_from(SHAPE_NAMES))
    fn, var, lo, hi, sign = SHAPES[name]
    width = hi - lo
    gap = width * 1e-4            # >= 4e-4 K / 0.1 bar / 8e-5 in w: differences stay > 1e-9 relative
    x1 = lo + draw(st.floats(0.0, 1.0)) * (width - gap)
    x2 = x1 + gap + draw(st.floats(0.0, 1.0)) * (hi - x1 - gap)
    x1, x2 = round(x1, 8), round(min(x2, hi), 8)
    fixed = {}
    if name == "permittivity_T":
        fixed["P"] = draw(log_uniform(-0.3, 3.0))
    elif name == "permittivity_P":
        fixed["T"] = round(C0 + draw(st.floats(0.0, 350.0)), 4)
    elif name == "acid_w":
        fixed["T"] = round(C0 + draw(st.floats(0.0, 50.0)), 4)
    return {"shape": name, "x1": x1, "x2": x2, "fixed": fixed}


def check_shape(case, ctx):
    name = case["shape"]
    sign = SHAPES[name][4]
    ctx.label(name)
    ctx.nontrivial(True)
    y1 = _shape_eval(name, case["x1"], case["fixed"])
    y2 = _shape_eval(name, case["x2"], case["fixed"])
    for y in (y1, y2):
        if is_err(y):
            return raised(ctx, y, name)
    y1, y2 = float(y1), float(y2)
    ctx.require(case["x2"] > case["x1"] and (y2 - y1) * sign > 0, "not_monotonic:" + name, y1=y1, y2=y2)


def enum_grid(tier):
    n = 100 if tier == "thorough" else 10
    for name in SHAPE_NAMES:
        fn, var, lo, hi, sign = SHAPES[name]
        if var == "T":
            fixes = [{"P": 1.0}, {"P": 1000.0}, {"P": 31.6}] if name == "permittivity_T" else [{}]
            k = 0
            while lo + k < hi - 1e-9:
                a = lo + k
                b = min(lo + k + 1.0, hi)
                for fx in fixes:
                    yield {"shape": name, "lo": round(a, 6), "hi": round(b, 6), "n": n, "fixed": fx}
                k += 1
        elif var == "P":
            for T in (C0, C0 + 25, C0 + 100, C0 + 200, C0 + 350):
                for k in range(20):
                    yield {"shape": name, "lo": 0.5 if k == 0 else 50.0 * k, "hi": 50.0 * (k + 1), "n": n, "fixed": {"T": T}}
        else:
            for T in (C0, C0 + 10, C0 + 20, C0 + 25, C0 + 37.5, C0 + 50):
                for k in range(16):
                    yield {"shape": name, "lo": round(0.1 + 0.05 * k, 6), "hi": round(0.15 + 0.05 * k, 6), "n": n,
                           "fixed": {"T": T}}
    yield {"shape": "density_maximum", "n": 4000 if tier == "thorough" else 400}


def check_grid(case, ctx):
    name = case["shape"]
    ctx.label(name)
    ctx.nontrivial(True)
    if name == "density_maximum":
        f = _fn("water_density")
        n = case["n"]
        best_t, best = None, -1.0
        for i in range(n + 1):
            t = 40.0 * i / n
            r, _ = call(f, C0 + t, warn=False)
            if is_err(r):
                return raised(ctx, r, name)
            if float(r) > best:
                best_t, best = t, float(r)
        ctx.require(3.9 <= best_t <= 4.1, "density_maximum_location", t_celsius=best_t, rho=best)
        # 999.9750 (Tanaka 2001) / 999.9720 (older tables): +-0.005 covers both
        ctx.require(abs(best - 999.975) <= 0.005, "density_maximum_value", t_celsius=best_t, rho=best)
        return
    sign = SHAPES[name][4]
    lo, hi, n = case["lo"], case["hi"], case["n"]
    prev = None
    for i in range(n + 1):
        x = lo + (hi - lo) * i / n
        y = _shape_eval(name, x, case["fixed"])
        if is_err(y):
            return raised(ctx, y, name)
        y = float(y)
        if prev is not None:
            ctx.require((y - prev[1]) * sign > 0, "not_monotonic:" + name, x1=prev[0], y1=prev[1], x2=x, y2=y)
        prev = (x, y)


# -- anchors -----------------------------------------------------------------------------------------------------------
def enum_anchors(tier):
    # water density, kg/m3: Tanaka et al. 2001 (999.8428, 999.9750 max, 999.7027, 999.1026, 998.2067, 997.0470,
    # 995.6488, 992.2152) and the older CIPM/Kell values quoted by the repo test agree within 0.004; tolerance 0.01
    for t, v in ((0, 999.84), (4, 999.973), (10, 999.702), (15, 999.102), (20, 998.207), (25, 997.047), (30, 995.650),
                 (40, 992.216)):
        yield {"fn": "water_density", "args": [C0 + t], "expected": v, "abs": 0.01, "src": "Tanaka 2001 / CIPM"}
    # Korson, Drost-Hansen, Millero 1969, table II (cP) as quoted by the repo test; the fitted equation reproduces
    # the table within 5e-4, modern (IAPWS) values within 1.5e-3 below 90 C; tolerance 1e-3 cP
    for t, v in ((0, 1.7916), (5, 1.5192), (10, 1.3069), (15, 1.1382), (20, 1.0020), (25, 0.8903), (30, 0.7975),
                 (40, 0.6532), (50, 0.5471), (60, 0.4666), (70, 0.4039), (80, 0.3538), (90, 0.3128)):
        yield {"fn": "water_viscosity", "args": [C0 + t], "expected": v, "abs": 1e-3, "src": "Korson 1969 table II"}
    # Holz, Heil, Sacco 2000 (1e-9 m2/s), stated accuracy <= 1 %
    for t, v in ((0, 1.099), (5, 1.303), (10, 1.525), (15, 1.765), (20, 2.023), (25, 2.299), (30, 2.594), (35, 2.907),
                 (40, 3.238), (45, 3.588), (50, 3.956), (56, 4.423)):
        yield {"fn": "water_self_diffusion_coefficient", "args": [C0 + t], "expected": v * 1e-9, "rel": 0.01,
               "src": "Holz 2000"}
    # static permittivity at 1 bar: Bradley-Pitzer 78.38 at 25 C; CRC/Archer-Wang 87.90, 80.10-80.20, 78.30-78.41,
    # 69.88-69.91, 55.5-55.6: tolerance 0.5 %
    for t, v in ((0, 87.9), (20, 80.2), (25, 78.4), (50, 69.9), (100, 55.5)):
        yield {"fn": "water_permittivity", "args": [C0 + t, 1.0], "expected": v, "rel": 0.005, "src": "CRC / B-P 1979"}
    yield {"fn": "water_permittivity", "args": [], "expected": 78.38, "abs": 0.01, "src": "repo test (defaults 298.15 K, 1 bar)"}
    # aqueous sulfuric acid at 20 C, CRC handbook; the Myhre fit lies within 0.17 % of them: tolerance 0.3 %
    for w, v in ((0.1, 1066.1), (0.2, 1139.4), (0.3, 1218.5), (0.4, 1302.8), (0.5, 1395.1), (0.6, 1498.3), (0.7, 1610.5),
                 (0.8, 1727.2), (0.9, 1814.4)):
        yield {"fn": "sulfuric_acid_density", "args": [w, 293.15], "expected": v, "rel": 0.003, "src": "CRC 20 C"}
    yield {"fn": "sulfuric_acid_density", "args": [0.5, 293.0], "expected": 1396.5, "abs": 0.5, "src": "repo docstring ('%d' -> 1396)"}
    yield {"fn": "sulfuric_acid_density", "args": [0.1, 298.0], "expected": 1063.8, "abs": 0.1, "src": "repo test"}
    yield {"fn": "density_from_concentration", "args": [1000.0], "expected": 1058.5, "abs": 0.1, "src": "repo test"}
    yield {"fn": "density_from_concentration", "args": [400.0, 293.0], "expected": 1021.5, "abs": 0.5, "src": "repo docstring ('%d' -> 1021)"}
    # defaults: T=None means 298.15 K
    for fn in ("water_density", "water_viscosity", "water_self_diffusion_coefficient"):
        yield {"fn": fn, "args": [], "same_as": [298.15], "src": "documented default T"}
    yield {"fn": "sulfuric_acid_density", "args": [0.3], "same_as": [0.3, 298.15], "src": "documented default T"}


ANCHOR_DIMS = {"water_density": (DIM_DENSITY, 1.0, "K"), "water_viscosity": (DIM_VISC, 1e-3, "K"),
               "water_self_diffusion_coefficient": (DIM_DIFF, 1.0, "K"), "water_permittivity": (DIM_NONE, 1.0, "K"),
               "sulfuric_acid_density": (DIM_DENSITY, 1.0, None), "density_from_concentration": (DIM_DENSITY, 1.0, None)}


def check_anchor(case, ctx):
    fn = case["fn"]
    f = _fn(fn)
    ctx.label(fn, "src:" + case["src"])
    ctx.nontrivial(True)
    res, msgs = call(f, *case["args"])
    if is_err(res):
        return raised(ctx, res, "plain", fn=fn)
    ctx.require(not msgs, "range_warning_spurious:anchor", fn=fn, messages=msgs)
    val = float(res)
    if "same_as" in case:
        other, _ = call(f, *case["same_as"])
        if is_err(other):
            return raised(ctx, other, "plain", fn=fn)
        ctx.require(val == float(other), "default_argument", fn=fn, got=val, expected=float(other))
    else:
        tol = case.get("abs", 0.0) + case.get("rel", 0.0) * abs(case["expected"])
        ctx.require(abs(val - case["expected"]) <= tol, "anchor_value:" + fn, args=case["args"], got=val,
                    expected=case["expected"], tolerance=tol)
    # the same point with units=default_units and the documented units
    dim, doc, _ = ANCHOR_DIMS[fn]
    du = _du()
    if fn in ("water_density", "water_viscosity", "water_self_diffusion_coefficient"):
        qa = [x * du.kelvin for x in case["args"]]
    elif fn == "water_permittivity":
        qa = [x * un for x, un in zip(case["args"], (du.kelvin, du.bar))]
    elif fn == "sulfuric_acid_density":
        qa = case["args"][:1] + [x * du.kelvin for x in case["args"][1:]]
    else:
        qa = [case["args"][0] * du.mol / du.metre ** 3] + [x * du.kelvin for x in case["args"][1:]]
    resu, msgs = call(f, *qa, units=du)
    if is_err(resu):
        return raised(ctx, resu, "units", fn=fn)
    ctx.require(not msgs, "range_warning_spurious:anchor", fn=fn, messages=msgs)
    uval, udim, _ = observe(resu)
    ctx.require(same_dim(udim, dim), "result_dimension", fn=fn, got=list(udim), expected=list(dim))
    ctx.require(close(uval, val * doc, REL_MODE, 1.5e-3 if fn == "density_from_concentration" else 0.0),
                "value_differs_between_modes", fn=fn, got_si=uval, plain_si=val * doc)


# -- edges -------------------------------------------------------------------------------------------------------------
def enum_edges(tier):
    up, down = math.inf, -math.inf
    # (fn, args, kwargs, expected kinds): boundaries are float-exact in every one of these
    rows = [
        ("water_density", [0.0], {"T0": 0.0}, []), ("water_density", [40.0], {"T0": 0.0}, []),
        ("water_density", [math.nextafter(40.0, up)], {"T0": 0.0}, ["T"]),
        ("water_density", [-5e-324], {"T0": 0.0}, ["T"]),
        ("water_density", [273.15], {}, []), ("water_density", [313.15], {}, []),
        ("water_density", [math.nextafter(273.15, down)], {}, ["T"]),
        ("water_viscosity", [273.15], {}, []), ("water_viscosity", [373.15], {}, []),
        ("water_viscosity", [math.nextafter(273.15, down)], {}, ["T"]),
        ("water_self_diffusion_coefficient", [273.15], {}, []), ("water_self_diffusion_coefficient", [373.15], {}, []),
        ("water_self_diffusion_coefficient", [math.nextafter(273.15, down)], {}, ["T"]),
        ("water_self_diffusion_coefficient", [math.nextafter(373.15, up)], {}, ["T"]),
        ("water_permittivity", [273.15], {}, []), ("water_permittivity", [623.15], {}, []),
        ("water_permittivity", [math.nextafter(273.15, down)], {}, ["T"]),
        ("sulfuric_acid_density", [0.5, 0.0], {"T0": 0.0}, []), ("sulfuric_acid_density", [0.5, 50.0], {"T0": 0.0}, []),
        ("sulfuric_acid_density", [0.5, math.nextafter(50.0, up)], {"T0": 0.0}, ["T"]),
        ("sulfuric_acid_density", [0.5, -5e-324], {"T0": 0.0}, ["T"]),
        ("sulfuric_acid_density", [0.1, 298.15], {}, []), ("sulfuric_acid_density", [0.9, 298.15], {}, []),
        ("sulfuric_acid_density", [math.nextafter(0.1, down), 298.15], {}, ["w"]),
        ("sulfuric_acid_density", [math.nextafter(0.9, up), 298.15], {}, ["w"]),
    ]
    for fn, a, k, want in rows:
        for mode in ("plain", "units"):
            yield {"fn": fn, "args": a, "kwargs": k, "want": want, "mode": mode}


def check_edge(case, ctx):
    fn = case["fn"]
    f = _fn(fn)
    ctx.label(fn, case["mode"], "expect:" + ("+".join(case["want"]) or "none"))
    ctx.nontrivial(True)
    a, k = list(case["args"]), dict(case["kwargs"])
    if case["mode"] == "units":
        du = _du()
        ti = 1 if fn == "sulfuric_acid_density" else 0
        a[ti] = a[ti] * du.kelvin
        if "T0" in k:
            k["T0"] = k["T0"] * du.kelvin
        k["units"] = du
    res, msgs = call(f, *a, **k)
    if is_err(res):
        return raised(ctx, res, case["mode"], fn=fn)
    judge_warnings(ctx, msgs, True, set(case["want"]), "boundary")
    res, msgs = call(f, *a, warn=False, **k)
    if is_err(res):
        return raised(ctx, res, case["mode"], fn=fn)
    judge_warnings(ctx, msgs, False, set(), "boundary")


TOL = {"between call modes (relative)": REL_MODE, "closed forms vs 2019 SI constants (relative)": REL_CONST,
       "dimension exponents": 1e-9}

SUBCHECKS = [
    SubCheck("water", check_water, strategy=water_cases(), quick=1000, thorough=50000, tolerances=TOL,
             rule="4 water correlations x {plain, units} x T in K|mK, P in bar|Pa|atm, T0 in K|mK, warn on/off"),
    SubCheck("sulfuric", check_sulfuric, strategy=sulfuric_cases(), quick=400, thorough=20000, tolerances=TOL,
             rule="w over 0.001..1, T over 263..333 K (0.15 K strips around 273/323 K where docstring and warning text "
                  "disagree are not generated)"),
    SubCheck("dfc", check_dfc, strategy=dfc_cases(), quick=400, thorough=12000,
             tolerances={"inverse residual": "atol + 1e-12*rho", "between modes": "1.5*atol + 1e-9*rho",
                         "steps needed, grey zone on |delta| vs atol": "1e-11*rho + 1e-9*atol"},
             rule="c 100..10000 mol/m3 in mol/m3|M|mM, T K|mK or default, molar mass kg/mol|g/mol, atol; maxiter default "
                  "(10) | 3..12 | 300; returns iff the re-implemented fixed-point iteration needs <= maxiter steps"),
    SubCheck("schumpe", check_schumpe, strategy=schumpe_cases(), quick=300, thorough=14000,
             tolerances={"value": "1e-9 * sum |terms|"}, rule="1-4 distinct ions, 1e-3..5 M in M|mM|uM|mol/m3, 15 gases"),
    SubCheck("henry", check_henry, strategy=henry_cases(), quick=500, thorough=25000, tolerances=TOL,
             rule="Henry (plain / units=) and HenryWithUnits; Hcp 1e-6..1e2 M/atm, Tderiv -2000..10000 K, T 250..400 K"),
    SubCheck("nernst", check_nernst, strategy=nernst_cases(), quick=400, thorough=20000, tolerances=TOL,
             rule="c 1e-7..10 M, z in +-1..3, T 250..400 K; plain / units=(with or without constants) / constants only"),
    SubCheck("mobility", check_mobility, strategy=mobility_cases(), quick=250, thorough=10000, tolerances=TOL,
             rule="D 1e-12..1e-7 m2/s in m2/s|cm2/s, z in +-1..3, T 250..400 K in K|mK"),
    SubCheck("shape", check_shape, strategy=shape_cases(), quick=400, thorough=20000,
             rule="ordered pairs at least 1e-4 of the range apart"),
    SubCheck("grid", check_grid, enumerate=enum_grid, exhaustive=lambda tier: True,
             rule="1 K (50 bar, 0.05 w) segments with 10 (quick) / 100 (thorough) steps each; density maximum on a "
                  "0.1 K / 0.01 K grid"),
    SubCheck("anchors", check_anchor, enumerate=enum_anchors, rule="published table values, plain and units=default_units"),
    SubCheck("edges", check_edge, enumerate=enum_edges, rule="float-exact boundaries, inclusive; one ulp beyond warns"),
    SubCheck("options", check_options, strategy=option_cases(), quick=500, thorough=25000, tolerances=TOL,
             rule="err_mult pairs in -3..3 (int / float, tuple / list); a= and U= = published parameters x (1 + k/1000), given "
                  "as plain floats or as quantities in K|mK, kg/m3|g/cm3, bar|Pa|atm; T as in `water`; plain / units"),
    SubCheck("arrays", check_arrays, strategy=array_cases(), quick=800, thorough=40000,
             tolerances={"array element vs scalar call (relative)": REL_ARRAY, "dimension exponents": 1e-9},
             rule="numpy array of 2-8 temperatures per call, each drawn below / inside / above the range (Henry: 250-400 "
                  "K); 4 water correlations (permittivity with P absent / scalar / array) and Henry / HenryWithUnits, "
                  "plain and units mode (T in K|mK); in-range elements == scalar calls, warning iff any element outside"),
]

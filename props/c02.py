# -*- coding: utf-8 -*-
"""C02 - balancing returns only balanced, positive, canonical coefficients or refuses."""
from fractions import Fraction
from functools import reduce
from math import gcd

from vlib import env  # noqa  (sys.path)
from vlib.harness import SubCheck, sut, is_err, short
from vlib import gen_c02 as G

PROPERTY = "C02"
LEVEL = "exploration"
RULE = ("Balancing problems are JSON descriptions (species -> composition incl. signed charge, placement on the two "
        "sides).  'synthetic': 2-6 species over 1-4 element keys (+ charge row), species built fresh / as combinations, "
        "multiples or isomers of earlier ones (rank-deficient, nullity 0-4), rare decimal entries; sides planted from an "
        "integer null vector (60 %), planted with one species moved to the wrong side (25 %), free (15 %).  'textbook': "
        "46 literature reactions given as formulas (chempy parses them; the oracle uses an own mini-parser), optionally "
        "reversed / one species moved, dropped or added.  Every case is run with underdetermined=True, False and None. "
        "'duplicates': the same problems with 1-2 species listed on both sides, allow_duplicates=True, mode None.  "
        "'large': 7-16 species with a 1-3 dimensional solution space by construction (a positive vector and a placement "
        "are drawn, the species are joined by a forest of pairwise keys, the keys are then mixed, duplicated, one turned "
        "into a signed charge row; one species moved to the wrong side or dropped in 30 %), and unions of 2-5 disjoint "
        "textbook reactions as formulas.  'fractional': 2-7 formula-like species over O + 1-3 elements where one or two "
        "species carry one or two decimal subscripts (tenths, steps of 0.05, quarters, A(x)B(1-x)), as composition dicts "
        "or as formulas parsed by chempy ('La0.6Sr0.4CoO3'); the oracle reads the decimals as exact Fractions.  The "
        "oracle is exact (Fraction RREF null space, enumerated / certificate-checked feasibility, exhaustive search for "
        "a smaller coefficient sum).  Non-trivial = at least one mode returned an answer, or the case is a planted "
        "wrong-side case (all modes must refuse); distinct by case digest.")
# Judgement calls (see the final report):
#  * "feasible => must answer" is demanded only where the statement promises an answer: single-ray problems (all
#    modes) and mode None; mode False may refuse any under-determined problem, mode True is only judged when it answers.
#  * allow_duplicates: the answer must be a placement of the given species (every non-duplicated species kept, each
#    duplicated one on at most one of its sides) that satisfies the mode-None clauses for that placement; a refusal is
#    a violation only if a placement keeping *every* species is feasible.
#  * the three gcd normalisations in chempy are mutually redundant; only their joint removal changes answers.
ASSUMPTIONS = ["scipy.optimize.linprog (HiGHS) only proposes witnesses/certificates; each is verified with Fractions",
               "vlib/refdata.py symbol->Z table for the textbook formulas",
               "minimal-sum clause certified by complete enumeration only when (sum-n)^nullity <= 3e6, else counted "
               "as minimality_skipped",
               "a call whose external CBC process runs longer than CBC_TIMEOUT_S is killed and counted as "
               "inconclusive (the property speaks about what is returned; ordinary calls need 0.02-0.5 s)"]

MODES = (True, False, None)


def _bs():
    from chempy import balance_stoichiometry, Substance
    return balance_stoichiometry, Substance


def _substances(case, Substance):
    from collections import OrderedDict
    out = OrderedDict()
    for name, comp in case["species"].items():
        c = {}
        for k, v in comp.items():
            fr = G.frac(v)
            c[int(k)] = int(fr) if fr.denominator == 1 else float(fr)
        out[name] = Substance(name, composition=c)
    return out


def _call_args(case, Substance):
    reac, prod = list(case["reac"]), list(case["prod"])
    if case.get("container") == "set":
        reac, prod = set(reac), set(prod)
    how = case.get("substances", "dict")
    kw = {}
    if how == "dict":
        kw["substances"] = _substances(case, Substance)
    elif how == "string":
        kw["substances"] = " ".join(list(case["reac"]) + [p for p in case["prod"] if p not in case["reac"]])
    return reac, prod, kw


# underdetermined=None hands the integer programme to an external CBC process without any limit.  For a few inputs
# (no upper bounds, non-integer matrix entries, e.g. {H2.4 O0.75} + {HO} -> {H0.4 O0.6} + {H2}) CBC keeps branching for
# many minutes.  The property speaks about what balancing *returns*, so such a call is inconclusive: after
# CBC_TIMEOUT_S the CBC child processes of this worker are killed (pulp then raises) and the mode is skipped.
# Ordinary calls take 0.02-0.1 s.
CBC_TIMEOUT_S = 4.0


def _kill_cbc_children():
    """Kill the CBC processes started by this worker; returns the model files they were given (pulp leaves them)."""
    import psutil
    files = []
    for ch in psutil.Process().children(recursive=True):
        try:
            if ch.name().startswith("cbc"):
                files.extend(a for a in ch.cmdline()[1:] if a.endswith("-pulp.mps"))
                ch.kill()
                files.append(None)
        except psutil.Error:
            pass
    return files


def _sut_guarded(fn, *a, **k):
    """sut(fn, ...) with the CBC watchdog.  Returns (result, timed_out)."""
    import signal
    import threading
    if threading.current_thread() is not threading.main_thread():
        return sut(fn, *a, **k), False
    state = {"killed": []}

    def on_alarm(signum, frame):
        state["killed"].extend(_kill_cbc_children())

    old = signal.signal(signal.SIGALRM, on_alarm)
    signal.setitimer(signal.ITIMER_REAL, CBC_TIMEOUT_S, 1.0)     # repeat: a child started a moment later is caught too
    try:
        res = sut(fn, *a, **k)
    finally:
        signal.setitimer(signal.ITIMER_REAL, 0)
        signal.signal(signal.SIGALRM, old)
        import os
        for f in state["killed"]:
            for ext in (".mps", ".sol", ".mst", ".lp") if f else ():
                try:
                    os.remove(f[:-4] + ext)
                except OSError:
                    pass
    return res, bool(state["killed"])


def _mode_name(mode):
    return {True: "True", False: "False", None: "None"}[mode]


def _coefficients(res, names_r, names_p, ctx, mname, exact_keys=True):
    """Validate the shape of a returned pair of mappings; returns {name: coeff} per side or None after a failure."""
    if not (isinstance(res, tuple) and len(res) == 2 and all(hasattr(x, "keys") for x in res)):
        ctx.fail("not_a_pair_of_mappings", mode=mname, got=short(repr(res), 200))
        return None
    r, p = res
    if exact_keys:
        if set(r.keys()) != set(names_r) or set(p.keys()) != set(names_p) or \
                len(r) != len(set(names_r)) or len(p) != len(set(names_p)):
            ctx.fail("keys_differ_from_species_given", mode=mname, got=[sorted(map(str, r)), sorted(map(str, p))],
                     expected=[sorted(names_r), sorted(names_p)])
            return None
    return r, p


def _as_int(c):
    """Exact integer value of a returned coefficient (python int / sympy Integer), else None."""
    if isinstance(c, bool):
        return None
    if isinstance(c, int):
        return c
    if getattr(c, "is_Integer", False):
        return int(c)
    return None


def _free_symbols(coeffs):
    fs = set()
    for c in coeffs:
        fs |= set(getattr(c, "free_symbols", ()))
    return fs


def _balanced(an, coeffs):
    """coeffs in the column order of an['names'].  Exact: Fractions for numbers, sympy expand for expressions."""
    import sympy
    cs = []
    for c in coeffs:
        i = _as_int(c)
        cs.append(sympy.Integer(i) if i is not None else sympy.sympify(c))
    if any(c.has(sympy.nan, sympy.zoo, sympy.oo, -sympy.oo) for c in cs):
        return None, "coefficient is nan/infinite", False
    for k, row in zip(an["keys"], an["A"]):
        tot = sum(sympy.Rational(a.numerator, a.denominator) * c for a, c in zip(row, cs))
        tot = sympy.expand(tot)
        if tot != 0:
            # size of the residual relative to the sum of absolute terms (only used to describe the failure:
            # 'roundoff' = the answer was evidently computed in floating point; the clause is exact either way)
            one = {s_: 1 for c in cs for s_ in c.free_symbols}      # free parameters evaluated at 1
            scale = sum(abs(sympy.Rational(a.numerator, a.denominator) * c.subs(one)) for a, c in zip(row, cs))
            res1 = abs(tot.subs(one))
            rel = bool(scale.is_number and scale != 0 and res1 / scale < sympy.Rational(1, 10 ** 9))
            return k, str(tot), rel
    return None


def _judge_numeric(ctx, an, coeffs, mname, names):
    """Clauses of the two numeric modes: positive integers, coprime."""
    ints = [_as_int(c) for c in coeffs]
    if any(i is None for i in ints):
        ctx.fail("numeric_mode_non_integer_coefficient", mode=mname, got=[str(c) for c in coeffs], species=names)
        return None
    if any(i <= 0 for i in ints):
        ctx.fail("non_positive_coefficient", mode=mname, got=ints, species=names)
        return None
    if reduce(gcd, ints) != 1:
        ctx.fail("not_coprime", mode=mname, got=ints, species=names)
        return None
    return ints


def _minimality(ctx, an, ints, mname, names):
    total = sum(ints)
    better, complete = G.smaller_sum_solution(an, total)
    if not complete:
        ctx.label("minimality_skipped")
        return
    ctx.label("minimality_checked")
    if better is not None:
        ctx.fail("not_minimal_coefficient_sum", mode=mname, got=ints, smaller=better, species=names,
                 nullity=an["nullity"], sum_got=total, sum_smaller=sum(better))


def check_balance(case, ctx):
    bs, Substance = _bs()
    an = G.analyse(case)
    names = an["names"]
    d = an["nullity"]
    pos_ray = d == 1 and an["feasible"]
    ctx.label("kind:" + case["kind"], "plan:%s" % case.get("plan"), "nullity:%s" % (d if d < 4 else "4+"),
              "feasible:%s" % {True: "yes", False: "no", None: "undetermined"}[an["feasible"]],
              "substances:" + case.get("substances", "dict"), "container:" + case.get("container", "list"))
    if case.get("decimal"):
        ctx.label("decimal_composition")
    if case.get("via"):
        ctx.label("via:" + case["via"])
    ctx.label("nspecies:%s" % ("2-6" if an["n"] <= 6 else "7-10" if an["n"] <= 10 else "11-16"))
    if any("0" in c for c in case["species"].values()):
        ctx.label("charged")
    if d == 1:
        if pos_ray:
            ctx.label("single_ray:positive")
        if 0 in an["ray"]:
            ctx.label("single_ray:zero_entry")
        if min(an["ray"]) < 0 < max(an["ray"]):
            ctx.label("single_ray:mixed_signs")
    if len(an["keys"]) > an["rank"]:
        ctx.label("rank_deficient_rows")
    returned_any = False
    for mode in MODES:
        mname = _mode_name(mode)
        reac, prod, kw = _call_args(case, Substance)
        res, timed_out = _sut_guarded(bs, reac, prod, underdetermined=mode, **kw)
        if timed_out:
            ctx.skip("cbc_killed_after_%gs" % CBC_TIMEOUT_S)
            continue
        if is_err(res):
            ctx.label("%s:raised" % mname)
            if res.type != "ValueError":
                ctx.fail("wrong_exception_type", mode=mname, error=repr(res))
                continue
            if pos_ray:
                ctx.fail("single_ray_solution_refused", mode=mname, expected=an["ray"], species=names, error=repr(res))
            elif mode is None and an["feasible"]:
                ctx.fail("feasible_problem_refused_by_smallest_integers_mode", witness=an["witness"], species=names,
                         error=repr(res))
            continue
        returned_any = True
        ctx.label("%s:returned" % mname)
        rp = _coefficients(res, case["reac"], case["prod"], ctx, mname)
        if rp is None:
            continue
        r, p = rp
        coeffs = [r[n] for n in case["reac"]] + [p[n] for n in case["prod"]]
        bad = _balanced(an, coeffs)
        if bad is not None:
            ctx.fail("unbalanced", mode=mname, key=bad[0], residual=bad[1], roundoff_sized=bad[2],
                     got=[str(c) for c in coeffs], species=names)
            continue
        fs = _free_symbols(coeffs)
        if fs:
            ctx.label("parametric_answer")
        ints = None
        if mode is not True:
            if fs:
                ctx.fail("numeric_mode_returned_free_symbols", mode=mname, got=[str(c) for c in coeffs])
                continue
            ints = _judge_numeric(ctx, an, coeffs, mname, names)
            if ints is None:
                continue
        # single ray: the unique minimal solution in every mode / refusal when it is not positive
        if d == 1:
            if pos_ray:
                got = [_as_int(c) for c in coeffs]
                if got != an["ray"]:
                    ctx.fail("single_ray_not_the_minimal_solution", mode=mname, got=[str(c) for c in coeffs],
                             expected=an["ray"], species=names)
            else:
                ctx.fail("infeasible_single_ray_answered", mode=mname, got=[str(c) for c in coeffs], ray=an["ray"],
                         species=names)
            continue
        if an["feasible"] is False:
            if fs:
                # parametric family although no member of it is positive
                # manifest = a single coefficient is negative for every positive value of the parameters
                manifest = any(bool(getattr(c, "is_negative", False)) for c in coeffs)
                ctx.fail("infeasible_answered_parametric", mode=mname, got=[str(c) for c in coeffs],
                         certificate=an["certificate"], species=names, nullity=d, manifest=manifest)
            else:
                ctx.fail("infeasible_answered", mode=mname, got=[str(c) for c in coeffs], species=names, nullity=d)
            continue
        if mode is None and ints is not None:
            _minimality(ctx, an, ints, mname, names)
    if an["feasible"] is None:
        ctx.label("feasibility_undetermined")
    ctx.nontrivial(returned_any or case.get("plan") == "wrong_side")


# ---------------------------------------------------------------------------
# allow_duplicates=True (only defined for underdetermined=None)
# ---------------------------------------------------------------------------

def _placements(case):
    """All ways to keep each duplicated species on the reactant side, the product side, or on neither."""
    dups = [n for n in case["reac"] if n in case["prod"]]
    base_r = [n for n in case["reac"] if n not in dups]
    base_p = [n for n in case["prod"] if n not in dups]
    out = []

    def rec(i, r, p, dropped):
        if i == len(dups):
            out.append((list(r), list(p), dropped))
            return
        rec(i + 1, r, p, True)
        rec(i + 1, r + [dups[i]], p, dropped)
        rec(i + 1, r, p + [dups[i]], dropped)
    rec(0, base_r, base_p, False)
    return dups, out


def check_duplicates(case, ctx):
    bs, Substance = _bs()
    dups, placements = _placements(case)
    ctx.label("kind:" + case["kind"], "ndups:%d" % len(dups))
    identical = set(case["reac"]) == set(case["prod"])
    if identical:
        ctx.label("identical_sides")
    reac, prod, kw = _call_args(case, Substance)
    res, timed_out = _sut_guarded(bs, reac, prod, underdetermined=None, allow_duplicates=True, **kw)
    if timed_out:
        ctx.skip("cbc_killed_after_%gs" % CBC_TIMEOUT_S)
        return
    if is_err(res):
        ctx.label("raised")
        if res.type != "ValueError":
            ctx.fail("wrong_exception_type", error=repr(res))
            return
        if identical:
            return
        # Judged: a placement that keeps every given species (each duplicate on one of its two sides) is feasible.
        # Not judged (label only): only placements that drop a duplicate altogether are feasible - with an explicit
        # `substances` mapping chempy then still sees the dropped species' composition keys and refuses.
        feas_full, feas_drop = [], []
        for r_, p_, dropped in placements:
            if r_ and p_:
                a = G.analyse(case, r_, p_)
                if a["feasible"]:
                    (feas_drop if dropped else feas_full).append((r_, p_, a["witness"]))
        ctx.label("refused:" + ("full_placement_feasible" if feas_full else
                                "only_dropping_placement_feasible" if feas_drop else "no_feasible_placement_found"))
        if feas_full:
            ctx.fail("feasible_duplicate_placement_refused", placement=[feas_full[0][0], feas_full[0][1]],
                     witness=feas_full[0][2], error=repr(res))
        return
    ctx.label("returned")
    ctx.nontrivial(True)
    rp = _coefficients(res, None, None, ctx, "None", exact_keys=False)
    if rp is None:
        return
    r, p = rp
    rk, pk = list(r.keys()), list(p.keys())
    nd_r = [n for n in case["reac"] if n not in dups]
    nd_p = [n for n in case["prod"] if n not in dups]
    ok = (set(rk) <= set(case["reac"]) and set(pk) <= set(case["prod"]) and set(nd_r) <= set(rk)
          and set(nd_p) <= set(pk) and not (set(rk) & set(pk)))     # a side may end up empty (ions cancelling)
    if not ok:
        ctx.fail("keys_not_a_placement_of_the_species_given", got=[sorted(map(str, rk)), sorted(map(str, pk))],
                 given=[case["reac"], case["prod"]])
        return
    ctx.label("dups_kept:%d" % len([n for n in dups if n in rk or n in pk]))
    an = G.analyse(case, rk, pk)
    coeffs = [r[n] for n in rk] + [p[n] for n in pk]
    bad = _balanced(an, coeffs)
    if bad is not None:
        ctx.fail("unbalanced", mode="None", key=bad[0], residual=bad[1], roundoff_sized=bad[2],
                 got=[str(c) for c in coeffs], species=an["names"])
        return
    if _free_symbols(coeffs):
        ctx.fail("numeric_mode_returned_free_symbols", got=[str(c) for c in coeffs])
        return
    ints = _judge_numeric(ctx, an, coeffs, "None", an["names"])
    if ints is None:
        return
    if an["nullity"] == 1 and ints != an["ray"]:
        ctx.fail("single_ray_not_the_minimal_solution", got=ints, expected=an["ray"], species=an["names"])
        return
    _minimality(ctx, an, ints, "None", an["names"])


SUBCHECKS = [
    SubCheck("synthetic", check_balance, strategy=G.synthetic_cases(), quick=1200, thorough=40000,
             rule="G2 synthetic species, 2-6 species, 1-4 keys + charge; planted / wrong-side / free; 3 modes each"),
    SubCheck("textbook", check_balance, strategy=G.textbook_cases(), quick=300, thorough=6000,
             rule="46 literature reactions as formulas, optionally reversed / species moved, dropped, added; "
                  "substances=None / dict / string; 3 modes each"),
    SubCheck("large", check_balance, strategy=G.large_cases(), quick=200, thorough=4000,
             rule="7-16 species: x > 0 and placement drawn first, species joined by a forest of pairwise keys (nullity "
                  "1-3 by construction), keys then mixed / duplicated / one turned into a charge row; planted, one "
                  "species on the wrong side, one species dropped; plus unions of 2-5 disjoint textbook reactions as "
                  "formulas; 3 modes each"),
    SubCheck("fractional", check_balance, strategy=G.fractional_cases(), quick=600, thorough=12000,
             rule="2-7 formula-like species over O + 1-3 elements, one or two species with one or two decimal "
                  "subscripts (tenths, 0.05 steps, quarters; A(x)B(1-x) substitution), as composition dicts or as "
                  "formulas parsed by chempy ('La0.6Sr0.4CoO3'); planted on both sides; 3 modes each"),
    SubCheck("duplicates", check_duplicates, strategy=G.duplicate_cases(), quick=300, thorough=6000,
             rule="allow_duplicates=True, underdetermined=None, 1-2 species on both sides; returned placement judged "
                  "like mode None; refusal requires every placement (3^k) to be infeasible"),
]

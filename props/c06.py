# -*- coding: utf-8 -*-
"""C06 - integrated kinetics reproduce exact solutions and stay physically admissible.

Pipeline under test (only public API, observed at the stated points):
    text --ReactionSystem.from_string--> rsys --get_odesys--> (odesys, extra)
    odesys.integrate(tout, c0, integrator='scipy', atol, rtol) -> xout, yout, info
    extra['max_euler_step_cb'](t0, c0) -> h
    rsys.upper_conc_bounds(c0)            (the "elemental upper bound" the Euler step is advertised against)
Oracles (vlib/gen_c06.py, no chempy): exact matrix exponential of the first-order network assembled from the JSON
description (integer fixed-point scaling-and-squaring, checked against mpmath.expm to 1e-38), own Riccati closed
forms for A + B -> C, A + B <-> C, 2 A -> C, 2 A <-> C, the autocatalytic step A + B -> 2 B (<-> ; logistic) and the
catalysed step A + C -> B + C (<->) at 60 digits, exact (Fraction) mass-action right-hand side (inactive co-reactants
'(n Y)' are consumed but do not enter the rate) and elemental supply bounds.
"""
from fractions import Fraction

from vlib import env  # noqa  (sys.path)
from vlib.harness import SubCheck, sut, is_err, short
from vlib import gen_c06 as G

PROPERTY = "C06"
LEVEL = "exploration"
RULE = ("Reaction systems are JSON descriptions built by construction (species = base fragment | isomer | sum of a "
        "multiset of earlier species; a first-order reaction X -> products is [X] rewritten into isomers/defining "
        "multisets, hence balanced with branches, cycles and chains; single bimolecular steps from a table of 13 real "
        "triples/dimerisations, optionally with the reverse reaction), rendered as text (three coefficient styles, "
        "side order, comment lines, int/float constants) and parsed by ReactionSystem.from_string with substances "
        "given as None/list/str/explicit Substance objects in a drawn order.  Rate constants log-uniform over 8 "
        "decades (12 in 'net_wide'), c0 in {0, 1, 10**[-3,3]}, 3-8 output times log-uniform from 0.01/k_max to "
        "10/k_min after t0.  Non-trivial (net): the network has a branch or a cycle and >= 3 decades between its "
        "fastest and slowest constant and at least one reactant is initially present; (bimol): a reversible step, or "
        "a0 = b0, or a dimerisation, or a species on both sides of the step (A + B -> 2 B with A, B isomers from a "
        "table of 6 pairs, either of them the autocatalyst; A + C -> B + C with one of 6 catalysts), both also with the "
        "reverse step.  (net_inact): the left-hand side of a first-order step is rewritten as well, one entry is the "
        "active reactant X, the others are inactive co-reactants written '(Y)', '(2 Y)', '(2 * Y)' or '(Y) + (Y)' "
        "before or after X (Y = X allowed; a Y != X - a reagent - is never an active reactant, so the network stays "
        "linear with d[Y]/dt = -n k [X] and everything else independent of [Y]); the reagent's c0 = exact total "
        "consumption up to the last output time x {1, 2, 10, 1000} + a drawn extra amount, so that the exact solution "
        "stays >= 0; output times end at 10/k of the fastest reagent-consuming step; the Euler-step clause is judged "
        "at (t0, c0) and at a second state with scarce reagents (theta x consumption rate x lower estimate of the step "
        "the other species allow, theta in {.5, .1, .9, .01, .999, 3}).  Non-trivial (net_inact): a reagent is consumed "
        "by a step whose active reactant is initially present.  Distinct by case digest.")
ASSUMPTIONS = [
    "scipy's LSODA (through pyodesys 0.14.7) is the delegated solver; its failure or an unsuccessful info flag is "
    "counted as inconclusive",
    "vlib/gen_c06.py: integer fixed-point exp(M t) (validated against mpmath.expm, 1e-38) and Riccati closed forms "
    "(validated against LSODA at rtol 1e-12) are the exact solutions",
    "hand-written compositions of the 13 bimolecular triples, 6 isomer pairs, 6 catalysts and a 6-element symbol "
    "table",
    "a zeroth-order (inactive) co-reactant can be driven negative by the model itself; only systems whose exact "
    "solution stays non-negative over the output times are integrated (supply sized from the exact consumption)",
]

RTOL = 1e-10          # requested from the solver; atol = 1e-10 * S
AGREE = 1e-6          # |yout - exact| <= AGREE * S       (S = largest elemental total concentration)
AGREE_WIDE = 1e-5     # the same for 'net_wide' (12 decades of time scales) and 'net_inact', see TOLERANCES
ADMIT = 1e-7          # -ADMIT*S <= yout <= elemental bound + ADMIT*S
TOLERANCES = {
    "requested": "rtol = 1e-10, atol = 1e-10*S, S = max over elements of the total elemental concentration of c0",
    "agreement": "|yout - exact| <= 1e-6*S for 'net' and 'bimol' (4 decades above the requested local tolerance), "
                 "1e-5*S for 'net_wide'.  Calibration on the pinned tree (labels 'dev<=1e-k' = worst deviation / S of "
                 "a case): 36 000 networks over 8 decades: all <= 1e-8 (122 cases above 1e-9); 18 000 bimolecular "
                 "systems: all <= 1e-8 (1 above 1e-9); 16 000 networks over 12 decades / <= 10 species: all <= 1e-7 "
                 "(12 above 1e-8; largest of a separately measured 3 200-case sample: 2.8e-8 at nfev = 97, i.e. LSODA's "
                 "error control rather than accumulation over many steps) - "
                 "hence one more decade for 'net_wide'; >= 100x slack everywhere.  A rate mis-scaled by a "
                 "stoichiometric factor moves yout by O(S).  'net_inact': 1e-5*S (24 000 networks with inactive "
                 "co-reactants: worst 2.6e-8*S, 5 above 2e-8 - reagent-fed growth, horizon capped at exp(3)).  "
                 "Autocatalytic steps A + B -> 2 B ('bimol'): 1e-6*S*max(1, T/w0), T = a0 + b0, w0 = initial "
                 "autocatalyst - the condition number of logistic growth from a seed (9 000 systems: worst deviation "
                 "1e-5*S at T/w0 = 7e5, i.e. ~1e-10*S*T/w0 = the absolute local tolerance times the amplification; "
                 "normalised all <= 1e-9); catalysed steps: 4 500 systems all <= 1e-9*S.",
    "admissible": "yout >= -1e-7*S and yout <= min_e(supply_e/atoms_e) + 1e-7*S (3 decades above atol; calibration, "
                  "labels 'outside<=1e-k': largest excursion in 70 000 systems <= 1e-9*S, 9 above 1e-10*S)",
    "xout": "|xout - tout| <= 1e-12*max(1,|tout|)",
    "euler": "at (t0, c0): 0 < h <= 1 and every component of c0 + h*f_exact(c0) in [-eps, bound + eps*W]; at the "
             "middle output time with state max(yout, 0): h <= 1 and, if h > 0, the same containment; "
             "eps = 1e-12*(S + h*sum|terms of f|) (h = -y/f is formed in float64: the overshoot is at most "
             "h*|f_float - f_exact| <= h*n*2**-53*sum|terms|), W = number of atoms summed over all species",
    "upper_conc_bounds": "bound_chempy <= elemental bound*(1+1e-12) and bound_chempy >= exact c_i(t)*(1-1e-9) at "
                         "t0 and every output time",
}


def _build(case, ctx):
    """text -> ReactionSystem -> (odesys, extra).  Every description is valid by construction, so an exception from
    chempy here is a violation (reported by the harness as sut_exception:<Type>)."""
    from collections import OrderedDict
    from chempy import ReactionSystem, Substance
    from chempy.kinetics.ode import get_odesys
    text = G.system_text(case)
    keys = [s["key"] for s in case["species"]]
    mode = case["subst"]["mode"]
    order = case["subst"]["order"]
    if mode == "none":
        arg = None
    elif mode == "list":
        arg = [keys[i] for i in order]
    elif mode == "str":
        arg = " ".join(keys[i] for i in order)
    else:
        arg = OrderedDict()
        for i in order:
            comp = {int(z): c for z, c in case["species"][i]["comp"].items()}
            arg[keys[i]] = Substance(keys[i], composition=comp)
    rsys = ReactionSystem.from_string(text, arg)
    b = case.get("builder")
    if b:
        # optional builder arguments that leave the physical system unchanged: variables scaled inside the solver
        from pyodesys.symbolic import ScaledSys
        odesys, extra = get_odesys(rsys, SymbolicSys=ScaledSys, dep_scaling=b["dep_scaling"],
                                   indep_scaling=b["indep_scaling"])
    else:
        odesys, extra = get_odesys(rsys)
    return text, rsys, odesys, extra


def _labels(case, ctx, S):
    stc = G.structure(case)
    ctx.label("subst:" + case["subst"]["mode"], "n=%d" % stc["n"], "nr=%d" % min(stc["nr"], 9),
              "decades:%s" % ("<1" if stc["decades"] < 1 else "1-3" if stc["decades"] < 3 else
                              "3-6" if stc["decades"] < 6 else ">=6"),
              "zeros=%d" % min(stc["zeros"], 3), "chain=%d" % min(stc["chain"], 5))
    for k in ("branch", "cycle", "stoich2", "charged", "distinct_bounds", "both_sides", "self_inact"):
        if stc[k]:
            ctx.label(k)
    if stc["inact_rxns"]:
        ctx.label("reagents=%d" % min(stc["reagents"], 3), "inact_rxns=%d" % min(stc["inact_rxns"], 4))
    if case["t0"] != 0:
        ctx.label("t0!=0")
    b = case.get("builder")
    if b:
        ctx.label("ScaledSys", "dep_scaling=%g" % b["dep_scaling"], "indep_scaling=%g" % b["indep_scaling"])
    return stc


def _euler_clause(case, ctx, cb, t, state, keys, text, where, tag=None):
    """h = max_euler_step_cb(t, state): state + h*f_exact(state) must stay inside [0, elemental bound of `state`].

    At (t0, c0) the step must also be a step, 0 < h <= 1 (c0 entries are 0 or within [1e-3, 1e3], so neither y/|f| nor
    (bound - y)/f can round to 0).  At a later state of the trajectory (concentrations may span > 16 decades, where
    bound - y legitimately rounds to 0) only safety of a positive h is judged."""
    n = len(keys)
    y = [Fraction(v) for v in state]
    yd = {k: float(v) for k, v in zip(keys, state)}
    S = G.scale(case, y)
    bounds = G.elemental_bounds(case, y)
    h = cb(t, dict(yd))
    f, aterms = G.rates_exact(case, y)
    try:
        hf = float(h)
    except (TypeError, ValueError):
        hf = float("nan")
    if not (0 < hf <= 1):
        if where == "t0" or hf > 1 or hf != hf:
            ctx.fail("euler_step_not_in_(0,1]", text=text, h=repr(h), state=yd, at=tag or where,
                     f=[float(x) for x in f])
        else:
            ctx.label("euler_%s:h<=0" % where)
        return
    hq = Fraction(hf)
    # h = -y_i/f_i is formed from a float64 f: |f_float - f_exact| <= ~n*2**-53*sum|terms|, so the exact step may
    # overshoot by h*that; 1e-12 leaves a factor > 100 over 12 terms
    eps = Fraction(1, 10 ** 12) * (S + hq * sum(aterms))
    # comp_i[e]*y_i = total_e - sum_{j != i} comp_j[e]*y_j <= total_e + eps*sum_j comp_j[e]  (f conserves e exactly)
    W = sum(v for cj in G.comps(case) for z, v in cj.items() if z != 0)

    def leaves(step):
        """(clause, detail) of the first component that an explicit Euler step of that size takes out of [0, bound]."""
        for i in range(n):
            y1 = y[i] + step * f[i]
            if y1 < -eps:
                return "euler_step_negative", dict(species=keys[i], after=float(y1), eps=float(eps), f=float(f[i]))
            if y1 > bounds[i] + eps * W:
                return "euler_step_above_bound", dict(species=keys[i], after=float(y1), bound=float(bounds[i]),
                                                      eps=float(eps))
        return None

    # With ScaledSys(indep_scaling=u) the callback works on the pre-processed (scaled) variables and answers in the
    # solver's scaled time t*u.  Whether the advertised step is meant in that internal time (it is the natural
    # `first_step` of the integrator) or in the caller's time is not stated anywhere, so the step is read in the
    # callback's own time scale: h/u in the caller's units.  (Reading it as physical time would flag every u > 1 on
    # the unchanged tree: an ambiguity of the interface, not a listed property.)
    u = (case.get("builder") or {}).get("indep_scaling", 1.0)
    if u != 1:
        ctx.label("euler_step_read_in_scaled_time")
        hq = hq / Fraction(u)
    bad = leaves(hq)
    if bad is not None:
        ctx.fail(bad[0], text=text, h=hf, state=yd, at=tag or where, indep_scaling=u, **bad[1])
        return
    ctx.label("euler_%s:%s" % (tag or where, "h=1" if hf == 1 else "h<1"))
    if tag is not None:
        # which species limits the exact step (smallest y/|f| among decreasing species, if below 1)?
        lim = [(y[i] / -f[i], i) for i in range(n) if f[i] < 0]
        who = "none"
        if lim and min(lim)[0] < 1:
            who = "reagent" if min(lim)[1] in G.foreign_reagents(case) else "active_reactant"
        ctx.label("euler_%s:limited_by_%s" % (tag, who))


def judge(case, ctx, exact, kind, agree=None, amp=1.0):
    """Shared oracle: `exact` = list (per output time) of per-species exact concentrations (Fractions/floats).
    `amp` >= 1: factor by which the problem itself amplifies a perturbation (see TOLERANCES['agreement'])."""
    import numpy as np
    agree = (AGREE if agree is None else agree) * amp
    n = len(case["species"])
    keys = [s["key"] for s in case["species"]]
    c0 = [Fraction(x) for x in case["c0"]]
    S = G.scale(case, c0)
    Sf = float(S)
    bounds = G.elemental_bounds(case, c0)
    text, rsys, odesys, extra = _build(case, ctx)

    names = list(odesys.names)
    if sorted(names) != sorted(keys):
        ctx.fail("species_set", text=text, names=names, expected=keys)
        return
    col = [names.index(k) for k in keys]          # results are read by *name*
    c0d = {k: float(v) for k, v in zip(keys, case["c0"])}
    tout = [case["t0"]] + list(case["times"])

    # ---- elemental upper bound as computed by chempy (dict input, by name) ------------------------------------
    ub = sut(rsys.upper_conc_bounds, dict(c0d))
    ub_ok = False
    if is_err(ub):
        ctx.fail("upper_conc_bounds_raised", text=text, error=repr(ub))
    else:
        ubk = list(rsys.substances.keys())
        if sorted(ubk) != sorted(keys) or len(ub) != n:
            ctx.fail("upper_conc_bounds_shape", text=text, got=short(repr(ub)))
        else:
            ub = [float(ub[ubk.index(k)]) for k in keys]
            ub_ok = True
            for i in range(n):
                # must not exceed the supply of the constituent elements (1e-12: float64 sums of <= 12 terms)
                if not (ub[i] <= float(bounds[i]) * (1 + 1e-12) + 1e-300) or ub[i] != ub[i]:
                    ctx.fail("upper_conc_bounds_exceeds_elemental_supply", text=text, species=keys[i], got=ub[i],
                             elemental=float(bounds[i]), c0=c0d)
                    ub_ok = False
                    break
                if ub[i] < case["c0"][i] * (1 - 1e-12):
                    ctx.fail("upper_conc_bounds_below_reachable", text=text, species=keys[i], got=ub[i],
                             reached=case["c0"][i], at="t0", c0=c0d)
                    ub_ok = False
                    break

    # ---- explicit Euler step at (t0, c0) ---------------------------------------------------------------------------
    cb = extra.get("max_euler_step_cb")
    if cb is None:
        ctx.fail("max_euler_step_cb_missing", text=text)
    else:
        _euler_clause(case, ctx, cb, case["t0"], [float(v) for v in case["c0"]], keys, text, "t0")
        if case.get("c0_euler") is not None:
            # the same clause at a second initial state (scarce inactive co-reactants): every entry is 0 or within
            # [1e-19, 1e3] and the limiting y/|f| is >= 1e-2 * 1/(3 * sum k) > 1e-7, so h cannot round to 0 here either
            _euler_clause(case, ctx, cb, case["t0"], [float(v) for v in case["c0_euler"]], keys, text, "t0",
                          tag="scarce")

    # ---- integration -----------------------------------------------------------------------------------------
    # pyodesys hands atol to the integrator as is, i.e. for the scaled variables y*dep_scaling: the same physical
    # request atol = 1e-10*S is atol*dep_scaling inside
    dep_scaling = float((case.get("builder") or {}).get("dep_scaling", 1.0))
    res = sut(odesys.integrate, np.array(tout, dtype=float), dict(c0d), integrator="scipy",
              atol=RTOL * Sf * dep_scaling, rtol=RTOL, nsteps=50000)
    if is_err(res):
        if res.type == "RuntimeError" and "failed" in res.msg:
            ctx.skip("solver_failed")
            return
        ctx.fail("integrate_raised", text=text, error=repr(res), c0=c0d, tout=tout)
        return
    xout, yout, info = res.xout, res.yout, res.info
    if not info.get("success", False):
        ctx.skip("solver_unsuccessful")
        return
    xout = np.asarray(xout, dtype=float)
    yout = np.asarray(yout, dtype=float)
    if xout.shape != (len(tout),) or yout.shape != (len(tout), n):
        ctx.fail("result_shape", text=text, xshape=list(xout.shape), yshape=list(yout.shape), nt=len(tout), ns=n)
        return
    for a, b in zip(xout, tout):
        if not abs(a - b) <= 1e-12 * max(1.0, abs(b)):
            ctx.fail("xout_differs_from_requested_times", text=text, xout=xout.tolist(), tout=tout)
            return
    if not np.all(np.isfinite(yout)):
        ctx.fail("yout_not_finite", text=text, c0=c0d, tout=tout)
        return
    worst = 0.0
    worst_adm = 0.0      # largest excursion outside [0, bound], in units of S
    rows = [[float(v) for v in case["c0"]]] + [[float(v) for v in row] for row in exact]
    for it, ref in enumerate(rows):
        for i in range(n):
            y = float(yout[it, col[i]])
            d = abs(y - ref[i])
            worst = max(worst, d / Sf)
            worst_adm = max(worst_adm, -y / Sf, (y - float(bounds[i])) / Sf)
            if d > agree * Sf:
                ctx.fail("disagrees_with_exact_solution", text=text, species=keys[i], t=tout[it], got=y,
                         exact=ref[i], scale=Sf, c0=c0d, kind=kind)
                return
            if y < -ADMIT * Sf:
                ctx.fail("negative_concentration", text=text, species=keys[i], t=tout[it], got=y, scale=Sf, c0=c0d)
                return
            if y > float(bounds[i]) + ADMIT * Sf:
                ctx.fail("exceeds_elemental_supply", text=text, species=keys[i], t=tout[it], got=y,
                         bound=float(bounds[i]), scale=Sf, c0=c0d)
                return
            if ub_ok and ub[i] < ref[i] * (1 - 1e-9):
                ctx.fail("upper_conc_bounds_below_reachable", text=text, species=keys[i], got=ub[i], reached=ref[i],
                         at=tout[it], c0=c0d)
                return
    if cb is not None:
        mid = len(tout) // 2
        _euler_clause(case, ctx, cb, tout[mid], [max(0.0, float(yout[mid, col[i]])) for i in range(n)], keys, text, "mid")
    def bucket(w):
        for k in (12, 10, 9, 8, 7, 6):
            if w <= 10.0 ** -k:
                return k
        return 5
    ctx.label("dev<=1e-%d" % bucket(worst / amp), "outside<=1e-%d" % bucket(worst_adm))


def check_net(case, ctx, agree=None):
    G.validate(case)
    c0 = [Fraction(x) for x in case["c0"]]
    stc = _labels(case, ctx, G.scale(case, c0))
    moving = any(case["c0"][r["reac"][0][0]] > 0 for r in case["rxns"])
    ctx.nontrivial((stc["branch"] or stc["cycle"]) and stc["decades"] >= 3 and moving)
    exact = G.linear_solution(case)
    judge(case, ctx, exact, "expm", agree)


def check_net_wide(case, ctx):
    check_net(case, ctx, AGREE_WIDE)


def check_net_inact(case, ctx):
    """First-order networks with inactive co-reactants '(n Y)': still linear, oracle exp(M(t-t0)) c0 with
    M[Y][X] -= n k; Euler-step clause also at the scarce-reagent state case['c0_euler']."""
    G.validate(case)
    c0 = [Fraction(x) for x in case["c0"]]
    S = G.scale(case, c0)
    stc = _labels(case, ctx, S)
    reag = set(G.foreign_reagents(case))
    for y in reag:      # domain: nothing may depend on a reagent (never an active reactant)
        assert all(i != y for r in case["rxns"] for i, _ in r["reac"]), "reagent used as active reactant"
    ctx.nontrivial(any(case["c0"][r["reac"][0][0]] > 0 and any(j in reag for j, _ in r.get("inact", []))
                       for r in case["rxns"]))
    exact = G.linear_solution(case)
    # domain: the exact solution is non-negative at every output time (the generator sizes the reagent supply from the
    # exact consumption; 2**-90 relative accuracy of the fixed-point exponential)
    assert all(v >= -S * Fraction(1, 10 ** 20) for row in exact for v in row), "exact solution negative: outside domain"
    if reag and any(min(float(row[y]) for row in exact) <= 1e-6 * float(S) for y in reag):
        ctx.label("reagent_nearly_exhausted")
    judge(case, ctx, exact, "expm", AGREE_WIDE)


def check_bimol(case, ctx):
    G.validate(case)
    c0 = [Fraction(x) for x in case["c0"]]
    _labels(case, ctx, G.scale(case, c0))
    fw = case["rxns"][0]
    rev = len(case["rxns"]) == 2
    kind = G.bimol_kind(case)
    dimer = kind == "dimer"
    equal = (not dimer) and case["c0"][fw["reac"][0][0]] == case["c0"][fw["reac"][1][0]]
    shape = {"dimer": "2A", "assoc": "A+B", "auto": "A+B->2B", "cat": "A+C->B+C"}[kind]
    ctx.label("rev" if rev else "irrev", shape + (",a0=b0" if equal else ""))
    if kind in ("assoc", "dimer"):
        ctx.label("p0=0" if case["c0"][fw["prod"][0][0]] == 0 else "p0>0")
    elif any(v == 0 for v in case["c0"]):
        ctx.label(shape + ",zero_in_c0")
    ctx.nontrivial(rev or equal or dimer or kind in ("auto", "cat"))
    exact = G.bimol_solution(case)
    amp = 1.0
    if kind == "auto":
        # logistic growth from a seed w0 of autocatalyst is an *unstable* initial-value problem: a perturbation d of
        # [B] during the induction period grows like [B] itself, i.e. to at most d*T/w0 (T = a0 + b0) - and the
        # solver's absolute local tolerance 1e-10*S is such a perturbation.  The agreement tolerance scales with this
        # condition number (calibration: worst deviation / (S*T/w0) over 9 000 autocatalytic systems <= 1e-9)
        w0 = case["c0"][fw["prod"][0][0]]
        amp = max(1.0, sum(case["c0"]) / w0)
        ctx.label("auto:T/w0%s" % ("<1e2" if amp < 1e2 else "<1e4" if amp < 1e4 else ">=1e4"))
    judge(case, ctx, exact, "riccati", amp=amp)


SUBCHECKS = [
    SubCheck("net", check_net, strategy=G.networks(max_species=7, max_rxns=8, decades=8, scaled=True), quick=900,
             thorough=30000,
             rule="first-order networks, <= 7 species, <= 8 reactions, constants over 8 decades; oracle exp(M(t-t0)) c0",
             tolerances=TOLERANCES),
    SubCheck("net_wide", check_net_wide, strategy=G.networks(max_species=10, max_rxns=12, decades=12), quick=150,
             thorough=10000,
             rule="first-order networks, <= 10 species, <= 12 reactions, constants over 12 decades",
             tolerances=TOLERANCES),
    SubCheck("bimol", check_bimol, strategy=G.bimolecular(decades=6), quick=800, thorough=24000,
             rule="A + B -> C, A + B <-> C, 2 A -> C, 2 A <-> C (half of the cases), A + B -> 2 B / <-> (autocatalytic, "
                  "a quarter) and A + C -> B + C / <-> (catalysed, a quarter) with kf, kb, a0, b0, p0 over 6 decades "
                  "(a0 = b0 in a quarter of the cases, p0 = 0 in half); oracle: own Riccati / exponential closed forms "
                  "at 60 digits",
             tolerances=TOLERANCES),
    SubCheck("net_inact", check_net_inact, strategy=G.networks(max_species=7, max_rxns=6, decades=8, inact=True),
             quick=900, thorough=30000,
             rule="first-order networks in which steps carry inactive co-reactants '(n Y)' (consumed, zeroth order): "
                  "<= 7 species, <= 6 reactions, constants over 8 decades; oracle exp(M(t-t0)) c0 with M[Y][X] -= n k; "
                  "Euler-step clause at (t0, c0) and at a scarce-reagent state",
             tolerances=TOLERANCES),
]

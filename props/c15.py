# -*- coding: utf-8 -*-
"""C15 - structural queries on a ReactionSystem (split, categorize_substances, identify_equilibria, participation,
subset, +, +=, concatenate, per-substance conversions, upper_conc_bounds) match the reaction graph of its description,
also for systems reached through histories of add / subset / split / concatenate."""
from fractions import Fraction
from itertools import permutations

from hypothesis import strategies as st
from hypothesis.stateful import RuleBasedStateMachine, rule, initialize

from vlib import env  # noqa  (sys.path)
from vlib.harness import SubCheck, sut, is_err, short, machine_guard
from vlib import gen_c03 as G

PROPERTY = "C15"
LEVEL = "exploration"
RULE = ("Reaction systems are built by construction (vlib/gen_c03.py): 0-8 reactions over <= 12 keys S0..S11 dealt "
        "into 1-4 blocks (several connected components, chains of one-reactant-one-product reactions whose fusion "
        "depends on the order, bridges), species in no reaction, catalysts, inactive parts, reverse partners (exact / "
        "inactive folded into active / active only), some Equilibrium members with a (kf, kb) parameter.  Expected "
        "answers come from the JSON description alone: own union-find for the components, own classification of the "
        "net stoichiometries, own pair search, list models for subset / + / += / concatenate (reactions compared by "
        "identity), Fractions for the elemental bounds and for states reached along exact null-space directions of the "
        "composition matrix.  The state machine keeps a pool of systems with a model (ordered substance keys, list of "
        "reaction ids) and applies new / += reactions / += system / + / subset(pred) / split->part / concatenate of "
        "2-5 pool systems, "
        "checking every result and every structural query on it.  Non-trivial = >= 2 components or a catalyst or a "
        "species in no reaction (plain sub-checks); a subset or split after an addition (machine runs).")
RULE += ("  Substance naming: a quarter to a half of the generated systems (structure, ops, convert, machine) hand their "
         "substances over as a mapping key -> Substance whose .name is another string, missing, or the keys rotated by one; "
         "every result must be keyed by the system's keys and hold the parent's Substance objects (split, subset).")
ASSUMPTIONS = ["upper_conc_bounds is float arithmetic over non-negative terms: compared with relative tolerance 1e-12",
               "split parts are the components that contain at least one reaction (a species in no reaction forms no part)",
               "identify_equilibria: exact comparison when every reaction has at most one reverse partner, otherwise "
               "only 'every reported pair is a genuine i<j forward/backward pair'",
               "concatenate: a reaction of a later operand is a duplicate iff its four stoichiometry dicts equal those of "
               "a reaction already in the sum (first system or any earlier operand); a stoichiometry repeated *inside* one "
               "later operand (first occurrence new) may stay in the sum (implementation) or go to the duplicates "
               "(docstring) - either is accepted, order and exactly-once are still required",
               "after concatenate the substance keys of the sum are only required to start with the first system's "
               "keys, be unique, cover all reaction keys and come from the operands"]

CATS = ("accumulated", "depleted", "unaffected", "nonparticipating")


# ---------------------------------------------------------------------------
# oracles over descriptions
# ---------------------------------------------------------------------------

def o_categorize(subs, rxns):
    """only ever net-produced / only net-consumed / present with zero net effect / absent; an Equilibrium member
    counts in both directions."""
    cat = {c: set() for c in CATS}
    for s in subs:
        pos = neg = appears = False
        for r in rxns:
            if s in G.rxn_keys(r):
                appears = True
            n = G.net(r, s)
            if n > 0 or (r.get("eq") and n < 0):
                pos = True
            if n < 0 or (r.get("eq") and n > 0):
                neg = True
        if pos and neg:
            continue
        if pos:
            cat["accumulated"].add(s)
        elif neg:
            cat["depleted"].add(s)
        elif appears:
            cat["unaffected"].add(s)
        else:
            cat["nonparticipating"].add(s)
    return cat


def is_reverse(a, b, subs):
    return all(G.all_reac(a, s) == G.all_prod(b, s) and G.all_prod(a, s) == G.all_reac(b, s) for s in subs)


def o_equilibria(subs, rxns):
    n = len(rxns)
    partners = {i: [j for j in range(i + 1, n) if is_reverse(rxns[i], rxns[j], subs)] for i in range(n)}
    first = [(i, partners[i][0]) for i in range(n) if partners[i]]
    allp = set((i, j) for i in range(n) for j in partners[i])
    used = {}
    for i, j in allp:
        used[i] = used.get(i, 0) + 1
        used[j] = used.get(j, 0) + 1
    ambiguous = any(v > 1 for v in used.values())
    return first, allp, ambiguous


def has_duplicates(rxns, rids=None):
    """Would ReactionSystem.check_duplicate fire?  (same object twice, or equal stoichiometry and parameter)"""
    seen = set()
    for idx, r in enumerate(rxns):
        sig = (G.stoich_sig(r), G._k_sig(r["k"]))
        if sig in seen:
            return True
        seen.add(sig)
    return False


def select(pred, rxns):
    """Extension of a predicate description over the model: list of booleans per reaction."""
    kind = pred[0]
    if kind == "order":
        return [sum(r["reac"].values()) == pred[1] for r in rxns]
    if kind == "has":
        return [pred[1] in G.rxn_keys(r) for r in rxns]
    if kind == "nkeys_le":
        return [len(G.rxn_keys(r)) <= pred[1] for r in rxns]
    if kind == "inactive":
        return [bool(r["inact_reac"] or r["inact_prod"]) for r in rxns]
    if kind == "parity":
        return [i % 2 == pred[1] for i in range(len(rxns))]
    if kind == "mask":             # arbitrary extension by position (16-bit pattern, repeated)
        return [bool((pred[1] >> (i % 16)) & 1) for i in range(len(rxns))]
    if kind == "index_lt":
        return [i < pred[1] for i in range(len(rxns))]
    if kind == "all":
        return [True] * len(rxns)
    return [False] * len(rxns)      # "none"


def preds(keys):
    keys = sorted(keys) or ["S0"]
    return st.one_of(
        st.tuples(st.just("parity"), G.ints(0, 1)).map(list),
        st.tuples(st.just("has"), st.sampled_from(keys)).map(list),
        st.tuples(st.just("order"), G.ints(0, 4)).map(list),
        st.tuples(st.just("nkeys_le"), G.ints(1, 3)).map(list),
        st.just(["inactive"]), st.just(["all"]), st.just(["none"]),
        st.tuples(st.just("mask"), G.ints(0, 2 ** 16 - 1)).map(list),
        st.tuples(st.just("index_lt"), G.ints(0, 12)).map(list))


def pred_callable(sel, objs):
    """A predicate over Reaction objects with the given extension.  The same object may occur twice in a list (after
    a + a): a predicate is a function of the reaction, so the first occurrence decides."""
    verdict = {}
    for flag, o in zip(sel, objs):
        verdict.setdefault(id(o), flag)
    return (lambda r: verdict[id(r)]), [verdict[id(o)] for o in objs]


# ---------------------------------------------------------------------------
# checks of the structural queries of one system against its description
# ---------------------------------------------------------------------------

NAMINGS = ["same", "other", "unnamed", "permuted"]


def build_sys(sysd, objs):
    """ReactionSystem of the description.  sysd["naming"] != "same": the substances are handed over as an OrderedDict
    key -> Substance whose .name is *not* the key (another string, no name at all, or the keys rotated by one) - all
    results are still keyed by the system's keys."""
    naming = sysd.get("naming", "same")
    if naming == "same":
        return G.build_system(sysd, objs)
    from collections import OrderedDict
    from chempy import ReactionSystem, Substance
    keys = list(sysd["subs"])
    if naming == "other":
        names = ["compound " + k.lower() for k in keys]
    elif naming == "unnamed":
        names = [None] * len(keys)
    else:
        names = keys[1:] + keys[:1]
    return ReactionSystem(objs, OrderedDict((k, Substance(n) if n is not None else Substance()) for k, n in zip(keys, names)))


def check_substance_values(ctx, rsys, parents, what):
    """Every Substance object of a derived system is the object one of its parents holds under the same key."""
    for k, v in rsys.substances.items():
        if not any(k in p.substances and p.substances[k] is v for p in parents):
            ctx.fail(what + ":substance_object", key=k, got=repr(v)[:80])
            return False
    return True


def _ksorted(keys):
    """sorted() that also takes the None / non-string keys a broken tree may hand back."""
    return sorted(keys, key=lambda k: (not isinstance(k, str), str(k)))


def ids(objs):
    return [id(o) for o in objs]


def check_members(ctx, rsys, subs, objs, what, ordered=True):
    """The system holds exactly these reaction objects in this order and these substance keys (in this order)."""
    if ids(rsys.rxns) != ids(objs):
        ctx.fail(what + ":reactions", got=[short(str(r), 60) for r in rsys.rxns], expected=[short(str(r), 60) for r in objs])
        return False
    got = list(rsys.substances.keys())
    if (got != list(subs)) if ordered else (_ksorted(got) != _ksorted(subs)):
        ctx.fail(what + ":substances", got=got, expected=list(subs))
        return False
    if rsys.nr != len(objs) or rsys.ns != len(subs):
        ctx.fail(what + ":nr_ns", nr=rsys.nr, ns=rsys.ns)
        return False
    return True


def check_split(ctx, rsys, subs, descs, objs, dup, tag=""):
    kw = {"checks": ()} if dup else {}
    parts = rsys.split(**kw)
    comps = G.components(descs)
    exp = sorted(sorted(ids([objs[i] for i in comp])) for comp in comps)
    got = sorted(sorted(ids(p.rxns)) for p in parts)
    if got != exp:
        flat_g = sorted(x for g in got for x in g)
        flat_e = sorted(x for g in exp for x in g)
        if flat_g != flat_e:
            clause = "split:not_a_partition"
        elif len(got) > len(exp):
            clause = "split:connected_reactions_separated"
        elif len(got) < len(exp):
            clause = "split:unconnected_reactions_joined"
        else:
            clause = "split:wrong_grouping"
        pos = {}
        for i, o in enumerate(objs):
            pos.setdefault(id(o), i)
        ctx.fail(clause + tag, parts=[[pos.get(id(x), -1) for x in p.rxns] for p in parts], expected=comps,
                 reactions=[G.rxn_keys(r) for r in descs])
        return False
    seen = set()
    for p in parts:
        pk = set(p.substances.keys())
        mine = set()
        for i, o in enumerate(objs):
            if any(o is x for x in p.rxns):
                mine.update(G.rxn_keys(descs[i]))
        if pk != mine:
            ctx.fail("split:substances_of_part" + tag, got=_ksorted(pk), expected=_ksorted(mine))
            return False
        if pk & seen:
            ctx.fail("split:substance_sets_overlap" + tag, shared=_ksorted(pk & seen))
            return False
        seen |= pk
        # the substances of a part are the parent's Substance objects (under the parent's keys)
        if not check_substance_values(ctx, p, [rsys], "split" + tag):
            return False
    return parts


def check_categorize(ctx, rsys, subs, descs, dup, tag=""):
    kw = {"checks": ()} if dup else {}
    exp = o_categorize(subs, descs)
    if not descs and subs:
        got = sut(rsys.categorize_substances, **kw)
        if is_err(got):
            ctx.fail("categorize:raises_without_reactions" + tag, error=repr(got), n_reactions=0, substances=list(subs))
            return False
    else:
        got = rsys.categorize_substances(**kw)
    if not isinstance(got, dict) or set(got) != set(CATS):
        ctx.fail("categorize:result_shape" + tag, got=short(repr(got), 300))
        return False
    for c in CATS:
        if set(got[c]) != exp[c]:
            ctx.fail("categorize:" + c + tag, got=_ksorted(got[c]), expected=_ksorted(exp[c]),
                     reactions=[{s: r[s] for s in G.SIDES} for r in descs])
            return False
    return True


def check_equilibria(ctx, rsys, subs, descs, tag=""):
    first, allp, ambiguous = o_equilibria(subs, descs)
    got = rsys.identify_equilibria()
    got_l = [tuple(p) for p in got]
    if ambiguous:
        ctx.label("equilibria:ambiguous")
        ok = (all(p in allp for p in got_l) and len(set(got_l)) == len(got_l) and bool(got_l) == bool(allp))
    else:
        if first:
            ctx.label("equilibria:pairs")
        ok = got_l == first
    if not ok:
        ctx.fail("identify_equilibria" + tag, got=got_l, expected=first, all_pairs=sorted(allp), ambiguous=ambiguous,
                 reactions=[{s: r[s] for s in G.SIDES} for r in descs])
        return False
    return True


def check_participation(ctx, rsys, subs, descs, tag="", extra_keys=("S_absent",)):
    for s in list(subs) + list(extra_keys):
        exp = [i for i, r in enumerate(descs) if s in G.rxn_keys(r)]
        got = rsys.substance_participation(s)
        if list(got) != exp:
            ctx.fail("substance_participation" + tag, key=s, got=list(got), expected=exp)
            return False
        expe = {i: G.net(r, s) for i, r in enumerate(descs) if G.net(r, s) != 0}
        gote = rsys.per_reaction_effect_on_substance(s)
        if dict(gote) != expe:
            ctx.fail("per_reaction_effect_on_substance" + tag, key=s, got=short(repr(gote), 200), expected=expe)
            return False
    return True


def check_structure(ctx, rsys, subs, descs, objs, tag="", dup=None):
    if dup is None:
        dup = has_duplicates(descs) or len(set(ids(objs))) != len(objs)
    if check_split(ctx, rsys, subs, descs, objs, dup, tag) is False:
        return False
    return (check_categorize(ctx, rsys, subs, descs, dup, tag) and check_equilibria(ctx, rsys, subs, descs, tag)
            and check_participation(ctx, rsys, subs, descs, tag))


def struct_labels(ctx, sysd):
    lbls, s = G.system_labels(sysd)
    ctx.label(*lbls)
    if any(r.get("eq") for r in sysd["rxns"]):
        ctx.label("equilibrium_member")
    ctx.nontrivial(s["components"] >= 2 or s["both_sides"] or s["isolated"] > 0)
    return s


# ---------------------------------------------------------------------------
# sub-check 'structure': one generated system, original and permuted reaction order
# ---------------------------------------------------------------------------

@st.composite
def struct_cases(draw, max_subs=12, max_rxns=8):
    sysd = draw(G.systems(cls="exact", max_subs=max_subs, max_rxns=max_rxns,
                          min_rxns=0 if draw(G.ints(0, 39)) == 39 else 1, p_eq=15))
    sysd["naming"] = G.pick(draw, NAMINGS + NAMINGS[:1])
    return {"sys": sysd, "perm": G.permutation(draw, list(range(len(sysd["rxns"]))))}


def check_struct_case(case, ctx):
    sysd = case["sys"]
    struct_labels(ctx, sysd)
    subs = list(sysd["subs"])
    objs = [G.build_reaction(r, i) for i, r in enumerate(sysd["rxns"])]
    ctx.label("naming=" + sysd.get("naming", "same"))
    rsys = build_sys(sysd, objs)
    if not check_members(ctx, rsys, subs, objs, "constructor"):
        return
    if not check_structure(ctx, rsys, subs, sysd["rxns"], objs):
        return
    perm = case["perm"]
    if perm != sorted(perm):
        ctx.label("permuted")
        descs_p = [sysd["rxns"][i] for i in perm]
        objs_p = [objs[i] for i in perm]
        rsys_p = build_sys(sysd, objs_p)
        check_structure(ctx, rsys_p, subs, descs_p, objs_p, tag=":reordered")


# ---------------------------------------------------------------------------
# sub-check 'perms': every reaction order of a few small systems (finite, complete)
# ---------------------------------------------------------------------------

def _r(reac, prod, k, ir=None, ip=None, eq=False):
    return {"reac": reac, "prod": prod, "inact_reac": ir or {}, "inact_prod": ip or {}, "k": k, "ktype": "plain", "eq": eq}


BASE_SYSTEMS = [
    # two chains fused only by the last reaction, an isolated species
    {"subs": ["S0", "S1", "S2", "S3", "S4"],
     "rxns": [_r({"S0": 1}, {"S1": 1}, 1), _r({"S2": 1}, {"S3": 1}, 2), _r({"S1": 1}, {"S2": 1}, 3)]},
    # four groups that fuse pairwise, then all together
    {"subs": ["S0", "S1", "S2", "S3", "S4", "S5", "S6", "S7"],
     "rxns": [_r({"S0": 1}, {"S1": 1}, 1), _r({"S2": 1}, {"S3": 1}, 2), _r({"S4": 1}, {"S5": 1}, 3),
              _r({"S6": 1}, {"S7": 1}, 4), _r({"S1": 1, "S2": 1}, {"S5": 1, "S6": 1}, 5)]},
    # three components, one of them a reversible pair with an inactive part, one a catalytic cycle
    {"subs": ["S0", "S1", "S10", "S2", "S3", "S4"],
     "rxns": [_r({"S0": 1}, {"S1": 1}, 1, ir={"S0": 1}), _r({"S1": 1}, {"S0": 1}, 2, ip={"S0": 1}),
              _r({"S2": 1, "S3": 1}, {"S3": 1, "S10": 1}, 3), _r({"S10": 2}, {"S2": 2}, 4), _r({}, {"S4": 1}, 5)]},
    # two forward reactions with the same stoichiometry and one reverse (ambiguous pairs), plus an unrelated one
    {"subs": ["S0", "S1", "S2", "S3"],
     "rxns": [_r({"S0": 1}, {"S1": 2}, 1), _r({"S0": 1}, {"S1": 2}, 2), _r({"S1": 2}, {"S0": 1}, 3),
              _r({"S2": 1}, {"S3": 1}, 4)]},
    # star: every reaction shares only the hub, which is a catalyst everywhere
    {"subs": ["S0", "S1", "S2", "S3", "S4", "S5"],
     "rxns": [_r({"S0": 1, "S1": 1}, {"S0": 1, "S2": 1}, 1), _r({"S0": 1, "S3": 1}, {"S0": 1, "S4": 1}, 2),
              _r({"S5": 1}, {"S5": 2}, 3), _r({"S4": 1}, {"S3": 1}, 4, ir={"S0": 1}, ip={"S0": 1})]},
    # long chain given in the worst order for greedy grouping
    {"subs": ["S0", "S1", "S2", "S3", "S4", "S5", "S6"],
     "rxns": [_r({"S0": 1}, {"S1": 1}, 1), _r({"S2": 1}, {"S3": 1}, 2), _r({"S4": 1}, {"S5": 1}, 3),
              _r({"S3": 1}, {"S4": 1}, 4), _r({"S1": 1}, {"S2": 1}, 5)]},
]


def enum_perms(tier):
    for bi, base in enumerate(BASE_SYSTEMS):
        for perm in permutations(range(len(base["rxns"]))):
            yield {"base": bi, "perm": list(perm)}


def check_perm_case(case, ctx):
    base = BASE_SYSTEMS[case["base"]]
    perm = case["perm"]
    sysd = {"subs": list(base["subs"]), "rxns": [base["rxns"][i] for i in perm]}
    struct_labels(ctx, sysd)
    ctx.label("base=%d" % case["base"])
    objs = [G.build_reaction(r, i) for i, r in enumerate(sysd["rxns"])]
    rsys = G.build_system(sysd, objs)
    check_structure(ctx, rsys, sysd["subs"], sysd["rxns"], objs)


# ---------------------------------------------------------------------------
# sub-check 'ctor': substance order, duplicate / unknown-key rejection
# ---------------------------------------------------------------------------

@st.composite
def ctor_cases(draw):
    sysd = draw(G.systems(cls="exact", max_subs=12, max_rxns=5))
    arg = G.pick(draw, ["list", "none", "set", "tuple", "str", "odict"])
    if arg == "str" and len(sysd["subs"]) < 2:
        arg = "list"        # a one-word string is iterated character by character (not a key list)
    neg = G.pick(draw, ["", "", "", "duplicate", "unknown_key"])
    case = {"sys": sysd, "subs_arg": arg, "neg": neg}
    if neg == "duplicate":
        case["dup_of"] = draw(G.ints(0, len(sysd["rxns"]) - 1))
        case["dup_pos"] = draw(G.ints(0, len(sysd["rxns"])))
    if neg == "unknown_key":
        part = sorted(set(k for r in sysd["rxns"] for k in G.rxn_keys(r)))
        case["drop"] = G.pick(draw, part)
        if arg == "none":
            case["subs_arg"] = "list"
    return case


def check_ctor(case, ctx):
    sysd = case["sys"]
    arg = case["subs_arg"]
    ctx.label("arg=" + arg, "neg=" + (case["neg"] or "no"))
    struct_labels(ctx, sysd)
    objs = [G.build_reaction(r, i) for i, r in enumerate(sysd["rxns"])]
    if case["neg"] == "duplicate":
        twin = G.build_reaction(sysd["rxns"][case["dup_of"]], case["dup_of"])   # equal, not identical
        objs2 = list(objs)
        objs2.insert(case["dup_pos"], twin)
        res = sut(G.build_system, sysd, objs2, None, arg)
        if not is_err(res):
            ctx.fail("constructor:duplicate_reaction_accepted", dup_of=case["dup_of"], pos=case["dup_pos"])
        elif res.type != "ValueError":
            ctx.fail("constructor:duplicate_reaction_wrong_exception", error=repr(res))
        return
    if case["neg"] == "unknown_key":
        short_sys = {"subs": [s for s in sysd["subs"] if s != case["drop"]], "rxns": sysd["rxns"]}
        if not short_sys["subs"] or (arg == "str" and len(short_sys["subs"]) < 2):
            ctx.label("neg=unknown_key:degenerate")
            return
        res = sut(G.build_system, short_sys, objs, None, arg)
        if not is_err(res):
            ctx.fail("constructor:unknown_key_accepted", dropped=case["drop"])
        elif res.type != "ValueError":
            ctx.fail("constructor:unknown_key_wrong_exception", error=repr(res))
        return
    rsys = G.build_system(sysd, objs, None, arg)
    if arg == "none":
        exp = sorted(set(k for r in sysd["rxns"] for k in G.rxn_keys(r)))
    elif arg == "set":
        exp = sorted(sysd["subs"])
    else:
        exp = list(sysd["subs"])
    if not check_members(ctx, rsys, exp, objs, "constructor:" + ("sorted" if arg in ("none", "set") else "given_order")):
        return
    for i, s in enumerate(exp):
        if rsys.as_substance_index(s) != i:
            ctx.fail("as_substance_index", key=s, got=rsys.as_substance_index(s), expected=i)
            return


# ---------------------------------------------------------------------------
# sub-check 'ops': subset / + / += / concatenate once, on a generated pair of systems
# ---------------------------------------------------------------------------

def _copy_stoich(draw, target, src_sys):
    """Insert into `target` a reaction that repeats the stoichiometry of a reaction of src_sys (with the same or
    another parameter), or a near copy of it in which one part differs."""
    src = G.pick(draw, src_sys["rxns"])
    cp = {s: dict(src[s]) for s in G.SIDES}
    near = draw(G.ints(0, 5))           # 0-2 exact copy of the stoichiometry; 3-5 near copy: one part differs
    if near >= 3:
        side = {3: "inact_prod", 4: "inact_reac"}.get(near) or G.pick(draw, list(G.SIDES))
        if cp[side] and draw(G.ints(0, 1)):
            del cp[side][sorted(cp[side])[0]]
        else:
            k0 = G.pick(draw, sorted(src_sys["subs"]))
            cp[side][k0] = cp[side].get(k0, 0) + 1
        if not G.has_effect(cp):
            cp["prod"][src_sys["subs"][0]] = cp["prod"].get(src_sys["subs"][0], 0) + 1
    cp.update(eq=False, ktype="plain", k=src["k"] if draw(G.ints(0, 1)) else draw(G.k_values("exact", 0)))
    target["rxns"].insert(draw(G.ints(0, len(target["rxns"]))), cp)
    for k in G.rxn_keys(cp):
        if k not in target["subs"]:
            target["subs"].append(k)


@st.composite
def ops_cases(draw):
    a = draw(G.systems(cls="exact", max_subs=8, max_rxns=6))
    off = draw(G.ints(0, 6))
    b = draw(G.systems(cls="exact", max_subs=8, max_rxns=5, keys=G.KEYS[off:] + G.KEYS[:off]))
    # some reactions of b repeat the stoichiometry of reactions of a (with the same or another parameter)
    for _ in range(draw(G.ints(0, 2))):
        _copy_stoich(draw, b, a)
    G.dedupe_params(b["rxns"])
    extra = draw(G.reactions_over(a["subs"], 2))
    # 0-3 further operands for concatenate: each repeats stoichiometries of *any* earlier operand - most often of the
    # one just before it, i.e. of a later operand and not of the system the sum starts from - sometimes twice
    more = []
    for _ in range(draw(G.ints(0, 3))):
        off = draw(G.ints(0, 8))
        c = draw(G.systems(cls="exact", max_subs=6, max_rxns=3, keys=G.KEYS[off:] + G.KEYS[:off]))
        earlier = [x for x in [a, b] + more if x["rxns"]]
        for _ in range(draw(G.ints(0, 3))):
            _copy_stoich(draw, c, earlier[len(earlier) - 1 - draw(G.ints(0, len(earlier) - 1))])
        G.dedupe_params(c["rxns"])
        more.append(c)
    # twins: some reactions of a once more as *distinct objects that compare equal* (same stoichiometry and parameter,
    # other name / ref / data); the system that holds both is made by +, += or by the constructor with the duplicate
    # check switched off; the predicate separates reactions by name / ref / data / identity with an arbitrary extension
    # substance keys that are not the Substance objects' names (each operand on its own)
    for x in [a, b] + more:
        x["naming"] = G.pick(draw, NAMINGS + NAMINGS[:1])
    na = len(a["rxns"])
    tw = sorted(set(G.pick_distinct(draw, list(range(na)), 1, 3)))
    how = G.pick(draw, ["add_system", "add_reactions", "iadd_system", "ctor_checks_empty", "ctor_dont_check_duplicate"])
    n = na + len(tw)
    order = G.permutation(draw, list(range(n))) if how.startswith("ctor") and draw(G.ints(0, 1)) else list(range(n))
    twins = {"idx": tw, "how": how, "order": order, "by": G.pick(draw, ["name", "identity", "ref", "data"]),
             "sel": [bool(draw(G.ints(0, 1))) for _ in range(n)]}
    return {"a": a, "b": b, "pred": draw(preds(a["subs"])), "extra": extra, "more": more, "twins": twins,
            "extra_forms": [G.pick(draw, ITER_FORMS[2:] + ITER_FORMS[:2]) for _ in range(2)]}


# every form of "an iterable of Reaction instances" the right operand of + / += is accepted in (re-iterable
# containers and single-pass iterators)
ITER_FORMS = ["list", "tuple", "genexpr", "iter", "filter", "map", "dict_values", "chain", "deque"]


def as_iterable(form, objs):
    objs = list(objs)
    if form == "tuple":
        return tuple(objs)
    if form == "genexpr":
        return (o for o in objs)
    if form == "iter":
        return iter(objs)
    if form == "filter":
        return filter(lambda r: True, objs)
    if form == "map":
        return map(lambda r: r, objs)
    if form == "dict_values":
        return {i: o for i, o in enumerate(objs)}.values()
    if form == "chain":
        from itertools import chain
        return chain(objs[:1], objs[1:])
    if form == "deque":
        from collections import deque
        return deque(objs)
    return objs


def _build(sysd):
    objs = [G.build_reaction(r, i) for i, r in enumerate(sysd["rxns"])]
    return build_sys(sysd, objs), objs


def merged_keys(a_subs, b_subs):
    return list(a_subs) + [k for k in b_subs if k not in a_subs]


def check_subset_result(ctx, parent_subs, descs, objs, sel, yes, no, tag="", parent=None):
    """yes/no hold the selected / other reactions in order; their substances are the parent's substances (parent
    order) that occur in one of their reactions."""
    for flag, part, name in ((True, yes, "yes"), (False, no, "no")):
        idx = [i for i, f in enumerate(sel) if f == flag]
        keys = set()
        for i in idx:
            keys.update(G.rxn_keys(descs[i]))
        if not check_members(ctx, part, [s for s in parent_subs if s in keys], [objs[i] for i in idx],
                             "subset:" + name + tag):
            return False
        if parent is not None and not check_substance_values(ctx, part, [parent], "subset:" + name + tag):
            return False
    return True


def concat_verdicts(operand_descs):
    """concatenate: 'Reactions with identical stoichiometries are added to a separated reactionsystem for
    "duplicates"'.  The sum starts as the first system; every later operand is looked at in turn.  Per reaction of
    every later operand:
      'dup'    its four stoichiometry dicts equal those of a reaction that is in the sum when its operand's turn comes
               (from the first system or from *any* earlier operand);
      'sum'    not in the sum yet, and first of its stoichiometry within its own operand;
      'either' not in the sum yet, but an earlier reaction of the *same* operand has the same stoichiometry (with another
               parameter).  The docstring sends it to the duplicates, the implementation compares a whole operand
               against the sum so far (as it keeps repeated stoichiometries inside the first system): the definition
               does not decide, so both places are accepted - but exactly one of them, in order."""
    seen = set(G.stoich_sig(r) for r in operand_descs[0])
    out = []
    for descs in operand_descs[1:]:
        own, v = set(), []
        for r in descs:
            sig = G.stoich_sig(r)
            if sig in seen:
                v.append("dup")
            elif sig in own:
                v.append("either")
            else:
                v.append("sum")
                own.add(sig)
        seen |= own
        out.append(v)
    return out


def concat_expected(total_rxns, first_objs, later_objs, verdicts):
    """Expected reaction objects of sum and duplicates, and per later operand the indices that went to each.  An
    'either' reaction is expected where chempy put it (it is in the sum iff it is the next reaction of the sum)."""
    exp_sum, exp_dup, sum_idx, dup_idx = list(first_objs), [], [], []
    for objs, v in zip(later_objs, verdicts):
        si, di = [], []
        for i, (o, verdict) in enumerate(zip(objs, v)):
            if verdict == "either":
                nxt = total_rxns[len(exp_sum)] if len(exp_sum) < len(total_rxns) else None
                verdict = "sum" if nxt is o else "dup"
            if verdict == "sum":
                exp_sum.append(o)
                si.append(i)
            else:
                exp_dup.append(o)
                di.append(i)
        sum_idx.append(si)
        dup_idx.append(di)
    return exp_sum, exp_dup, sum_idx, dup_idx


def concat_model(a_descs, a_objs, b_descs, b_objs):
    """Two operands without repeated stoichiometries inside b (kept for the regression corpus)."""
    v = concat_verdicts([a_descs, b_descs])[0]
    return [i for i, x in enumerate(v) if x != "dup"], [i for i, x in enumerate(v) if x == "dup"]


def internal_stoich_duplicates(descs):
    sigs = [G.stoich_sig(r) for r in descs]
    return len(set(sigs)) != len(sigs)


def check_concatenate(ctx, systems, operand_descs, operand_objs, operand_subs, tag=""):
    """Calls concatenate on the systems (first one is consumed) and compares sum and duplicates with the list model.
    Returns None on failure, else (total, dups, sum_idx, dup_idx)."""
    verdicts = concat_verdicts(operand_descs)
    flat = [x for v in verdicts for x in v]
    later_sigs = [set(G.stoich_sig(r) for r in d) for d in operand_descs[1:]]
    first_sigs = set(G.stoich_sig(r) for r in operand_descs[0])
    among_later = any((later_sigs[i] & later_sigs[j]) - first_sigs
                      for i in range(len(later_sigs)) for j in range(i + 1, len(later_sigs)))
    ctx.label("concatenate:n=%d" % len(systems), "concatenate:dups=%s" % ("0" if "dup" not in flat else "1+"))
    if among_later:
        ctx.label("concatenate:repeated_among_later_operands")
    if "either" in flat:
        ctx.label("concatenate:repeated_inside_later_operand")
    total, dups = type(systems[0]).concatenate(list(systems))
    for k in range(1, len(systems)):
        if not check_members(ctx, systems[k], operand_subs[k], operand_objs[k], "concatenate:later_operand_changed" + tag):
            return None
    exp_sum, exp_dup, sum_idx, dup_idx = concat_expected(list(total.rxns), operand_objs[0], operand_objs[1:], verdicts)
    if ids(total.rxns) != ids(exp_sum):
        ctx.fail("concatenate:sum_reactions" + tag, got=[short(str(r), 60) for r in total.rxns],
                 expected=[short(str(r), 60) for r in exp_sum], verdicts=verdicts)
        return None
    if ids(dups.rxns) != ids(exp_dup):
        ctx.fail("concatenate:duplicate_reactions" + tag, got=[short(str(r), 60) for r in dups.rxns],
                 expected=[short(str(r), 60) for r in exp_dup], verdicts=verdicts)
        return None
    union = []
    for subs in operand_subs:
        union = merged_keys(union, subs)
    sum_descs = list(operand_descs[0]) + [operand_descs[k + 1][i] for k, idx in enumerate(sum_idx) for i in idx]
    dup_descs = [operand_descs[k + 1][i] for k, idx in enumerate(dup_idx) for i in idx]
    if not check_concat_subs(ctx, list(total.substances.keys()), operand_subs[0], union, sum_descs, "concatenate:sum" + tag):
        return None
    if not check_concat_subs(ctx, list(dups.substances.keys()), [], union, dup_descs, "concatenate:duplicates" + tag):
        return None
    return total, dups, sum_idx, dup_idx


def check_concat_subs(ctx, got_keys, first_subs, union_subs, rxn_descs, what):
    need = set()
    for r in rxn_descs:
        need.update(G.rxn_keys(r))
    ok = (got_keys[:len(first_subs)] == list(first_subs) and len(set(got_keys)) == len(got_keys)
          and need <= set(got_keys) and set(got_keys) <= set(union_subs))
    if not ok:
        ctx.fail(what + ":substances", got=got_keys, first=list(first_subs), needed=sorted(need))
    return ok


def check_ops(case, ctx):
    a, b = case["a"], case["b"]
    struct_labels(ctx, a)
    ctx.label("pred=" + case["pred"][0], "naming=" + a.get("naming", "same"), "naming_b=" + b.get("naming", "same"))
    shared = set(a["subs"]) & set(b["subs"])
    ctx.label("overlap=%s" % ("none" if not shared else "all" if shared == set(b["subs"]) else "some"))
    # subset
    A, ao = _build(a)
    fn, sel = pred_callable(select(case["pred"], a["rxns"]), ao)
    ctx.label("subset=%s" % ("all" if all(sel) else "none" if not any(sel) else "some"))
    yes, no = A.subset(fn)
    if not check_subset_result(ctx, a["subs"], a["rxns"], ao, sel, yes, no, parent=A):
        return
    if not check_members(ctx, A, a["subs"], ao, "subset:parent_changed"):
        return
    # system + system
    B, bo = _build(b)
    C = A + B
    if not check_members(ctx, C, merged_keys(a["subs"], b["subs"]), ao + bo, "add_system"):
        return
    if not (check_members(ctx, A, a["subs"], ao, "add_system:left_operand_changed")
            and check_members(ctx, B, b["subs"], bo, "add_system:right_operand_changed")):
        return
    if not check_structure(ctx, C, merged_keys(a["subs"], b["subs"]), a["rxns"] + b["rxns"], ao + bo, tag=":sum"):
        return
    # system + reactions
    eo = [G.build_reaction(r, i) for i, r in enumerate(case["extra"])]
    D = A + eo
    if not check_members(ctx, D, a["subs"], ao + eo, "add_reactions"):
        return
    D2 = A + tuple(eo)
    if not check_members(ctx, D2, a["subs"], ao + eo, "add_reactions:tuple"):
        return
    f_add, f_iadd = case.get("extra_forms") or ["list", "list"]
    ctx.label("add_form=" + f_add, "iadd_form=" + f_iadd)
    D3 = A + as_iterable(f_add, eo)
    if not check_members(ctx, D3, a["subs"], ao + eo, "add_reactions:iterable"):
        return
    if not check_members(ctx, A, a["subs"], ao, "add_reactions:left_operand_changed"):
        return
    # system += system ; += reactions
    A2, ao2 = _build(a)
    same = A2
    A2 += B
    if A2 is not same:
        ctx.fail("iadd_system:not_in_place")
        return
    if not check_members(ctx, A2, merged_keys(a["subs"], b["subs"]), ao2 + bo, "iadd_system"):
        return
    if not check_members(ctx, B, b["subs"], bo, "iadd_system:right_operand_changed"):
        return
    A2 += as_iterable(f_iadd, eo)
    if not check_members(ctx, A2, merged_keys(a["subs"], b["subs"]), ao2 + bo + eo, "iadd_reactions"):
        return
    # concatenate: the pair, then all 3-5 operands (fresh objects: the first system is consumed)
    operands = [a, b] + list(case.get("more") or [])
    for n in sorted(set([2, len(operands)])):
        built = [_build(x) for x in operands[:n]]
        if check_concatenate(ctx, [x[0] for x in built], [x["rxns"] for x in operands[:n]], [x[1] for x in built],
                             [x["subs"] for x in operands[:n]], tag="" if n == 2 else ":many") is None:
            return
    if case.get("twins"):
        check_twins(ctx, a, case["twins"])


def _tagged(desc, tag):
    """A fresh Reaction for the description with its own name, ref and data (none of which enter Reaction.__eq__)."""
    o = G.build_reaction(desc, 0)
    o.name, o.ref, o.data = "rxn_" + tag, {"doi": "10.0/" + tag}, {"tag": tag}
    return o


def check_twins(ctx, a, tw):
    """subset() on a system that holds reactions which compare equal but are different objects: both parts hold
    exactly the objects the predicate says (model: identities)."""
    from chempy import ReactionSystem
    ao = [_tagged(r, "a%d" % i) for i, r in enumerate(a["rxns"])]
    to = [_tagged(a["rxns"][i], "t%d" % i) for i in tw["idx"]]
    tdescs = [a["rxns"][i] for i in tw["idx"]]
    how = tw["how"]
    ctx.label("twins:how=" + how, "twins:by=" + tw["by"])
    dup = {"checks": ()} if has_duplicates(a["rxns"]) else {}
    if how == "add_system":
        S = ReactionSystem(ao, list(a["subs"]), **dup) + ReactionSystem(to, list(a["subs"]),
                                                                          **({"checks": ()} if has_duplicates(tdescs) else {}))
    elif how == "add_reactions":
        S = ReactionSystem(ao, list(a["subs"]), **dup) + to
    elif how == "iadd_system":
        S = ReactionSystem(ao, list(a["subs"]), **dup)
        S += ReactionSystem(to, list(a["subs"]), **({"checks": ()} if has_duplicates(tdescs) else {}))
    descs, objs = a["rxns"] + tdescs, ao + to
    if how.startswith("ctor"):
        descs, objs = [descs[i] for i in tw["order"]], [objs[i] for i in tw["order"]]
        kw = {"checks": ()} if how == "ctor_checks_empty" else {"dont_check": {"duplicate"}}
        S = ReactionSystem(objs, list(a["subs"]), **kw)
    if not check_members(ctx, S, a["subs"], objs, "twins:system"):
        return
    sel = list(tw["sel"])
    by = tw["by"]
    acc = [o for o, f in zip(objs, sel) if f]
    if by == "identity":
        keep = set(id(o) for o in acc)
        fn = lambda r: id(r) in keep                                   # noqa: E731
    elif by == "name":
        keep = set(o.name for o in acc)
        fn = lambda r: r.name in keep                                  # noqa: E731
    elif by == "ref":
        keep = set(o.ref["doi"] for o in acc)
        fn = lambda r: r.ref["doi"] in keep                            # noqa: E731
    else:
        keep = set(o.data["tag"] for o in acc)
        fn = lambda r: r.data["tag"] in keep                           # noqa: E731
    # a twin pair is separated when the predicate accepts exactly one of two equal reactions
    tags = {}
    for o, f in zip(objs, sel):
        tags.setdefault(o.data["tag"][1:], set()).add(f)
    separated = any(len(v) == 2 for v in tags.values())
    ctx.label("twins:separated" if separated else "twins:same_side")
    yes, no = S.subset(fn)
    if not check_subset_result(ctx, a["subs"], descs, objs, sel, yes, no, tag=":twins"):
        return
    check_members(ctx, S, a["subs"], objs, "subset:parent_changed:twins")


# ---------------------------------------------------------------------------
# sub-check 'convert': per-substance arrays <-> dicts, indices, varied levels
# ---------------------------------------------------------------------------

@st.composite
def convert_cases(draw):
    ns = draw(G.ints(1, 12))
    subs = G.permutation(draw, G.KEYS[:ns])
    vals = {k: draw(G.floats_pos(-6, 3)) if draw(G.ints(0, 3)) else float(draw(G.ints(0, 9))) for k in sorted(subs)}
    vk = G.pick_distinct(draw, sorted(subs), 0, 3)
    varied = {k: [draw(G.floats_pos(-3, 2)) for _ in range(draw(G.ints(1, 3)))] for k in vk}
    arg = G.pick(draw, ["list", "set", "tuple", "odict"])
    return {"subs": subs, "subs_arg": arg, "naming": G.pick(draw, NAMINGS) if arg == "odict" else "same", "values": vals,
            "varied": varied, "varied_order": G.permutation(draw, sorted(vk)), "extra_key": bool(draw(G.ints(0, 3)) == 3)}


def check_convert(case, ctx):
    import numpy as np
    sysd = {"subs": case["subs"], "rxns": []}
    naming = case.get("naming", "same")
    ctx.label("naming=" + naming)
    # (keys that are not the Substance names need the mapping form of the substances argument)
    rsys = build_sys(dict(sysd, naming=naming), []) if naming != "same" else G.build_system(sysd, [], None, case["subs_arg"])
    order = sorted(case["subs"]) if case["subs_arg"] == "set" else list(case["subs"])
    ns = len(order)
    ctx.label("arg=" + case["subs_arg"], "ns=%s" % (ns if ns <= 2 else "3-5" if ns <= 5 else "6+"),
              "varied=%d" % len(case["varied"]))
    ctx.nontrivial(ns >= 2 and order != sorted(order, key=lambda k: int(k[1:])))
    if list(rsys.substances.keys()) != order:
        ctx.fail("constructor:substance_order", got=list(rsys.substances.keys()), expected=order)
        return
    vals = dict(case["values"])
    given = dict(vals)
    if case["extra_key"]:
        given["S_unknown"] = 42.0
        res = sut(rsys.as_per_substance_array, dict(given), raise_on_unk=True)
        if not (is_err(res) and res.type == "KeyError"):
            ctx.fail("as_per_substance_array:unknown_key_not_rejected", got=repr(res))
            return
    arr = rsys.as_per_substance_array(dict(given))
    exp = [vals[k] for k in order]
    if not (isinstance(arr, np.ndarray) and arr.shape == (ns,) and [float(x) for x in arr] == exp):
        ctx.fail("as_per_substance_array:dict", got=short(repr(arr), 300), expected=exp)
        return
    arr2 = rsys.as_per_substance_array(list(exp))
    if not (arr2.shape == (ns,) and [float(x) for x in arr2] == exp):
        ctx.fail("as_per_substance_array:list", got=short(repr(arr2), 300), expected=exp)
        return
    d = rsys.as_per_substance_dict(arr)
    if not (isinstance(d, dict) and list(d.keys()) == order and all(float(d[k]) == vals[k] for k in order)):
        ctx.fail("as_per_substance_dict", got=short(repr(d), 300), expected=vals)
        return
    d2 = rsys.as_per_substance_dict(list(exp))
    if d2 != vals:
        ctx.fail("as_per_substance_dict:list", got=short(repr(d2), 300), expected=vals)
        return
    back = rsys.as_per_substance_array(d)
    if [float(x) for x in back] != exp:
        ctx.fail("per_substance_round_trip", got=short(repr(back), 300), expected=exp)
        return
    for i, k in enumerate(order):
        if rsys.as_substance_index(k) != i or rsys.as_substance_index(i) != i:
            ctx.fail("as_substance_index", key=k, got=rsys.as_substance_index(k), expected=i)
            return
    # per_substance_varied: axes follow substance order, last axis = substances
    varied = {k: list(case["varied"][k]) for k in case["varied_order"]}      # insertion order deliberately arbitrary
    res, vkeys = rsys.per_substance_varied(dict(vals), dict(varied) if varied else None)
    ekeys = tuple(k for k in order if k in varied)
    eshape = tuple(len(varied[k]) for k in ekeys) + (ns,)
    if tuple(vkeys) != ekeys or tuple(res.shape) != eshape:
        ctx.fail("per_substance_varied:shape_or_keys", keys=list(vkeys), shape=list(res.shape), expected_keys=list(ekeys),
                 expected_shape=list(eshape))
        return
    for idx in np.ndindex(*eshape[:-1]):
        row = dict(vals)
        for ax, k in enumerate(ekeys):
            row[k] = varied[k][idx[ax]]
        want = [row[k] for k in order]
        if [float(x) for x in res[idx]] != want:
            ctx.fail("per_substance_varied:value", index=list(idx), got=[float(x) for x in res[idx]], expected=want)
            return


# ---------------------------------------------------------------------------
# sub-check 'bounds': upper_conc_bounds = min over elements of total/atoms, never exceeded
# ---------------------------------------------------------------------------

ELEMENTS = [1, 6, 8, 17]


def nullspace(rows, ncols):
    """Integer basis of {v : rows . v = 0} by Gauss-Jordan elimination over Fractions."""
    m = [[Fraction(x) for x in row] for row in rows]
    piv = []
    r = 0
    for c in range(ncols):
        p = next((i for i in range(r, len(m)) if m[i][c] != 0), None)
        if p is None:
            continue
        m[r], m[p] = m[p], m[r]
        pv = m[r][c]
        m[r] = [x / pv for x in m[r]]
        for i in range(len(m)):
            if i != r and m[i][c] != 0:
                f = m[i][c]
                m[i] = [x - f * y for x, y in zip(m[i], m[r])]
        piv.append(c)
        r += 1
        if r == len(m):
            break
    basis = []
    for fc in [c for c in range(ncols) if c not in piv]:
        v = [Fraction(0)] * ncols
        v[fc] = Fraction(1)
        for ri, pc in enumerate(piv):
            v[pc] = -m[ri][fc]
        den = 1
        for x in v:
            den = den * x.denominator // _gcd(den, x.denominator)
        basis.append([int(x * den) for x in v])
    return basis


def _gcd(a, b):
    while b:
        a, b = b, a % b
    return abs(a)


def comp_rows(subs, keys):
    return [[s["comp"].get(str(e), 0) for s in subs] for e in keys]


@st.composite
def bounds_cases(draw):
    nel = draw(G.ints(1, 4))
    els = ELEMENTS[:nel]
    ns = draw(G.ints(1, 8))
    subs = []
    for i in range(ns):
        kind = draw(G.ints(0, 23))
        comp = {}
        if kind == 23:
            pass                                   # empty composition: no bound
        elif kind == 22:
            comp["0"] = G.pick(draw, [-1, 1, -2, 2])   # charge only (e.g. a solvated electron): no bound
        else:
            chosen = G.pick_distinct(draw, els, 1, nel)
            for e in chosen:
                comp[str(e)] = draw(G.ints(1, 4))
            if kind % 3 == 2:
                comp["0"] = G.pick(draw, [1, -1, 2, -2, 3, -3])
        subs.append({"key": G.KEYS[i], "comp": comp})
    order = G.permutation(draw, list(range(ns)))
    subs = [subs[i] for i in order]
    c0 = {s["key"]: (draw(G.floats_pos(-6, 2)) if draw(G.ints(0, 3)) else float(draw(G.ints(0, 9)))) for s in subs}
    # balanced reactions: integer combinations of the null space of the full composition matrix (charge included)
    basis = nullspace(comp_rows(subs, [0] + els), ns)
    rxns = []
    seen = set()
    if basis:
        for j in range(draw(G.ints(0, 3))):
            v = [0] * ns
            for b in basis if len(basis) <= 3 else G.pick_distinct(draw, basis, 1, 3):
                m = G.pick(draw, [1, -1, 0, 2, -2])
                v = [x + m * y for x, y in zip(v, b)]
            if any(v) and tuple(v) not in seen and max(abs(x) for x in v) <= 60:
                seen.add(tuple(v))
                rxns.append({"reac": {subs[i]["key"]: -x for i, x in enumerate(v) if x < 0},
                             "prod": {subs[i]["key"]: x for i, x in enumerate(v) if x > 0},
                             "inact_reac": {}, "inact_prod": {}, "k": len(rxns) + 1, "ktype": "plain", "eq": False})
    return {"subs": subs, "c0": c0, "c0_arg": G.pick(draw, ["dict", "list", "ndarray"]), "rxns": rxns,
            "xi": [G.pick(draw, [1, -1, 2, -3, 0, 5]) for _ in range(ns)], "theta": draw(G.fracs(8, 8)),
            "with_charge": bool(draw(G.ints(0, 2)) == 2)}


# bound_i = min_e (sum_j a_ej c_j) / a_ei: <= 8 products and additions of non-negative floats and one division, each
# within 1 ulp and without cancellation, i.e. < 20 * 1.1e-16 relative; 1e-12 leaves a factor > 400.
BOUND_RTOL = Fraction(1, 10 ** 12)


def check_bounds(case, ctx):
    from chempy import ReactionSystem, Substance
    subs = case["subs"]
    keys = [s["key"] for s in subs]
    ns = len(subs)
    comps = [{int(k): v for k, v in s["comp"].items()} for s in subs]
    sobjs = [Substance(s["key"], composition=dict(c)) for s, c in zip(subs, comps)]
    robjs = [G.build_reaction(r, i) for i, r in enumerate(case["rxns"])]
    rsys = ReactionSystem(robjs, sobjs)
    if list(rsys.substances.keys()) != keys:
        ctx.fail("constructor:substance_order", got=list(rsys.substances.keys()), expected=keys)
        return
    c0 = [Fraction(case["c0"][k]) for k in keys]
    if case["c0_arg"] == "dict":
        arg = dict(case["c0"])
    elif case["c0_arg"] == "list":
        arg = [case["c0"][k] for k in keys]
    else:
        import numpy as np
        arg = np.array([case["c0"][k] for k in keys], dtype=float)
    got = rsys.upper_conc_bounds(arg)
    els = sorted(set(e for c in comps for e in c if e != 0))
    tot = {e: sum(Fraction(c.get(e, 0)) * x for c, x in zip(comps, c0)) for e in els}
    exp = []
    for c in comps:
        cand = [tot[e] / c[e] for e in sorted(c) if e != 0]
        exp.append(min(cand) if cand else None)
    charged = any(0 in c for c in comps)
    unbounded = any(e is None for e in exp)
    ctx.label("c0=" + case["c0_arg"], "nrxn=%d" % len(case["rxns"]), "elements=%d" % len(els))
    if charged:
        ctx.label("charged")
    if unbounded:
        ctx.label("unbounded_species")
    ctx.nontrivial(len(els) >= 2 and ns >= 2)
    if len(got) != ns:
        ctx.fail("upper_conc_bounds:length", got=len(got), expected=ns)
        return
    for i, (g, e) in enumerate(zip(got, exp)):
        g = float(g)
        if e is None:
            ok = g == float("inf")
        elif g != g or g in (float("inf"), float("-inf")):
            ok = False
        else:
            ok = abs(Fraction(g) - e) <= BOUND_RTOL * e
        if not ok:
            ctx.fail("upper_conc_bounds:value", key=keys[i], composition=subs[i]["comp"], got=g,
                     expected=("inf" if e is None else float(e)))
            return
    # no non-negative state with the same element totals exceeds the bound: move along an exact direction of the
    # null space of the elemental composition matrix (optionally also conserving charge) as far as theta * t_max
    rows = comp_rows(subs, ([0] if case["with_charge"] else []) + els)
    basis = nullspace(rows, ns) if rows else [[1 if j == i else 0 for j in range(ns)] for i in range(ns)]
    if not basis:
        ctx.label("state=fixed")
        return
    d = [0] * ns
    for j, b in enumerate(basis):
        d = [x + case["xi"][j % ns] * y for x, y in zip(d, b)]
    steps = [c0[i] / -d[i] for i in range(ns) if d[i] < 0]
    tmax = min(steps) if steps else Fraction(1)
    theta = G.exact(case["theta"])
    theta = theta if theta <= 1 else 1 / theta
    c = [c0[i] + theta * tmax * d[i] for i in range(ns)]
    assert all(x >= 0 for x in c)
    for e in els:
        assert sum(Fraction(cm.get(e, 0)) * x for cm, x in zip(comps, c)) == tot[e]
    ctx.label("state=moved" if any(x != y for x, y in zip(c, c0)) else "state=same")
    for i in range(ns):
        g = float(got[i])
        if g == float("inf"):
            continue
        if c[i] > Fraction(g) * (1 + BOUND_RTOL):
            ctx.fail("upper_conc_bounds:exceeded_by_state_with_same_totals", key=keys[i], bound=g, conc=float(c[i]),
                     state=[float(x) for x in c])
            return


# ---------------------------------------------------------------------------
# state machine: histories of new / += / + / subset / split / concatenate
# ---------------------------------------------------------------------------

MAX_CONCAT_RXNS = 40
MAX_SUM_RXNS = 60


def new_state():
    return {"pool": [], "reg": [], "descs": [], "after_add": False, "nontrivial": False, "ops": 0}


def _register(state, descs):
    out = []
    for r in descs:
        state["reg"].append(G.build_reaction(r, len(state["reg"])))
        state["descs"].append(r)
        out.append(len(state["reg"]) - 1)
    return out


def _entry(state, obj, subs, rids):
    e = {"obj": obj, "subs": list(subs), "rids": list(rids)}
    state["pool"].append(e)
    if len(state["pool"]) > 8:          # keep the pool small: the oldest system leaves
        state["pool"].pop(0)
    return e


def _objs(state, e):
    return [state["reg"][i] for i in e["rids"]]


def _descs(state, e):
    return [state["descs"][i] for i in e["rids"]]


def _verify(state, e, ctx, what, structure=True, ordered=True):
    objs = _objs(state, e)
    if not check_members(ctx, e["obj"], e["subs"], objs, what, ordered=ordered):
        return False
    if structure:
        return check_structure(ctx, e["obj"], e["subs"], _descs(state, e), objs, tag="@" + what)
    return True


def apply_op(state, op, ctx):
    """One step of a history.  Indices are taken modulo the pool size and operations whose precondition does not hold
    (unknown keys, empty pool) are no-ops, so that every sub-sequence of a valid history is a valid history."""
    kind = op[0]
    pool = state["pool"]
    state["ops"] += 1
    if kind == "new":
        sysd = op[1]
        rids = _register(state, sysd["rxns"])
        obj = build_sys(sysd, [state["reg"][i] for i in rids])
        ctx.label("op:new_naming=" + sysd.get("naming", "same"))
        e = _entry(state, obj, sysd["subs"], rids)
        ctx.label("op:new")
        _verify(state, e, ctx, "new")
        return
    if not pool:
        return
    a = pool[op[1] % len(pool)]
    if kind in ("iadd_rxns", "add_rxns"):
        descs = [r for r in op[2] if set(G.rxn_keys(r)) <= set(a["subs"])]
        if not descs:
            return
        rids = _register(state, descs)
        new = [state["reg"][i] for i in rids]
        # op[3]: index into ITER_FORMS (older histories: list for +=, list / tuple for +)
        form = ITER_FORMS[op[3] % len(ITER_FORMS)] if len(op) > 3 else ("list" if kind == "iadd_rxns" or op[1] % 2 == 0 else "tuple")
        ctx.label("op:" + kind, "op:%s_form=%s" % (kind, form))
        state["after_add"] = True
        if kind == "iadd_rxns":
            before = a["obj"]
            a["obj"] += as_iterable(form, new)
            if a["obj"] is not before:
                ctx.fail("iadd_reactions:not_in_place")
            a["rids"] = a["rids"] + rids
            _verify(state, a, ctx, "iadd_reactions")
        else:
            res = a["obj"] + as_iterable(form, new)
            if not _verify(state, a, ctx, "add_reactions:operand_changed", structure=False):
                return
            e = _entry(state, res, a["subs"], a["rids"] + rids)
            _verify(state, e, ctx, "add_reactions")
        return
    if kind in ("iadd_sys", "add_sys", "concat"):
        if len(pool) < 2:
            return
        ia = op[1] % len(pool)
        ib = op[2] % len(pool)
        if ib == ia:
            ib = (ia + 1) % len(pool)
        b = pool[ib]
        if kind != "concat" and len(a["rids"]) + len(b["rids"]) > MAX_SUM_RXNS:
            # sums re-enter the pool, so repeated + / += would double the systems every few steps (the cost of the
            # structural queries grows faster than linearly): beyond this size the step is a no-op
            ctx.label("op:%s_skipped_size_cap" % kind)
            return
        ctx.label("op:" + kind)
        state["after_add"] = True
        if kind == "add_sys":
            res = a["obj"] + b["obj"]
            if not (_verify(state, a, ctx, "add_system:left_operand_changed", structure=False)
                    and _verify(state, b, ctx, "add_system:right_operand_changed", structure=False)):
                return
            e = _entry(state, res, merged_keys(a["subs"], b["subs"]), a["rids"] + b["rids"])
            _verify(state, e, ctx, "add_system")
        elif kind == "iadd_sys":
            before = a["obj"]
            a["obj"] += b["obj"]
            if a["obj"] is not before:
                ctx.fail("iadd_system:not_in_place")
            a["subs"] = merged_keys(a["subs"], b["subs"])
            a["rids"] = a["rids"] + b["rids"]
            if not _verify(state, b, ctx, "iadd_system:right_operand_changed", structure=False):
                return
            _verify(state, a, ctx, "iadd_system")
        else:
            # ["concat", i, j, k, ...]: the system i the sum starts from, then 1-4 *different* later operands
            # (further operands are left out once the sum could exceed MAX_CONCAT_RXNS reactions: the cost of the
            # structural queries grows faster than linearly and sums re-enter the pool)
            used, later, size = [ia], [], len(a["rids"])
            for x in op[2:]:
                if len(used) == len(pool):
                    break
                idx = x % len(pool)
                while idx in used:
                    idx = (idx + 1) % len(pool)
                size += len(pool[idx]["rids"])
                if later and size > MAX_CONCAT_RXNS:
                    break
                used.append(idx)
                later.append(pool[idx])
            ctx.label("op:concat_operands=%d" % (1 + len(later)))
            operands = [a] + later
            res = check_concatenate(ctx, [x["obj"] for x in operands], [_descs(state, x) for x in operands],
                                    [_objs(state, x) for x in operands], [list(x["subs"]) for x in operands])
            # the first system is consumed (chempy accumulates into it): it leaves the pool, the sum enters
            pool[:] = [x for x in pool if x is not a]      # by identity (dict == would compare ReactionSystems)
            if res is None:
                return
            total, dups, sum_idx, dup_idx = res
            sum_rids = a["rids"] + [x["rids"][i] for x, idx in zip(later, sum_idx) for i in idx]
            dup_rids = [x["rids"][i] for x, idx in zip(later, dup_idx) for i in idx]
            e1 = _entry(state, total, list(total.substances.keys()), sum_rids)
            if not _verify(state, e1, ctx, "concatenate:sum"):
                return
            e2 = _entry(state, dups, list(dups.substances.keys()), dup_rids)
            _verify(state, e2, ctx, "concatenate:duplicates")
        return
    if kind == "twin":
        # the reactions of a once more as fresh objects that compare equal (same description), together with the
        # originals in one system: by + (reactions / system) or by the constructor with the duplicate check off
        descs = _descs(state, a)
        if not descs or len(descs) > MAX_CONCAT_RXNS // 2:
            return
        from chempy import ReactionSystem
        rids = _register(state, [dict(d) for d in descs])
        new = [state["reg"][i] for i in rids]
        how = op[2] % 4
        ctx.label("op:twin", "op:twin_how=%d" % how)
        state["after_add"] = True
        all_rids = a["rids"] + rids
        if how == 0:
            res = a["obj"] + new
        elif how == 1:
            res = a["obj"] + ReactionSystem(new, list(a["subs"]), checks=())
        else:
            # original and twin next to each other
            all_rids = [x for pair in zip(a["rids"], rids) for x in pair]
            kw = {"checks": ()} if how == 2 else {"dont_check": {"duplicate"}}
            res = ReactionSystem([state["reg"][i] for i in all_rids], list(a["subs"]), **kw)
        if not _verify(state, a, ctx, "twin:operand_changed", structure=False):
            return
        e = _entry(state, res, a["subs"], all_rids)
        _verify(state, e, ctx, "twin")
        return
    if kind == "subset":
        descs, objs = _descs(state, a), _objs(state, a)
        fn, sel = pred_callable(select(op[2], descs), objs)
        ctx.label("op:subset")
        if state["after_add"]:
            state["nontrivial"] = True
        yes, no = a["obj"].subset(fn)
        if not check_subset_result(ctx, a["subs"], descs, objs, sel, yes, no, parent=a["obj"]):
            return
        if not _verify(state, a, ctx, "subset:parent_changed", structure=False):
            return
        flag = bool(op[3] % 2 == 0)
        part = yes if flag else no
        idx = [i for i, f in enumerate(sel) if f == flag]
        keys = set()
        for i in idx:
            keys.update(G.rxn_keys(descs[i]))
        e = _entry(state, part, [s for s in a["subs"] if s in keys], [a["rids"][i] for i in idx])
        _verify(state, e, ctx, "subset:kept")
        return
    if kind == "split":
        descs, objs = _descs(state, a), _objs(state, a)
        ctx.label("op:split")
        if state["after_add"]:
            state["nontrivial"] = True
        dup = has_duplicates(descs) or len(set(a["rids"])) != len(a["rids"])
        parts = check_split(ctx, a["obj"], a["subs"], descs, objs, dup, tag="@split")
        if not parts:
            return
        if not _verify(state, a, ctx, "split:parent_changed", structure=False):
            return
        part = parts[op[2] % len(parts)]
        # identify the part's reactions in the model by identity (positions of first unused match)
        free = list(range(len(objs)))
        rids = []
        for x in part.rxns:
            j = next(i for i in free if objs[i] is x)
            free.remove(j)
            rids.append(a["rids"][j])
        e = _entry(state, part, list(part.substances.keys()), rids)
        keys = set()
        for i in rids:
            keys.update(G.rxn_keys(state["descs"][i]))
        if [s for s in a["subs"] if s in keys] != e["subs"]:
            ctx.label("split:part_substance_order_differs")
        _verify(state, e, ctx, "split:part", ordered=False)
        return


def machine(ctx):
    class M(RuleBasedStateMachine):
        def __init__(self):
            super().__init__()
            self.history = []
            self.state = new_state()
            ctx.begin_case(None)

        def _do(self, op):
            self.history.append(op)
            ctx._cur_case = {"history": self.history}
            machine_guard(ctx, self.history, lambda: apply_op(self.state, op, ctx))

        def _keys(self, i):
            pool = self.state["pool"]
            return list(pool[i % len(pool)]["subs"]) if pool else []

        @initialize(sysd=G.systems(cls="exact", max_subs=8, max_rxns=5), naming=G.ints(0, len(NAMINGS) - 1))
        def first(self, sysd, naming):
            self._do(["new", dict(sysd, naming=NAMINGS[naming])])

        @rule(sysd=G.systems(cls="exact", max_subs=10, max_rxns=4), off=G.ints(0, 8), naming=G.ints(0, len(NAMINGS) - 1))
        def new(self, sysd, off, naming):
            # shift the keys so that later systems overlap the earlier ones only partly
            ren = {k: G.KEYS[(i + off) % len(G.KEYS)] for i, k in enumerate(G.KEYS)}
            sysd = {"subs": [ren[k] for k in sysd["subs"]],
                    "rxns": [dict(r, **{s: {ren[k]: v for k, v in r[s].items()} for s in G.SIDES}) for r in sysd["rxns"]],
                    "naming": NAMINGS[naming]}
            self._do(["new", sysd])

        @rule(i=G.ints(0, 7), data=st.data())
        def iadd_rxns(self, i, data):
            keys = self._keys(i)
            if keys:
                self._do(["iadd_rxns", i, data.draw(G.reactions_over(keys, 3)), data.draw(G.ints(0, len(ITER_FORMS) - 1))])

        @rule(i=G.ints(0, 7), data=st.data())
        def add_rxns(self, i, data):
            keys = self._keys(i)
            if keys:
                self._do(["add_rxns", i, data.draw(G.reactions_over(keys, 2)), data.draw(G.ints(0, len(ITER_FORMS) - 1))])

        @rule(i=G.ints(0, 7), j=G.ints(0, 7))
        def iadd_sys(self, i, j):
            self._do(["iadd_sys", i, j])

        @rule(i=G.ints(0, 7), j=G.ints(0, 7))
        def add_sys(self, i, j):
            self._do(["add_sys", i, j])

        @rule(i=G.ints(0, 7), j=G.ints(0, 7))
        def concat(self, i, j):
            self._do(["concat", i, j])

        @rule(i=G.ints(0, 7), js=st.lists(G.ints(0, 7), min_size=2, max_size=4))
        def concat_many(self, i, js):
            self._do(["concat", i] + js)

        @rule(i=G.ints(0, 7), how=G.ints(0, 3))
        def twin(self, i, how):
            self._do(["twin", i, how])

        @rule(i=G.ints(0, 7), keep=G.ints(0, 1), data=st.data())
        def subset(self, i, keep, data):
            self._do(["subset", i, data.draw(preds(self._keys(i))), keep])

        @rule(i=G.ints(0, 7), pick=G.ints(0, 5))
        def split(self, i, pick):
            self._do(["split", i, pick])

        def teardown(self):
            ctx.nontrivial(self.state["nontrivial"])
            ctx.end_case({"history": self.history})
    return M


def replay_history(sub_name, case, ctx):
    """Plain re-execution of a history.  harness.replay_case does not classify exceptions of a history replay, so an
    exception that passes through a /repo frame is turned into the same clause machine_guard / Ctx.run_case would use."""
    from vlib import harness as H
    from vlib.env import HarnessError
    ctx.begin_case(case)
    state = new_state()
    for op in case["history"]:
        try:
            apply_op(state, op, ctx)
        except (H.Violation, HarnessError):
            raise
        except Exception as e:  # noqa
            if not H._passes_through_repo(e):
                raise
            ctx.fail("sut_exception:%s" % type(e).__name__, message=str(e)[:300], where=H._repo_frame(e))
    ctx.nontrivial(state["nontrivial"])
    ctx.end_case(case)


SUBCHECKS = [
    SubCheck("structure", check_struct_case, strategy=struct_cases(), quick=900, thorough=80000,
             rule="split / categorize_substances / identify_equilibria / substance_participation / "
                  "per_reaction_effect_on_substance of a generated system, in the generated and in a permuted reaction order"),
    SubCheck("perms", check_perm_case, enumerate=enum_perms,
             rule="the same queries for every reaction order of 6 hand-made systems (chains fused late, star, "
                  "ambiguous reverse pairs); exhaustive"),
    SubCheck("ctor", check_ctor, strategy=ctor_cases(), quick=400, thorough=20000,
             rule="substance order for None/set (sorted) and list/tuple/str/OrderedDict (as given); an equal reaction "
                  "twice or a reaction key missing from the substances raises ValueError"),
    SubCheck("ops", check_ops, strategy=ops_cases(), quick=500, thorough=40000,
             rule="subset(pred), system+system, system+reactions, +=, concatenate on a generated pair of overlapping systems "
                  "(reactions as list, tuple, generator expression, iter(), filter, map, dict values, chain, deque); "
                  "concatenate also over 3-5 systems whose later operands repeat stoichiometries of any earlier operand "
                  "(mostly of another later one), once or twice; subset on a system that holds 1-3 reactions twice as distinct "
                  "objects that compare equal (other name / ref / data; made by +, += or the constructor with checks=() / "
                  "dont_check={'duplicate'}) with a predicate on name / ref / data / identity of arbitrary extension"),
    SubCheck("convert", check_convert, strategy=convert_cases(), quick=400, thorough=20000,
             rule="as_per_substance_array/dict, as_substance_index, per_substance_varied in substance order"),
    SubCheck("bounds", check_bounds, strategy=bounds_cases(), quick=600, thorough=50000,
             rule="upper_conc_bounds vs min over elements (charge skipped) of total/atoms with Fractions; a state moved "
                  "along an exact null-space direction of the composition matrix stays below the bound",
             tolerances={"bound_rel": 1e-12}),
    SubCheck("machine", machine=machine, quick=300, thorough=20000, steps=(20, 40),
             rule="histories of new / += reactions / += system / + / twin (equal copies as distinct objects, via + or the "
                  "constructor without duplicate check) / subset (also by position = identity) / split->part / concatenate "
                  "(2-5 operands) over a pool of "
                  "systems; model = ordered substance keys + list of reaction ids; every result and its structural "
                  "queries are checked"),
]

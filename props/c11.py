# -*- coding: utf-8 -*-
"""C11 - arithmetic on equilibria keeps the constant consistent with the stoichiometry."""
from fractions import Fraction

from hypothesis import strategies as st
from hypothesis.stateful import RuleBasedStateMachine, rule, initialize

from vlib import env  # noqa  (sys.path)
from vlib.harness import SubCheck, sut, is_err, short, machine_guard

PROPERTY = "C11"
LEVEL = "exploration"
RULE = ("'history': a RuleBasedStateMachine builds a pool of equilibria over the species A..H from operand "
        "descriptions (1-3 species per side, coefficients 1..6, sometimes a species on both sides; constant = sympy "
        "Rational / positive Symbol in the 'sympy' family, Fraction / float / int in the 'python' family) and applies "
        "n*e, e*n (n = +-1..+-5, python int or sympy Integer), -e, e1+e2, e1-e2 to pool members; the model carries the "
        "net stoichiometry (Counter) and the exponent vector over the operand constants, and every result is compared "
        "with it.  Non-trivial history = >= 3 arithmetic operations including a negative scale (or -e / a "
        "subtraction) and an addition/subtraction in which some species cancels fully or partly; distinct by history "
        "digest.  'eliminate': generated pairs sharing a species with net coefficients +-1..+-12 (same or opposite "
        "sides, possibly on both sides of one operand).  'as_reactions': generated equilibria with one rate given, as a "
        "plain/symbolic number or (units=default_units) as a quantity of dimension conc**(1-order)/time in mixed "
        "concentration/time units with K a plain number or a quantity in molar**(nb-nf); non-trivial = nb != nf (or "
        "a species on both sides).")
ASSUMPTIONS = ["symbolic constants are judged by substituting distinct primes >= 23 for the symbols and comparing exact "
               "rationals; rational constants only have prime factors <= 19, so equal values imply equal monomials",
               "float constants: relative tolerance 1e-10 on the product (|exponents| <= 48, <= 16 operations, each "
               "pow/mul correct to ~1 ulp, so the accumulated error is < 1e-13)"]

SPECIES = "ABCDEFGH"
PRIMES = [23, 29, 31, 37, 41, 43, 47, 53, 59, 61, 67, 71]
MAX_COEF = 400          # a history step is skipped (recorded, not executed) if it would exceed these bounds
MAX_EXP = 48
MAX_BASES = 8
FLOAT_RTOL = 1e-10      # see ASSUMPTIONS
RATE_RTOL = 1e-13       # as_reactions: one multiplication by 1, one division, one division of mine: <= 3 ulp


def _Eq():
    from chempy import Equilibrium
    return Equilibrium


# ---------------------------------------------------------------------------
# operand descriptions
# ---------------------------------------------------------------------------

def _side(max_n=3):
    return st.lists(st.tuples(st.integers(0, len(SPECIES) - 1), st.integers(1, 6)), min_size=1, max_size=max_n)


def _fix_spec(reac_l, prod_l, K):
    reac, prod = {}, {}
    for i, c in reac_l:
        reac[SPECIES[i]] = c           # a repeated species keeps the last coefficient
    for i, c in prod_l:
        prod[SPECIES[i]] = c
    if all(prod.get(k, 0) == reac.get(k, 0) for k in set(reac) | set(prod)):
        k = sorted(prod)[0]
        prod[k] += 1                   # no net effect would be rejected by the constructor: make one
    return {"reac": reac, "prod": prod, "K": K}


def _const(family):
    pq = st.tuples(st.integers(1, 20), st.integers(1, 20)).map(lambda t: "%d/%d" % t)
    if family == "sympy":
        return st.one_of(pq.map(lambda s: ["rat", s]), st.just(["sym"]))
    return st.one_of(pq.map(lambda s: ["frac", s]),
                     st.sampled_from([2.0, 0.5, 0.37, 12.5, 1e-2, 3.0e1, 7.25, 0.1]).map(lambda x: ["float", x]),
                     st.integers(1, 20).map(lambda n: ["int", n]))


def operand_specs(family):
    return st.builds(_fix_spec, _side(), _side(), _const(family))


def _frac(s):
    p, q = s.split("/")
    return Fraction(int(p), int(q))


def _make_constant(K, base_index):
    """chempy-side value and the oracle's exact value of one operand constant."""
    import sympy
    kind = K[0]
    if kind == "rat":
        f = _frac(K[1])
        return sympy.Rational(f.numerator, f.denominator), f
    if kind == "sym":
        return sympy.Symbol("K%d" % base_index, positive=True), Fraction(PRIMES[base_index])
    if kind == "frac":
        f = _frac(K[1])
        return f, f
    if kind == "float":
        return float(K[1]), Fraction(float(K[1]))
    if kind == "int":
        return int(K[1]), Fraction(int(K[1]))
    raise ValueError(K)


def _symbol_values():
    import sympy
    return {sympy.Symbol("K%d" % i, positive=True): sympy.Integer(p) for i, p in enumerate(PRIMES)}


def _evaluate(param):
    """('exact', Fraction) | ('approx', float) | ('bad', repr)."""
    import sympy
    if isinstance(param, bool) or param is None:
        return "bad", repr(param)
    if isinstance(param, (int, Fraction)):
        return "exact", Fraction(param)
    if isinstance(param, float):
        return "approx", param
    if isinstance(param, sympy.Basic):
        v = param.subs(_symbol_values())
        if v.is_Rational:
            return "exact", Fraction(int(v.p), int(v.q))
        if v.is_number and v.is_real:
            try:
                return "approx", float(v)
            except OverflowError:
                return "bad", "overflow"
        return "bad", str(param)[:200]
    try:
        return "approx", float(param)
    except Exception:  # noqa
        return "bad", repr(param)


def _expected_value(exps, base_values):
    out = Fraction(1)
    for b, e in exps.items():
        out *= base_values[b] ** e
    return out


def _fmt(fr):
    """Fraction -> text without tripping the int->str digit limit on absurdly large wrong answers."""
    fr = Fraction(fr)
    if fr.numerator.bit_length() > 2000 or fr.denominator.bit_length() > 2000:
        return "~2**%d / 2**%d" % (fr.numerator.bit_length() - 1, fr.denominator.bit_length() - 1)
    return str(fr)


def _judge_param(ctx, got, exps, base_values, what, **detail):
    expected = _expected_value(exps, base_values)
    kind, val = _evaluate(got)
    if kind == "bad":
        ctx.fail("param_not_a_number:" + what, got=val, exponents=exps, **detail)
        return
    if kind == "exact":
        if val != expected:
            ctx.fail("param_differs_from_product_of_powers:" + what, got=_fmt(val), expected=_fmt(expected),
                     exponents=exps, **detail)
    else:
        ef = float(expected)        # |exponents| <= MAX_EXP and constants within [1e-2, 1e2]: no overflow
        if not abs(val - ef) <= FLOAT_RTOL * abs(ef):
            ctx.fail("param_differs_from_product_of_powers:" + what, got=val, expected=ef, exponents=exps, **detail)


def _int_value(x):
    if isinstance(x, bool):
        return None
    if isinstance(x, int):
        return x
    if getattr(x, "is_Integer", False):
        return int(x)
    try:
        if int(x) == x:
            return int(x)
    except Exception:  # noqa
        pass
    return None


def _net_of(reac, prod):
    net = {}
    for k, v in prod.items():
        net[k] = net.get(k, 0) + v
    for k, v in reac.items():
        net[k] = net.get(k, 0) - v
    return {k: v for k, v in net.items() if v != 0}


def _judge_stoich(ctx, eq, net, netted, what, **detail):
    """eq: chempy Equilibrium; net: model {species: int != 0}."""
    reac, prod = dict(eq.reac), dict(eq.prod)
    for side, d in (("reac", reac), ("prod", prod)):
        for k, v in d.items():
            iv = _int_value(v)
            if iv is None or iv <= 0:
                ctx.fail("listed_coefficient_not_a_positive_integer:" + what, side=side, species=k, got=repr(v), **detail)
                return False
    if dict(eq.inact_reac) or dict(eq.inact_prod):
        ctx.fail("inactive_parts_appeared:" + what, got=[dict(eq.inact_reac), dict(eq.inact_prod)], **detail)
        return False
    own = _net_of({k: _int_value(v) for k, v in reac.items()}, {k: _int_value(v) for k, v in prod.items()})
    if own != net:
        ctx.fail("net_stoichiometry_differs:" + what, got=own, expected=net, **detail)
        return False
    ns = tuple(_int_value(v) for v in eq.net_stoich(SPECIES))
    if ns != tuple(net.get(k, 0) for k in SPECIES):
        ctx.fail("net_stoich_method_differs:" + what, got=list(ns), expected=[net.get(k, 0) for k in SPECIES], **detail)
        return False
    if netted:
        both = sorted(set(reac) & set(prod))
        if both:
            ctx.fail("not_netted_species_on_both_sides:" + what, species=both, **detail)
            return False
        exp_r = {k: -v for k, v in net.items() if v < 0}
        exp_p = {k: v for k, v in net.items() if v > 0}
        if {k: _int_value(v) for k, v in reac.items()} != exp_r or {k: _int_value(v) for k, v in prod.items()} != exp_p:
            ctx.fail("not_netted_form:" + what, got=[reac, prod], expected=[exp_r, exp_p], **detail)
            return False
    return True


# ---------------------------------------------------------------------------
# histories
# ---------------------------------------------------------------------------

def new_state():
    return {"pool": [], "base_values": [], "nops": 0, "neg": False, "cancel": False, "family": None}


def _scaled(entry, n):
    return ({k: v * n for k, v in entry["net"].items()}, {b: e * n for b, e in entry["exps"].items() if e * n})


def _combined(a, b, sign):
    net = dict(a["net"])
    cancel = False
    for k, v in b["net"].items():
        if k in net and (net[k] > 0) != (sign * v > 0):
            cancel = True
        net[k] = net.get(k, 0) + sign * v
    net = {k: v for k, v in net.items() if v}
    exps = dict(a["exps"])
    for bb, e in b["exps"].items():
        exps[bb] = exps.get(bb, 0) + sign * e
    return net, {bb: e for bb, e in exps.items() if e}, cancel


def _within_bounds(net, exps):
    return all(abs(v) <= MAX_COEF for v in net.values()) and all(abs(e) <= MAX_EXP for e in exps.values())


def apply_op(state, op, ctx):
    """One step of a history; the same function is used by the machine and by replay."""
    import sympy
    Equilibrium = _Eq()
    kind = op[0]
    pool = state["pool"]
    if kind == "init":
        state["family"] = op[1]
        ctx.label("family:" + op[1])
        return
    if kind == "new":
        spec = op[1]
        if len(state["base_values"]) >= MAX_BASES:
            ctx.label("skipped:max_operands")
            return
        b = len(state["base_values"])
        kval, exact = _make_constant(spec["K"], b)
        state["base_values"].append(exact)
        eq = Equilibrium(dict(spec["reac"]), dict(spec["prod"]), kval)
        entry = {"eq": eq, "net": _net_of(spec["reac"], spec["prod"]), "exps": {b: 1}}
        ctx.label("operand:" + spec["K"][0])
        if set(spec["reac"]) & set(spec["prod"]):
            ctx.label("operand:species_on_both_sides")
        _judge_stoich(ctx, eq, entry["net"], False, "operand", op=op)
        pool.append(entry)
        return
    if not pool:
        return
    what = kind
    if kind in ("rmul", "mul", "neg"):
        a = pool[op[1] % len(pool)]
        n = -1 if kind == "neg" else op[2]
        net, exps = _scaled(a, n)
        if not _within_bounds(net, exps):
            ctx.label("skipped:bounds")
            return
        mult = n
        if kind != "neg" and len(op) > 3 and op[3] == "sympy":
            mult = sympy.Integer(n)
            ctx.label("multiplier:sympy_Integer")
        if kind == "rmul":
            res = mult * a["eq"]
        elif kind == "mul":
            res = a["eq"] * mult
        else:
            res = -a["eq"]
        state["nops"] += 1
        if n < 0:
            state["neg"] = True
        ctx.label("op:" + kind + (":negative" if n < 0 else ""))
        netted = False
    elif kind in ("add", "sub"):
        a = pool[op[1] % len(pool)]
        b = pool[op[2] % len(pool)]
        sign = 1 if kind == "add" else -1
        net, exps, cancel = _combined(a, b, sign)
        if not _within_bounds(net, exps):
            ctx.label("skipped:bounds")
            return
        state["nops"] += 1
        if sign < 0:
            state["neg"] = True
        if cancel:
            state["cancel"] = True
            ctx.label("cancellation")
        ctx.label("op:" + kind)
        if not net:
            # total cancellation: chempy refuses to construct a reaction without net effect (ValueError).  An empty
            # equilibrium would also satisfy the statement; anything else is judged below.
            res = sut(lambda: a["eq"] + b["eq"] if sign > 0 else a["eq"] - b["eq"])
            ctx.label("total_cancellation")
            if is_err(res):
                if res.type != "ValueError":
                    ctx.fail("total_cancellation_wrong_exception", error=repr(res), op=op)
                return
        else:
            res = a["eq"] + b["eq"] if sign > 0 else a["eq"] - b["eq"]
        netted = True
    else:
        raise ValueError("unknown op %r" % (op,))
    if not isinstance(res, Equilibrium):
        ctx.fail("result_not_an_Equilibrium:" + what, got=short(repr(res), 200), op=op)
        return
    ok = _judge_stoich(ctx, res, net, netted, what, op=op)
    _judge_param(ctx, res.param, exps, state["base_values"], what, op=op)
    if ok and net:
        pool.append({"eq": res, "net": net, "exps": exps})


def machine(ctx):
    class M(RuleBasedStateMachine):
        def __init__(self):
            super().__init__()
            self.history = []
            self.state = new_state()
            ctx.begin_case(None)

        def _do(self, op):
            self.history.append(op)
            ctx._cur_case = {"history": self.history}
            machine_guard(ctx, self.history, lambda: apply_op(self.state, op, ctx))

        @initialize(family=st.sampled_from(["sympy", "python"]), data=st.data())
        def init(self, family, data):
            self._do(["init", family])
            self._do(["new", data.draw(operand_specs(family))])
            self._do(["new", data.draw(operand_specs(family))])

        @rule(data=st.data())
        def new(self, data):
            self._do(["new", data.draw(operand_specs(self.state["family"]))])

        @rule(i=st.integers(0, 15), n=st.sampled_from([2, -1, -2, 3, -3, 1, 4, -4, 5, -5]),
              how=st.sampled_from(["int", "int", "sympy"]))
        def rmul(self, i, n, how):
            self._do(["rmul", i, n, how])

        @rule(i=st.integers(0, 15), n=st.sampled_from([2, -1, -2, 3, -3, 1, 4, -4, 5, -5]),
              how=st.sampled_from(["int", "int", "sympy"]))
        def mul(self, i, n, how):
            self._do(["mul", i, n, how])

        @rule(i=st.integers(0, 15))
        def neg(self, i):
            self._do(["neg", i])

        @rule(i=st.integers(0, 15), j=st.integers(0, 15))
        def add(self, i, j):
            self._do(["add", i, j])

        @rule(i=st.integers(0, 15), j=st.integers(0, 15))
        def sub(self, i, j):
            self._do(["sub", i, j])

        def teardown(self):
            s = self.state
            ctx.nontrivial(s["nops"] >= 3 and s["neg"] and s["cancel"])
            ctx.label("ops:%s" % ("0" if s["nops"] == 0 else "1-2" if s["nops"] < 3 else "3-5" if s["nops"] < 6 else "6+"))
            ctx.end_case({"history": self.history})
    return M


def replay_history(sub_name, case, ctx):
    ctx.begin_case(case)
    state = new_state()
    for op in case["history"]:
        apply_op(state, op, ctx)
    ctx.nontrivial(state["nops"] >= 3 and state["neg"] and state["cancel"])
    ctx.end_case(case)


# ---------------------------------------------------------------------------
# eliminate
# ---------------------------------------------------------------------------

@st.composite
def eliminate_cases(draw):
    key = SPECIES[0]
    ops = []
    for _ in range(2):
        v = draw(st.sampled_from([1, -1, 2, -2, 3, -3, 4, 6, -6, 5, 7, 8, 9, 10, 11, 12, -4, -5, -7, -8, -9, -10, -11, -12]))
        extra = draw(st.sampled_from([0, 0, 0, 1, 2, 5]))        # the same species also on the other side
        others_r = draw(st.lists(st.tuples(st.integers(1, len(SPECIES) - 1), st.integers(1, 6)), min_size=0, max_size=2))
        others_p = draw(st.lists(st.tuples(st.integers(1, len(SPECIES) - 1), st.integers(1, 6)), min_size=1, max_size=2))
        reac = {SPECIES[i]: c for i, c in others_r}
        prod = {SPECIES[i]: c for i, c in others_p}
        if v < 0:
            reac[key] = -v + extra
            if extra:
                prod[key] = extra
        else:
            prod[key] = v + extra
            if extra:
                reac[key] = extra
        pq = draw(st.tuples(st.integers(1, 20), st.integers(1, 20)))
        ops.append({"reac": reac, "prod": prod, "K": ["rat", "%d/%d" % pq]})
    return {"e1": ops[0], "e2": ops[1], "key": key, "order": draw(st.sampled_from(["m*e", "e*m"]))}


def check_eliminate(case, ctx):
    Equilibrium = _Eq()
    key = case["key"]
    eqs, nets, vals = [], [], []
    for i, name in enumerate(("e1", "e2")):
        spec = case[name]
        kval, exact = _make_constant(spec["K"], i)
        eqs.append(Equilibrium(dict(spec["reac"]), dict(spec["prod"]), kval))
        nets.append(_net_of(spec["reac"], spec["prod"]))
        vals.append(exact)
    v1, v2 = nets[0].get(key, 0), nets[1].get(key, 0)
    if v1 == 0 or v2 == 0:
        raise ValueError("case outside the domain: the species must have a non-zero net coefficient in both operands")
    ctx.label("sides:" + ("same" if (v1 > 0) == (v2 > 0) else "opposite"),
              "both_unit" if abs(v1) == 1 and abs(v2) == 1 else "one_unit" if 1 in (abs(v1), abs(v2)) else
              ("coprime" if __import__("math").gcd(v1, v2) == 1 else "common_factor"))
    if any(key in case[n]["reac"] and key in case[n]["prod"] for n in ("e1", "e2")):
        ctx.label("species_on_both_sides_of_an_operand")
    ctx.nontrivial(True)
    res = sut(Equilibrium.eliminate, eqs, key)
    if is_err(res):
        ctx.fail("eliminate_raises", error=repr(res), v1=v1, v2=v2)
        return
    try:
        ms = list(res)
    except TypeError:
        ms = None
    if ms is None or len(ms) != 2:
        ctx.fail("eliminate_result_not_two_multipliers", got=short(repr(res), 200))
        return
    im = [_int_value(m) for m in ms]
    if any(m is None or m == 0 for m in im):
        ctx.fail("multiplier_not_a_non_zero_integer", got=[repr(m) for m in ms], v1=v1, v2=v2)
        return
    if im[0] * v1 + im[1] * v2 != 0:
        ctx.fail("multipliers_do_not_eliminate", got=im, v1=v1, v2=v2)
        return
    net = {}
    for m, nt in zip(im, nets):
        for k, v in nt.items():
            net[k] = net.get(k, 0) + m * v
    net = {k: v for k, v in net.items() if v}
    if case.get("order") == "e*m":
        comb = sut(lambda: eqs[0] * ms[0] + eqs[1] * ms[1])
    else:
        comb = sut(lambda: ms[0] * eqs[0] + ms[1] * eqs[1])
    if is_err(comb):
        if not net and comb.type == "ValueError":
            ctx.label("combination_cancels_totally")
            return
        ctx.fail("combination_raises", error=repr(comb), multipliers=im)
        return
    if not isinstance(comb, Equilibrium):
        ctx.fail("combination_not_an_Equilibrium", got=short(repr(comb), 200), multipliers=im)
        return
    if key in comb.reac or key in comb.prod:
        ctx.fail("species_still_listed_in_combination", reac=dict(comb.reac), prod=dict(comb.prod), multipliers=im)
        return
    _judge_stoich(ctx, comb, net, True, "combination", multipliers=im)
    _judge_param(ctx, comb.param, {0: im[0], 1: im[1]}, vals, "combination", multipliers=im)


# ---------------------------------------------------------------------------
# as_reactions
# ---------------------------------------------------------------------------

@st.composite
def as_reactions_cases(draw):
    family = draw(st.sampled_from(["sympy", "python"]))
    spec = draw(operand_specs(family))
    pq = st.tuples(st.integers(1, 30), st.integers(1, 30)).map(lambda t: "%d/%d" % t)
    if family == "sympy":
        rate = draw(st.one_of(pq.map(lambda s: ["rat", s]), st.just(["sym"])))
    else:
        rate = draw(st.one_of(pq.map(lambda s: ["frac", s]),
                              st.sampled_from([1.0, 2.5, 1.31e11, 3e-7, 0.1, 7.0]).map(lambda x: ["float", x])))
    return {"eq": spec, "given": draw(st.sampled_from(["kf", "kb"])), "rate": rate}


# --- with units: own SI table (exact factors to the base units mol, m, s), keyed by quantities' unit names -----------
UNIT_RTOL = 1e-12       # float magnitude * float unit factors, a handful of multiplications/divisions/pows: << 1e-13

SI_TABLE = {            # name -> (exact factor, {base: exponent})
    "mole": (Fraction(1), {"mol": 1}),
    "meter": (Fraction(1), {"m": 1}),
    "decimetre": (Fraction(1, 10), {"m": 1}),
    "decimeter": (Fraction(1, 10), {"m": 1}),
    "centimeter": (Fraction(1, 100), {"m": 1}),
    "liter": (Fraction(1, 1000), {"m": 3}),
    "molar": (Fraction(1000), {"mol": 1, "m": -3}),
    "millimolar": (Fraction(1), {"mol": 1, "m": -3}),
    "micromolar": (Fraction(1, 1000), {"mol": 1, "m": -3}),
    "second": (Fraction(1), {"s": 1}),
    "millisecond": (Fraction(1, 1000), {"s": 1}),
    "minute": (Fraction(60), {"s": 1}),
    "hour": (Fraction(3600), {"s": 1}),
    "dimensionless": (Fraction(1), {}),
}
CONC_UNITS = ["molar", "mol/m3", "mol/dm3", "millimolar", "mol/L", "micromolar", "mol/cm3"]
TIME_UNITS = ["second", "hour", "millisecond", "minute"]
C0_SI = Fraction(1000)  # the standard concentration 1 molar in mol/m3


def _conc_unit(u, name):
    return {"molar": lambda: u.molar, "mol/m3": lambda: u.mol / u.m ** 3, "mol/dm3": lambda: u.mol / u.dm ** 3,
            "millimolar": lambda: u.millimolar, "mol/L": lambda: u.mol / u.liter, "micromolar": lambda: u.micromolar,
            "mol/cm3": lambda: u.mol / u.cm ** 3}[name]()


def _si_of(q):
    """(exact SI magnitude as Fraction, {base: exponent}) of a scalar quantity, or None if a unit is not in my table."""
    mag = Fraction(float(q.magnitude))
    dims = {}
    for unit, ex in q.dimensionality.items():
        ent = SI_TABLE.get(getattr(unit, "name", None))
        if ent is None or int(ex) != ex:
            return None
        ex = int(ex)
        mag *= ent[0] ** ex
        for b, e in ent[1].items():
            dims[b] = dims.get(b, 0) + e * ex
    return mag, {b: e for b, e in dims.items() if e}


def _rate_dims(order):
    d = {"mol": 1 - order, "m": -3 * (1 - order), "s": -1}
    return {b: e for b, e in d.items() if e}


@st.composite
def as_reactions_unit_cases(draw):
    spec = draw(operand_specs("python"))
    return {"eq": spec, "given": draw(st.sampled_from(["kf", "kb"])),
            "units": {"mag": draw(st.sampled_from([1.0, 2.5, 1.31e11, 3e-7, 0.1, 7.0])),
                      "conc": draw(st.sampled_from(CONC_UNITS)), "time": draw(st.sampled_from(TIME_UNITS)),
                      # the equilibrium constant itself stays a plain number: the property quantifies over "exact
                      # rational or symbolic constants"; a unit-carrying K (for which as_reactions(units=) applies
                      # c0**(nb-nf) a second time on the pinned tree) is outside that quantifier and is not generated
                      "K_quantity": draw(st.sampled_from([False])),
                      "new_name": draw(st.sampled_from([None, "split"])),
                      "kwargs": draw(st.sampled_from(["none", "checks_empty", "data", "none"]))}}


def check_as_reactions_units(case, ctx):
    """as_reactions(kf=q | kb=q, units=default_units): kf/kb == K * (1 molar)**(nb - nf), both rates of the dimension
    conc**(1-order)/time; everything read back through SI_TABLE (no chempy unit conversion)."""
    from chempy.units import default_units as u
    Equilibrium = _Eq()
    spec, un = case["eq"], case["units"]
    nf, nb = sum(spec["reac"].values()), sum(spec["prod"].values())
    dn = nb - nf
    kval, kexact = _make_constant(spec["K"], 0)
    ctx.label("units:yes", "given:" + case["given"], "K:" + spec["K"][0], "conc:" + un["conc"], "time:" + un["time"],
              "kwargs:" + un["kwargs"], "delta_n:" + ("0" if dn == 0 else "nonzero"))
    ctx.nontrivial(dn != 0)
    if un["K_quantity"]:
        ctx.label("K_as_quantity:" + ("dimensionless" if dn == 0 else "molar**dn"))
        kval = float(kval) * (u.molar ** dn if dn else u.dimensionless)
    eq = Equilibrium(dict(spec["reac"]), dict(spec["prod"]), kval, name="eqname")
    order = nf if case["given"] == "kf" else nb
    rate = un["mag"] * _conc_unit(u, un["conc"]) ** (1 - order) / getattr(u, un["time"])
    kw = {case["given"]: rate, "units": u}
    if un["new_name"] is not None:
        kw["new_name"] = un["new_name"]
    if un["kwargs"] == "checks_empty":
        kw["checks"] = ()
    elif un["kwargs"] == "data":
        kw["data"] = {"origin": "c11"}
    res = sut(lambda: eq.as_reactions(**kw))
    if is_err(res):
        ctx.fail("as_reactions_raises", error=repr(res), delta_n=dn)
        return
    if not (isinstance(res, tuple) and len(res) == 2):
        ctx.fail("as_reactions_not_a_pair", got=short(repr(res), 200))
        return
    fw, bw = res
    if dict(fw.reac) != spec["reac"] or dict(fw.prod) != spec["prod"]:
        ctx.fail("forward_stoichiometry_differs", got=[dict(fw.reac), dict(fw.prod)], expected=[spec["reac"], spec["prod"]])
        return
    if dict(bw.reac) != spec["prod"] or dict(bw.prod) != spec["reac"]:
        ctx.fail("backward_stoichiometry_not_swapped", got=[dict(bw.reac), dict(bw.prod)],
                 expected=[spec["prod"], spec["reac"]])
        return
    si = []
    for name, r, o in (("kf", fw, nf), ("kb", bw, nb)):
        p = r.param
        if not hasattr(p, "dimensionality"):
            ctx.fail("rate_not_a_quantity", which=name, got=short(repr(p), 120))
            return
        v = _si_of(p)
        if v is None:
            ctx.fail("rate_unit_not_understood", which=name, got=str(p)[:120])
            return
        if v[1] != _rate_dims(o):
            ctx.fail("rate_dimension_inconsistent_with_order", which=name, got=str(p)[:120], dims=v[1],
                     expected=_rate_dims(o), delta_n=dn)
            return
        si.append(v[0])
    given_si = Fraction(un["mag"]) * _si_of(1.0 * _conc_unit(u, un["conc"]))[0] ** (1 - order) \
        / SI_TABLE[un["time"]][0]
    got_given = si[0] if case["given"] == "kf" else si[1]
    if not abs(got_given - given_si) <= Fraction(UNIT_RTOL) * abs(given_si):
        ctx.fail("given_rate_not_kept", got=float(got_given), expected=float(given_si))
        return
    if si[1] == 0:
        ctx.fail("backward_rate_zero", kf=str(fw.param)[:80], kb=str(bw.param)[:80])
        return
    expected = kexact * C0_SI ** dn          # K * (1 molar)**(nb-nf) in (mol/m3)**(nb-nf)
    if not abs(si[0] / si[1] - expected) <= Fraction(UNIT_RTOL) * abs(expected):
        ctx.fail("kf_over_kb_differs_from_K", kf=str(fw.param)[:80], kb=str(bw.param)[:80], delta_n=dn,
                 ratio_SI=float(si[0] / si[1]), expected_SI=float(expected))


def check_as_reactions(case, ctx):
    if case.get("units"):
        return check_as_reactions_units(case, ctx)
    Equilibrium = _Eq()
    spec = case["eq"]
    kval, kexact = _make_constant(spec["K"], 0)
    rval, rexact = _make_constant(case["rate"], 1)
    eq = Equilibrium(dict(spec["reac"]), dict(spec["prod"]), kval)
    ctx.label("given:" + case["given"], "K:" + spec["K"][0], "rate:" + case["rate"][0])
    dn = sum(spec["prod"].values()) - sum(spec["reac"].values())
    ctx.label("delta_n:" + ("0" if dn == 0 else "nonzero"))
    ctx.nontrivial(dn != 0 or bool(set(spec["reac"]) & set(spec["prod"])))
    res = sut(lambda: eq.as_reactions(**{case["given"]: rval}))
    if is_err(res):
        ctx.fail("as_reactions_raises", error=repr(res))
        return
    if not (isinstance(res, tuple) and len(res) == 2):
        ctx.fail("as_reactions_not_a_pair", got=short(repr(res), 200))
        return
    fw, bw = res
    if dict(fw.reac) != spec["reac"] or dict(fw.prod) != spec["prod"]:
        ctx.fail("forward_stoichiometry_differs", got=[dict(fw.reac), dict(fw.prod)], expected=[spec["reac"], spec["prod"]])
        return
    if dict(bw.reac) != spec["prod"] or dict(bw.prod) != spec["reac"]:
        ctx.fail("backward_stoichiometry_not_swapped", got=[dict(bw.reac), dict(bw.prod)],
                 expected=[spec["prod"], spec["reac"]])
        return
    kf, kb = _evaluate(fw.param), _evaluate(bw.param)
    if kf[0] == "bad" or kb[0] == "bad":
        ctx.fail("rate_not_a_number", kf=str(fw.param), kb=str(bw.param))
        return
    given = kf if case["given"] == "kf" else kb
    if not (given[1] == rexact if given[0] == "exact" else given[1] == float(rexact)):
        ctx.fail("given_rate_not_kept", got=str(given[1])[:80], expected=_fmt(rexact))
        return
    if kb[1] == 0:
        ctx.fail("backward_rate_zero", kf=str(fw.param), kb=str(bw.param))
        return
    if kf[0] == "exact" and kb[0] == "exact":
        if kf[1] / kb[1] != kexact:
            ctx.fail("kf_over_kb_differs_from_K", kf=_fmt(kf[1]), kb=_fmt(kb[1]), K=_fmt(kexact))
    else:
        try:
            ratio = float(kf[1]) / float(kb[1])
        except OverflowError:
            ratio = float("inf")
        if not abs(ratio - float(kexact)) <= RATE_RTOL * abs(float(kexact)):
            ctx.fail("kf_over_kb_differs_from_K", kf=str(kf[1])[:60], kb=str(kb[1])[:60], K=float(kexact))


SUBCHECKS = [
    SubCheck("history", machine=machine, quick=1200, thorough=40000, steps=(10, 16),
             rule="state machine: operands + n*e / e*n / -e / e1+e2 / e1-e2 over a pool; model = net stoichiometry "
                  "Counter + exponent vector over operand constants; every result compared",
             tolerances={"float_param_rel": FLOAT_RTOL}),
    SubCheck("eliminate", check_eliminate, strategy=eliminate_cases(), quick=1500, thorough=60000,
             rule="pairs sharing species A with net coefficients +-1..+-12; multipliers non-zero ints, m1 v1 + m2 v2 = 0, "
                  "m1*e1 + m2*e2 lists A on neither side, is netted, and has constant K1^m1 K2^m2"),
    SubCheck("as_reactions", check_as_reactions, strategy=st.one_of(as_reactions_cases(), as_reactions_unit_cases()),
             quick=1800, thorough=40000,
             rule="as_reactions(kf=x) / (kb=x): stoichiometries kept / swapped, given rate kept, kf/kb == K; with "
                  "units=default_units and the rate a quantity (mixed concentration/time units, K plain or a quantity): "
                  "both rates of dimension conc**(1-order)/time and kf/kb == K * (1 molar)**(nb-nf), read back through an "
                  "own SI table",
             tolerances={"float_ratio_rel": RATE_RTOL, "units_ratio_rel": UNIT_RTOL}),
]

# -*- coding: utf-8 -*-
"""C10 - kinetic results do not depend on the units rate constants or registries use.

Cases are JSON descriptions over vlib/gen_units.py (own SI table).  The reference rate of change of every
concentration is computed by hand in SI (mol/m3, s) with Fractions: rate_j = k_j * prod_i c_i**reac_ij,
dc_i/dt = sum_j (prod_ij - reac_ij) * rate_j."""
import math
import warnings
from fractions import Fraction

from hypothesis import strategies as st

from vlib import env  # noqa  (sys.path)
from vlib.harness import SubCheck, sut, is_err
from vlib import gen_units as G

PROPERTY = "C10"
LEVEL = "exploration"
RULE = ("Reactions of order 0..3 over species A..D; rate constants k = mag * cu**(1-order)/tu with cu in {M, mM, uM, "
        "mol/m3, mol/cm3, mol/dm3}, tu in {s, ms, min, h} (20 %: any unit product of the right dimension), wrong "
        "constants = order +-1, time missing or squared, extra mass/length, amount instead of concentration.  "
        "Registries choose length in {m, dm, cm}, time in {s, min, h, ms}, amount in {mol, mmol, umol, nmol}, mass in "
        "{kg, g} independently (10 %: times a scale factor); every system is built for the SI registry and two "
        "random ones; named constants reach the builder as parameters or as quantities through substitutions=.  "
        "Concentrations handed to f_cb are computed with the own table, results are converted back "
        "with it.  Non-trivial = some registry differs from SI in >= 2 base units and some constant is written in "
        "a unit whose factor to SI is not 1; distinct by case digest.")
ASSUMPTIONS = ["vlib/gen_units.py SI factors and dimension vectors",
               "pyodesys SymbolicSys / scipy integrate the dimensionless system correctly (solver failure = inconclusive)",
               "reference trajectories: scipy solve_ivp(LSODA, rtol 1e-11) on the hand-written SI right-hand side"]

SPECIES = ["A", "B", "C", "D"]
CONC = G.dim([["mol", 1], ["m", -3]])
TIME = G.dim([["s", 1]])
CONC_UNITS = [[["M", 1]], [["mM", 1]], [["uM", 1]], [["mol", 1], ["m", -3]], [["mol", 1], ["cm", -3]],
              [["mol", 1], ["dm", -3]]]
TIME_UNITS = ["s", "ms", "min", "h"]
REG_POOL = {"length": ["m", "dm", "cm"], "mass": ["kg", "g"], "time": ["s", "min", "h", "ms"], "current": ["A"],
            "temperature": ["K"], "amount": ["mol", "mmol", "umol_cp", "nmol"]}

# f_cb evaluates sum_j net_ij k_j prod c**nu in floats from constants/concentrations that were each converted once
# (relative error ~1e-15 each, <= 4 factors per term): 1e-9 relative to the sum of absolute terms is six orders of
# slack and far below the smallest possible unit mix-up (factor 10**3 in amount, 60 in time, 10 in length).
RATE_TOL = 1e-9
CONV_TOL = 1e-12


def _mul(units, e):
    return [[n, x * e] for n, x in units] if e else []


def order_of(r):
    return sum(r["reac"].values())


def k_dim(order):
    return tuple((1 - order) * c - t for c, t in zip(CONC, TIME))


def _mag_for(si_value, units):
    return float(si_value / G.factor(units))


# -- generators -----------------------------------------------------------------------------------------------

@st.composite
def k_units(draw, order, general_ok=True):
    """Unit product of dimension conc**(1-order)/time from the stated menu (or, sometimes, any compatible one)."""
    if general_ok and draw(st.integers(0, 9)) >= 8:
        return draw(G.compatible_units(k_dim(order), padding=False))
    cu = draw(st.sampled_from(CONC_UNITS))
    tu = draw(st.sampled_from(TIME_UNITS))
    return _mul(cu, 1 - order) + [[tu, -1]]


@st.composite
def stoich(draw, order, conserving=False):
    """(reac, prod) dicts; sum(reac) = order; the reaction has a net effect by construction."""
    reac = {}
    for _ in range(order):
        s = draw(st.sampled_from(SPECIES))
        reac[s] = reac.get(s, 0) + 1
    nmax = max(1, order) if conserving else 3
    p = draw(st.sampled_from([s for s in SPECIES if s not in reac] or SPECIES))
    prod = {p: draw(st.integers(1, min(2, nmax)))}
    if prod.get(p) == reac.get(p):
        prod[p] += 1
    if sum(prod.values()) < nmax and draw(st.booleans()):
        p2 = draw(st.sampled_from([s for s in SPECIES if s not in reac and s != p] or [p]))
        if p2 != p:
            prod[p2] = 1
    return reac, prod


@st.composite
def reactions(draw, conserving=False, general_ok=True):
    order = draw(st.integers(0, 3))
    order = {0: 1, 1: 2, 2: 0, 3: 3}[order]          # shrink towards first order
    reac, prod = draw(stoich(order, conserving))
    units = draw(k_units(order, general_ok))
    # physical size: effective first-order rate 0.05..3 1/s at 0.1 M
    r_eff = Fraction(draw(st.integers(1, 60)), 20)
    k_si = r_eff * Fraction(100) ** (1 - order)      # (0.1 M = 100 mol/m3) ** (1 - order) / s
    return {"reac": reac, "prod": prod, "k": {"mag": _mag_for(k_si, units), "units": units}}


@st.composite
def concentrations(draw):
    c0 = {}
    for s in SPECIES:
        units = draw(st.sampled_from(CONC_UNITS))
        c_si = Fraction(draw(st.integers(1, 50)), 100) * 1000        # 0.01 .. 0.5 M in mol/m3
        c0[s] = {"mag": _mag_for(c_si, units), "units": units}
    return c0


def _net(r, s):
    return r["prod"].get(s, 0) - r["reac"].get(s, 0)


def constant_rhs_species(rxns, numeric=None):
    """Species whose rate of change contains no concentration (only zero-order reactions touch them).  With
    numeric constants get_odesys hands pyodesys a bare float for them and pyodesys raises AttributeError
    ('free_symbols') - with or without units (probe), so such systems are outside what callers can build.
    numeric: indices of the reactions whose constant is a number in the expressions (default: all); a constant
    left as a parameter is a symbol."""
    out = []
    for s in species_of(rxns):
        touching = [j for j, r in enumerate(rxns) if _net(r, s) != 0]
        if touching and all(order_of(rxns[j]) == 0 and (numeric is None or j in numeric) for j in touching):
            out.append(s)
    return out


def zero_order_unit_source(rxns):
    """Some zero-order reaction produces a species with net coefficient exactly 1 that another reaction also
    changes: its rate term is then the bare parameter symbol (defect C10-D1, repaired in /repo a383086; kept as a detail
    field so that a regression is easy to recognise)."""
    for r in rxns:
        if order_of(r) == 0:
            for s in r["prod"]:
                if _net(r, s) == 1 and any(o is not r and _net(o, s) != 0 for o in rxns):
                    return True
    return False


def species_of(rxns):
    return sorted(set(s for r in rxns for s in list(r["reac"]) + list(r["prod"])))


@st.composite
def system_cases(draw, nreg=2, max_rxns=4, conserving=False, named=None, general_ok=True, min_rxns=1, subst=False):
    n = draw(st.integers(min_rxns, max_rxns))
    rxns = [draw(reactions(conserving, general_ok)) for _ in range(n)]
    # by construction: a zero-order source feeds a species that some reaction of order >= 1 also changes
    fed = sorted(set(s for r in rxns if order_of(r) >= 1 for s in SPECIES if _net(r, s) != 0))
    for r in rxns:
        if order_of(r) == 0 and any(s not in fed for s in r["prod"]):
            if fed:
                r["prod"] = {draw(st.sampled_from(fed)): 1}
            else:
                r["reac"] = {"A": 1}          # no reaction of order >= 1 at all: make this one first order in A
                r["prod"] = {"B": 1}
                units = draw(k_units(1, general_ok))
                r["k"] = {"mag": _mag_for(Fraction(1, 2), units), "units": units}
                fed = ["A", "B"]
    # ReactionSystem refuses two reactions with identical stoichiometry: keep the first of each
    seen, uniq = set(), []
    for r in rxns:
        key = (tuple(sorted(r["reac"].items())), tuple(sorted(r["prod"].items())))
        if key not in seen:
            seen.add(key)
            uniq.append(r)
    rxns = uniq
    regs = [dict(G.SI_REGISTRY)] + [draw(G.registries(choices=REG_POOL)) for _ in range(nreg)]
    case = {"rxns": rxns, "c0": draw(concentrations()), "regs": regs,
            "named": draw(st.booleans()) if named is None else named}
    if subst:
        # named constants handed over as quantities through get_odesys(substitutions=...) instead of as parameters
        mode = draw(st.sampled_from(["none", "all", "some", "all", "some"]))
        n = len(rxns)
        mask = {"none": 0, "all": 2 ** n - 1}.get(mode)
        if mask is None:
            mask = draw(st.integers(1, 2 ** n - 1))
        case["subst"] = [j for j in range(n) if (mask >> j) & 1]
        # "str": Reaction(..., 'kj') (unique key without a value); "uk": MassAction([k], unique_keys=('kj',))
        case["kform"] = draw(st.sampled_from(["str", "uk"]))
        free = n - len(case["subst"])
        # include_params=True needs a value for every constant: all substituted, or carried by the expression
        case["include_params"] = bool((free == 0 or case["kform"] == "uk") and draw(st.booleans()))
    return case


# -- reference model ---------------------------------------------------------------------------------------------

def hand_rates(case):
    """{species: (dc/dt, sum of |terms|)} in mol/(m3 s), exact."""
    c = {s: G.ref_si(q) for s, q in case["c0"].items()}
    out = {s: [Fraction(0), Fraction(0)] for s in SPECIES}
    for r in case["rxns"]:
        rate = G.ref_si(r["k"])
        for s, nu in r["reac"].items():
            rate *= c[s] ** nu
        for s in SPECIES:
            net = r["prod"].get(s, 0) - r["reac"].get(s, 0)
            out[s][0] += net * rate
            out[s][1] += abs(net) * rate
    return {s: tuple(v) for s, v in out.items()}


def build_rsys(case, named):
    """Only participating species: get_odesys does not support species no reaction touches (pyodesys: 'Callback
    returned unexpected number of expressions', with or without units)."""
    from chempy import Reaction, ReactionSystem
    rxns = []
    for j, r in enumerate(case["rxns"]):
        if named and case.get("kform") == "uk":
            from chempy.kinetics.rates import MassAction
            param = MassAction([G.pq_quantity(r["k"])], unique_keys=("k%d" % j,))
        else:
            param = ("k%d" % j) if named else G.pq_quantity(r["k"])
        rxns.append(Reaction(dict(r["reac"]), dict(r["prod"]), param))
    return ReactionSystem(rxns, species_of(case["rxns"]))


def _labels(case, ctx):
    nsi = max(G.registry_differs_from_si(r) for r in case["regs"])
    kpre = any(G.factor(r["k"]["units"]) != 1 for r in case["rxns"])
    ctx.label("nrxn=%d" % len(case["rxns"]), "reg_nonSI=%d" % min(nsi, 4), "named" if case.get("named") else "quantities")
    for r in case["rxns"]:
        ctx.label("order=%d" % order_of(r))
    if any(any(reg[d][1] != 1.0 for d in G.DIMS) for reg in case["regs"]):
        ctx.label("reg_scaled")
    if kpre:
        ctx.label("k_nonSI_unit")
    ctx.nontrivial(nsi >= 2 and kpre)


def _unc(case):
    """Slack owed to constants written in eV-based units (CODATA revision of `quantities`, see gen_units)."""
    return sum(G.rel_unc(r["k"]["units"]) for r in case["rxns"])


def _close(got, ref, rel, scale):
    if not math.isfinite(float(got)):
        return False
    return abs(Fraction(float(got)) - ref) <= Fraction(rel) * max(abs(ref), abs(scale))


# ---------------------------------------------------------------------------------------------------------------
# 1. acceptance of unit-carrying constants
# ---------------------------------------------------------------------------------------------------------------

WRONG = ["order_plus", "order_minus", "no_time", "time_squared", "extra_mass", "extra_length", "amount_only",
         "inverse"]


@st.composite
def accept_cases(draw):
    order = draw(st.integers(0, 3))
    reac, prod = draw(stoich(order))
    case = {"reac": reac, "prod": prod, "inact_reac": {}}
    if reac and draw(st.integers(0, 9)) >= 8:
        case["inact_reac"] = {draw(st.sampled_from(sorted(reac))): draw(st.integers(1, 2))}
    cls = draw(st.sampled_from(["right", "right"] + WRONG))
    cu = draw(st.sampled_from(CONC_UNITS))
    tu = draw(st.sampled_from(TIME_UNITS))
    right = draw(k_units(order))
    if cls == "right":
        units = right
    elif cls == "order_plus":
        units = _mul(cu, -order) + [[tu, -1]]
    elif cls == "order_minus":
        units = _mul(cu, 2 - order) + [[tu, -1]]
    elif cls == "no_time":
        units = _mul(cu, 1 - order) or [["K", 1], ["mK", -1]]
    elif cls == "time_squared":
        units = _mul(cu, 1 - order) + [[tu, -2]]
    elif cls == "extra_mass":
        units = right + [[draw(st.sampled_from(["kg", "g"])), draw(st.sampled_from([1, -1]))]]
    elif cls == "extra_length":
        units = right + [[draw(st.sampled_from(["m", "dm", "cm"])), draw(st.sampled_from([1, -1]))]]
    elif cls == "amount_only":
        units = _mul([["mol", 1]], 1 - order) + [[tu, -1]] if order != 1 else right + [["mol", 1]]
    else:
        units = [[n, -e] for n, e in right]
    case["k"] = {"mag": draw(G.magnitudes(signed=False, decades=4)), "units": units}
    case["cls"] = cls
    return case


def check_accept(case, ctx):
    from chempy import Reaction
    order = sum(case["reac"].values())
    k = case["k"]
    ok = G.dim(k["units"]) == k_dim(order)
    ctx.label("order=%d" % order, "class=" + case["cls"], "expected=%s" % ("accept" if ok else "reject"))
    if case["inact_reac"]:
        ctx.label("inactive_reactant")
    if any(G.UNITS[n].kind == "derived" and n not in ("M", "mM", "uM") for n, _ in k["units"]):
        ctx.label("general_units")
    ctx.nontrivial(G.has_prefix(k["units"]) and order != 1)
    got = sut(Reaction, dict(case["reac"]), dict(case["prod"]), G.pq_quantity(k),
              inact_reac=dict(case["inact_reac"]) or None)
    if ok:
        if is_err(got):
            ctx.fail("right_dimension_rejected", error=repr(got), order=order)
            return
        # the check method itself, without throwing
        if got.check_consistent_units() is not True:
            ctx.fail("check_consistent_units_false_on_accepted", order=order)
    else:
        if not is_err(got):
            ctx.fail("wrong_dimension_accepted", order=order)
            return
        r2 = sut(Reaction, dict(case["reac"]), dict(case["prod"]), G.pq_quantity(k),
                 inact_reac=dict(case["inact_reac"]) or None, checks=())
        if not is_err(r2) and r2.check_consistent_units() is not False:
            ctx.fail("check_consistent_units_true_on_wrong_dimension", order=order)


@st.composite
def equilibrium_cases(draw):
    nr, npr = draw(st.integers(1, 3)), draw(st.integers(1, 3))
    reac, prod = {}, {}
    for _ in range(nr):
        s = draw(st.sampled_from(SPECIES[:2]))
        reac[s] = reac.get(s, 0) + 1
    for _ in range(npr):
        s = draw(st.sampled_from(SPECIES[2:]))
        prod[s] = prod.get(s, 0) + 1
    expo = npr - nr
    cls = draw(st.sampled_from(["wrong_exponent", "wrong_exponent", "extra_dimension", "per_time", "right_molar", "right_other"]))
    cu = draw(st.sampled_from(CONC_UNITS))
    if cls == "wrong_exponent":
        e = expo + draw(st.sampled_from([1, -1, 2, -2]))
        # written in molar powers half of the time: the form chempy compares against
        units = _mul([["M", 1]] if draw(st.booleans()) else cu, e) or [["K", 1], ["mK", -1]]
    elif cls == "extra_dimension":
        d = draw(st.sampled_from(["mass", "time", "length", "temperature", "amount"]))
        units = _mul([["M", 1]], expo) + [[draw(st.sampled_from(G.BASE_UNITS[d])), draw(st.sampled_from([1, -1]))]]
    elif cls == "per_time":
        units = _mul([["M", 1]], expo) + [[draw(st.sampled_from(TIME_UNITS)), -1]]
    elif cls == "right_molar":
        units = _mul([["M", 1]], expo)
    else:
        units = _mul(cu, expo)
    return {"reac": reac, "prod": prod, "K": {"mag": draw(G.magnitudes(signed=False, decades=4)), "units": units},
            "cls": cls}


def check_equilibrium(case, ctx):
    from chempy import Equilibrium
    expo = sum(case["prod"].values()) - sum(case["reac"].values())
    K = case["K"]
    right = G.dim(K["units"]) == tuple(expo * c for c in CONC)
    ctx.label("class=" + case["cls"], "exponent=%d" % expo, "right_dimension" if right else "wrong_dimension")
    ctx.nontrivial(not right and G.has_prefix(K["units"]))
    units = [u for u in K["units"]]
    Kq = G.pq_quantity({"mag": K["mag"], "units": units}) if units else K["mag"]
    got = sut(Equilibrium, dict(case["reac"]), dict(case["prod"]), Kq)
    if right:
        # the statement is one-directional for equilibria: recorded, not judged
        ctx.label("observation:right_dimension_%s" % ("rejected" if is_err(got) else "accepted"))
        return
    if not is_err(got):
        ctx.fail("equilibrium_wrong_dimension_accepted", exponent=expo)
        return
    e2 = sut(Equilibrium, dict(case["reac"]), dict(case["prod"]), Kq, checks=())
    if not is_err(e2) and e2.check_consistent_units() is not False:
        ctx.fail("equilibrium_check_true_on_wrong_dimension", exponent=expo)


# ---------------------------------------------------------------------------------------------------------------
# 2. physical rates from get_odesys are registry and unit independent and equal the hand computation
# ---------------------------------------------------------------------------------------------------------------

def _get_odesys(rsys, REG, **kw):
    from chempy.kinetics.ode import get_odesys
    with warnings.catch_warnings():
        warnings.simplefilter("ignore")
        return get_odesys(rsys, unit_registry=REG, **kw)


def check_rates(case, ctx):
    import numpy as np
    _labels(case, ctx)
    sp = species_of(case["rxns"])
    if not case["named"] and constant_rhs_species(case["rxns"]):
        ctx.label("outside_domain:constant_rhs")
        return
    named = case["named"]
    ref = hand_rates(case)
    c_si = {s: G.ref_si(q) for s, q in case["c0"].items()}
    rsys = build_rsys(case, named)
    c0_q = {s: G.pq_quantity(case["c0"][s]) for s in sp}
    subst = list(case.get("subst") or []) if named else []
    include_params = bool(case.get("include_params")) if named else True
    p_q = {"k%d" % j: G.pq_quantity(r["k"]) for j, r in enumerate(case["rxns"])
           if j not in subst and not include_params} if named else {}
    if named and constant_rhs_species(case["rxns"], range(len(case["rxns"])) if include_params else subst):
        ctx.label("outside_domain:constant_rhs")
        return
    if named and "subst" in case:
        ctx.label("subst=%s" % ("none" if not subst else "all" if len(subst) == len(case["rxns"]) else "some"),
                  "kform=" + case["kform"], "include_params=%s" % include_params)
        if any(G.registry_factor(reg, k_dim(order_of(case["rxns"][j]))) != 1 for j in subst for reg in case["regs"]):
            ctx.label("subst_constant_unit_differs_in_registry")
    t_end = {"mag": 90.0, "units": [["s", 1]]}
    for ri, reg in enumerate(case["regs"]):
        REG = G.pq_registry(reg)
        okw = {}
        if subst:
            # fresh quantities per registry: the values are the caller's, in the caller's units
            okw["substitutions"] = {"k%d" % j: G.pq_quantity(case["rxns"][j]["k"]) for j in subst}
        odesys, extra = _get_odesys(rsys, REG, include_params=include_params, **okw)
        if tuple(odesys.names) != tuple(sp):
            ctx.fail("species_order", got=list(odesys.names))
            return
        f_conc, f_time = G.registry_factor(reg, CONC), G.registry_factor(reg, TIME)
        y = np.array([float(c_si[s] / f_conc) for s in sp])
        # parameter units reported alongside
        p = []
        if named:
            names = list(odesys.param_names)
            if sorted(names) != sorted(p_q):
                ctx.fail("param_names", got=names, registry=ri)
                return
            p_units = extra["p_units"]
            if len(p_units) != len(names):
                ctx.fail("p_units_length", got=len(p_units), registry=ri)
                return
            for nm, pu in zip(names, p_units):
                j = int(nm[1:])
                dv = k_dim(order_of(case["rxns"][j]))
                si, gdv = G.observe(pu)
                want = G.registry_factor(reg, dv)
                if tuple(gdv) != tuple(dv):
                    ctx.fail("p_units_dimension", param=nm, got=list(gdv), expected=list(dv), registry=ri)
                    return
                if not _close(si, want, CONV_TOL, 0):
                    ctx.fail("p_units_factor", param=nm, got=si, expected=float(want), registry=ri)
                    return
                p.append(float(G.ref_si(case["rxns"][j]["k"]) / want))
        else:
            if len(extra["p_units"]) != 0:
                ctx.fail("p_units_not_empty", got=repr(extra["p_units"])[:100], registry=ri)
                return
        # (a) the dimensionless right-hand side, fed with concentrations from the own table
        f = np.asarray(odesys.f_cb(0.0, y, np.array(p)), dtype=float)
        for i, s in enumerate(sp):
            want, scale = ref[s]
            phys = Fraction(float(f[i])) * f_conc / f_time if math.isfinite(f[i]) else None
            if phys is None or abs(phys - want) > Fraction(RATE_TOL + _unc(case)) * scale:
                ctx.fail("physical_rate", species=s, registry=ri, got=float(f[i]) * float(f_conc / f_time),
                         expected=float(want), named=named)
                return
        # (b) the pre-processing callbacks: quantities in arbitrary units -> registry numbers
        arrs = sut(odesys.to_arrays, G.pq_quantity(t_end), c0_q, p_q if p_q else [])
        if is_err(arrs):
            ctx.fail("to_arrays_raised", error=repr(arrs), registry=ri)
            return
        xa, ya, pa = arrs
        xa = np.asarray(xa, dtype=float).ravel()
        if not _close(xa[-1], G.ref_si(t_end) / f_time, CONV_TOL, 0):
            ctx.fail("to_arrays_time", got=float(xa[-1]), expected=float(G.ref_si(t_end) / f_time), registry=ri)
            return
        ya = np.asarray(ya, dtype=float).ravel()
        for i, s in enumerate(sp):
            if not _close(ya[i], c_si[s] / f_conc, CONV_TOL, 0):
                ctx.fail("to_arrays_conc", species=s, got=float(ya[i]), expected=float(c_si[s] / f_conc), registry=ri)
                return
        if named:
            pa = np.asarray(pa, dtype=float).ravel()
            for i, v in enumerate(p):
                if not _close(pa[i], Fraction(v), 4 * CONV_TOL + _unc(case), 0):
                    ctx.fail("to_arrays_param", param=names[i], got=float(pa[i]), expected=v, registry=ri)
                    return
            for j in subst:
                if not _same_quantity(okw["substitutions"]["k%d" % j], case["rxns"][j]["k"]):
                    ctx.fail("argument_modified", param="k%d" % j, registry=ri)
                    return
            f2 = np.asarray(odesys.f_cb(float(xa[0]), ya, pa), dtype=float)
            for i, s in enumerate(sp):
                want, scale = ref[s]
                phys = Fraction(float(f2[i])) * f_conc / f_time if math.isfinite(f2[i]) else None
                if phys is None or abs(phys - want) > Fraction(RATE_TOL + _unc(case)) * scale:
                    ctx.fail("physical_rate_after_to_arrays", species=s, registry=ri, expected=float(want))
                    return


# ---------------------------------------------------------------------------------------------------------------
# 3. integrate() with quantities in and out; the alternative builder
# ---------------------------------------------------------------------------------------------------------------

OUT_CONC = [None, [["M", 1]], [["mM", 1]], [["mol", 1], ["cm", -3]], [["umol_cp", 1], ["dm", -3]]]
OUT_TIME = [None, "s", "h", "ms", "min"]


@st.composite
def integrate_cases(draw):
    case = draw(system_cases(nreg=1, max_rxns=3, conserving=True, general_ok=False))
    tu = draw(st.sampled_from(TIME_UNITS))
    t_si = Fraction(draw(st.integers(1, 20)), 10)            # 0.1 .. 2 s
    case["t_end"] = {"mag": _mag_for(t_si, [[tu, 1]]), "units": [[tu, 1]]}
    case["out_conc"] = draw(st.sampled_from(OUT_CONC))
    case["out_time"] = draw(st.sampled_from(OUT_TIME))
    case["path"] = draw(st.sampled_from(["get_odesys", "create_odesys"]))
    if case["path"] == "create_odesys":
        case["named"] = True
    return case


def reference_trajectory(case, times_si):
    """Concentrations (mol/m3) at the given times (s) from the hand-written right-hand side; None if the
    reference integration fails."""
    import numpy as np
    from scipy.integrate import solve_ivp
    sp = species_of(case["rxns"])
    ks = [float(G.ref_si(r["k"])) for r in case["rxns"]]
    idx = {s: i for i, s in enumerate(sp)}

    def rhs(t, c):
        out = np.zeros(len(sp))
        for k, r in zip(ks, case["rxns"]):
            rate = k
            for s, nu in r["reac"].items():
                rate *= c[idx[s]] ** nu
            for s in sp:
                out[idx[s]] += (r["prod"].get(s, 0) - r["reac"].get(s, 0)) * rate
        return out
    c0 = np.array([float(G.ref_si(case["c0"][s])) for s in sp])
    sol = solve_ivp(rhs, (0.0, times_si[-1]), c0, method="LSODA", t_eval=times_si, rtol=1e-11, atol=1e-12 * max(c0))
    if not sol.success or not np.all(np.isfinite(sol.y)):
        return None
    return sol.y.T


def check_integrate(case, ctx):
    import numpy as np
    from collections import defaultdict
    _labels(case, ctx)
    sp = species_of(case["rxns"])
    if not case["named"] and constant_rhs_species(case["rxns"]):
        ctx.label("outside_domain:constant_rhs")
        return
    named = case["named"]
    ctx.label("path=" + case["path"], "out_conc=%s" % bool(case["out_conc"]), "out_time=%s" % bool(case["out_time"]))
    t_si = G.ref_si(case["t_end"])
    times = [0.0, float(t_si) / 2, float(t_si)]
    ref = reference_trajectory(case, times)
    if ref is None:
        ctx.skip("reference_integration_failed")
        return
    cmax = float(np.max(np.abs(ref)))
    rsys = build_rsys(case, named)
    tu = case["t_end"]["units"]
    zsrc = zero_order_unit_source(case["rxns"])
    for ri, reg in enumerate(case["regs"]):
        # fresh objects for every call (chempy must not, but could, modify its arguments)
        c0_q = {s: G.pq_quantity(case["c0"][s]) for s in sp}
        p_q = {"k%d" % j: G.pq_quantity(r["k"]) for j, r in enumerate(case["rxns"])} if named else {}
        t_q = np.array([0.0, case["t_end"]["mag"] / 2, case["t_end"]["mag"]]) * G.pq_unit(tu)
        REG = G.pq_registry(reg)
        f_conc = G.registry_factor(reg, CONC)
        # absolute tolerance is given in registry units: scale it to the size of the numbers the solver sees
        atol = 1e-12 * cmax / float(f_conc)
        kw = dict(integrator="scipy", atol=atol, rtol=1e-10, nsteps=20000)
        with warnings.catch_warnings():
            warnings.simplefilter("ignore")
            if case["path"] == "get_odesys":
                okw = {}
                if case["out_conc"]:
                    okw["output_conc_unit"] = G.pq_unit(case["out_conc"])
                if case["out_time"]:
                    okw["output_time_unit"] = G.pq_single(case["out_time"])
                odesys, extra = _get_odesys(rsys, REG, include_params=not named, **okw)
                res = sut(odesys.integrate, t_q, c0_q, p_q if named else [], **kw)
            else:
                from chempy.kinetics.ode import _create_odesys
                odesys, extra = _create_odesys(rsys, unit_registry=REG)
                res = sut(extra["unit_aware_solve"], t_q, defaultdict(lambda: 0 * G.pq_single("M"), c0_q), p_q, **kw)
                if not is_err(res):
                    res, dedim = res
                    for nm, pu in dedim["param_units"].items():
                        dv = k_dim(order_of(case["rxns"][int(nm[1:])]))
                        si, gdv = G.observe(pu)
                        if tuple(gdv) != tuple(dv) or not _close(si, G.registry_factor(reg, dv), CONV_TOL, 0):
                            ctx.fail("param_units_of_alternative_builder", param=nm, registry=ri, got=repr(pu)[:80])
                            return
        if is_err(res):
            if "units" in res.msg.lower() or res.type in ("ValueError", "TypeError", "KeyError", "AttributeError"):
                ctx.fail("integrate_with_quantities_raised", error=repr(res), registry=ri, path=case["path"])
                return
            ctx.skip("integration_raised:" + res.type)
            return
        if not res.info.get("success", False):
            ctx.skip("solver_reported_failure")
            return
        xs, xdv = G.observe(res.xout)
        ys, ydv = G.observe(res.yout)
        if tuple(xdv) != tuple(TIME) or tuple(ydv) != tuple(CONC):
            ctx.fail("output_dimension", x=list(xdv), y=list(ydv), registry=ri, path=case["path"])
            return
        xs, ys = np.asarray(xs, dtype=float), np.asarray(ys, dtype=float)
        if xs.shape != (3,) or ys.shape != (3, len(sp)):
            ctx.fail("output_shape", x=list(xs.shape), y=list(ys.shape))
            return
        if np.max(np.abs(xs - np.array(times))) > 1e-9 * times[-1]:
            ctx.fail("output_times", got=xs.tolist(), expected=times, registry=ri, path=case["path"])
            return
        # solver tolerances rtol 1e-10 on both sides; 1e-5 of the largest concentration leaves five orders for
        # error accumulation and is three orders below the smallest unit mix-up
        err = float(np.max(np.abs(ys - ref)))
        if not math.isfinite(err) or err > 1e-5 * cmax:
            ctx.fail("trajectory", registry=ri, path=case["path"], max_abs_error=err, cmax=cmax,
                     got_final=ys[-1].tolist(), expected_final=ref[-1].tolist(), zero_order_unit_source=zsrc)
            return
        # the caller's quantities are still what was passed in
        for j, r in enumerate(case["rxns"]):
            if named and not _same_quantity(p_q["k%d" % j], r["k"]):
                ctx.fail("argument_modified", param="k%d" % j, path=case["path"], got=repr(p_q["k%d" % j])[:80],
                         zero_order_unit_source=zsrc)
                return
        if case["path"] == "get_odesys":
            # the declared output units are really the units of the result
            if case["out_conc"] and not _unit_is(res.yout, case["out_conc"]):
                ctx.fail("output_conc_unit_not_applied", got=repr(res.yout.units)[:80], registry=ri)
                return
            if case["out_time"] and not _unit_is(res.xout, [[case["out_time"], 1]]):
                ctx.fail("output_time_unit_not_applied", got=repr(res.xout.units)[:80], registry=ri)
                return


def _same_quantity(obj, qdesc):
    si, dv = G.observe(obj)
    ref = G.ref_si(qdesc)
    return tuple(dv) == G.dim(qdesc["units"]) and abs(Fraction(float(si)) - ref) <= Fraction(CONV_TOL) * abs(ref)
    # (observe and ref_si use the same table factor, so no CODATA slack is needed here)


def _unit_is(q, units):
    """The bare magnitudes of q are its values in `units` (own table)."""
    import numpy as np
    si, _ = G.observe(q)
    si = np.asarray(si, dtype=float).ravel()
    mag = np.asarray(q.magnitude, dtype=float).ravel()
    f = float(G.factor(units))
    return bool(np.all(np.abs(mag * f - si) <= 1e-9 * np.maximum(np.abs(si), 1e-300)))


# ---------------------------------------------------------------------------------------------------------------
# 4. validate() of the alternative builder
# ---------------------------------------------------------------------------------------------------------------

@st.composite
def validate_cases(draw):
    case = draw(system_cases(nreg=1, min_rxns=2, max_rxns=4, named=True))
    case["break"] = None
    if draw(st.integers(0, 9)) >= 6:
        j = draw(st.integers(0, len(case["rxns"]) - 1))
        d = draw(st.sampled_from(["time", "mass", "length", "amount"]))
        case["break"] = {"rxn": j, "extra": [draw(st.sampled_from(REG_POOL[d])), draw(st.sampled_from([1, -1]))]}
    return case


def check_validate(case, ctx):
    from chempy.kinetics.ode import _create_odesys
    _labels(case, ctx)
    sp = species_of(case["rxns"])
    ctx.nontrivial(any(G.factor(r["k"]["units"]) != 1 for r in case["rxns"]))
    ref = hand_rates(case)
    rsys = build_rsys(case, True)
    with warnings.catch_warnings():
        warnings.simplefilter("ignore")
        odesys, extra = _create_odesys(rsys, unit_registry=G.pq_registry(case["regs"][-1]))
    cond = {s: G.pq_quantity(case["c0"][s]) for s in sp}
    brk = case["break"]
    for j, r in enumerate(case["rxns"]):
        k = dict(r["k"])
        if brk and brk["rxn"] == j:
            k["units"] = list(k["units"]) + [brk["extra"]]
        cond["k%d" % j] = G.pq_quantity(k)
    with warnings.catch_warnings():
        warnings.simplefilter("ignore")
        got = sut(extra["validate"], cond)
    if brk:
        ctx.label("inconsistent_unit")
        if not is_err(got):
            ctx.fail("validate_accepted_inconsistent_unit", rxn=brk["rxn"])
        return
    if is_err(got):
        ctx.fail("validate_raised_on_consistent_units", error=repr(got))
        return
    rates = got["rates"]
    for s in sp:
        want, scale = ref[s]
        if s not in rates:
            ctx.fail("validate_missing_species", species=s)
            return
        si, dv = G.observe(rates[s])
        if tuple(dv) != tuple(c - t for c, t in zip(CONC, TIME)):
            ctx.fail("validate_rate_dimension", species=s, got=list(dv))
            return
        if abs(Fraction(float(si)) - want) > Fraction(RATE_TOL + _unc(case)) * scale:
            ctx.fail("validate_rate", species=s, got=float(si), expected=float(want),
                     zero_order_unit_source=zero_order_unit_source(case["rxns"]))
            return
    for j, r in enumerate(case["rxns"]):
        if not _same_quantity(cond["k%d" % j], r["k"]):
            ctx.fail("argument_modified", param="k%d" % j, got=repr(cond["k%d" % j])[:80],
                     zero_order_unit_source=zero_order_unit_source(case["rxns"]))
            return


SUBCHECKS = [
    SubCheck("accept", check_accept, strategy=accept_cases(), quick=1200, thorough=100000,
             rule="Reaction(order 0..3, k): constructs iff dim(k) = conc**(1-order)/time by the own table"),
    SubCheck("equilibrium", check_equilibrium, strategy=equilibrium_cases(), quick=600, thorough=50000,
             rule="Equilibrium with a constant of wrong dimension (exponent off, extra dimension, per time) must raise; "
                  "right-dimension constants are only recorded"),
    SubCheck("rates", check_rates, strategy=system_cases(named=False), quick=200, thorough=2500,
             rule="1-4 reactions with unit-carrying constants; SI + 2 random registries; f_cb and to_arrays",
             tolerances={"rate_rel_of_sum_abs_terms": RATE_TOL, "conversion_rel": CONV_TOL}),
    SubCheck("rates_named", check_rates, strategy=system_cases(named=True, subst=True), quick=300, thorough=3500,
             rule="same with named constants (Reaction(..., 'kj') or MassAction([k], unique_keys=('kj',))): none / some / "
                  "all of them handed over as quantities through substitutions=, the rest left as parameters "
                  "(include_params=False: extra['p_units'], parameters fed as quantities) or carried by the expression",
             tolerances={"rate_rel_of_sum_abs_terms": RATE_TOL, "conversion_rel": CONV_TOL}),
    SubCheck("integrate", check_integrate, strategy=integrate_cases(), quick=100, thorough=2000,
             rule="molecule-number non-increasing systems, t_end 0.1-2 s; integrate() / unit_aware_solve with "
                  "quantities; output units; SI + 1 random registry; reference = scipy LSODA on the hand-written rhs",
             tolerances={"trajectory_rel_of_max_conc": 1e-5}),
    SubCheck("validate", check_validate, strategy=validate_cases(), quick=100, thorough=2000,
             rule="_create_odesys(...)['validate']: rates equal the hand computation; one constant with an extra "
                  "dimension must raise", tolerances={"rate_rel_of_sum_abs_terms": RATE_TOL}),
]

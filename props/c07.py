# -*- coding: utf-8 -*-
"""C07 - equilibrium residual formulations vanish exactly at, and only at, true equilibrium states."""
from fractions import Fraction as F

from vlib import env  # noqa  (sys.path)
from vlib.harness import SubCheck, sut, is_err, short
from vlib import gen_c07 as G

PROPERTY = "C07"
LEVEL = "exploration"
RULE = ("1-4 homogeneous equilibria built as small integer combinations (multipliers in -2..2) of 1-3 reactions of a "
        "pool of 17 real acid/base/complexation equilibria over 29 formula-defined species and 6 equilibria over 10 "
        "species with non-integer formula counts (CH2.5O, C0.25H0.5, N0.75H2.25, S0.125O0.375, ...: dyadic decimals, "
        "exact as Fractions in the oracle, float64 in chempy; some share H+, NH3, Cu+2 with the integer pool) "
        "(+ 0-2 spectator ions, "
        "species order permuted), hence possibly linearly dependent; positive rational equilibrium state "
        "c_eq = m*10^-d (m 1..99, d 0..6), K_i := Q_i(c_eq) exactly, initial state = c_eq moved along every reaction "
        "by a rational fraction of the largest admissible extent (so totals agree by construction; fractions +-1 put a "
        "zero into the initial state).  Every case is evaluated in the 12 configurations {Lin, Log, Square} x "
        "rref_equil x rref_preserv with backend=sympy (+ Lin with new_eq_params=False) at the true state and at four "
        "violating states (one K scaled, one initial amount shifted, one concentration scaled, state moved along one "
        "reaction; with rref_equil=True only 2 resp. 1 of the four, see _RREF_EQUIL_STATES).  Systems with a "
        "non-integer formula count are in addition evaluated the way the solvers do it - f(symbols), then exact "
        "substitution - for rref_preserv=True.  EqSystem.equilibrium_quotients / Equilibrium.Q are called with exact "
        "Fractions (one state), a Python list and a 1-D array of floats, and a 2-D array of 2-4 positive states "
        "(rows = states: c_eq, one concentration scaled, moved along a reaction, values reversed over the species); "
        "dicts are not accepted by these functions (TypeError on the unchanged tree) and are not part of the domain.  "
        "Non-trivial = at least "
        "two equilibria sharing a species and a charged species takes part; distinct by case digest.")
ASSUMPTIONS = ["vlib/gen_c07.py COMP table (hand-checked compositions of 29+ species) and the balanced pool reactions "
               "(asserted balanced against that table at import)",
               "sympy Rational arithmetic and sympy.N(expr, 50) (mpmath) evaluate the residual expressions returned by "
               "chempy faithfully; sympy's exact rref inside pyneqsys.symbolic.linear_rref is part of the judged path",
               "with rref_equil=True the expected number of equilibrium rows is rank(stoichiometry) (= number of "
               "reactions when they are independent)"]

ZERO_TOL = 1e-30      # |residual| <= ZERO_TOL*scale at 50 digits counts as zero (identity; rounding is ~1e-48*scale)
NONZERO_TOL = 1e-20   # a violated state must give |residual| > NONZERO_TOL somewhere (perturbations are >= 1e-6 relative)
# Species with a non-integer formula count carry float64 composition entries inside chempy, so the conservation
# residuals sum_s B_ks (c_s - init_s) of such a system are formed in 53-bit arithmetic (sympy Float): a residual that
# contains a Float is zero if <= FLOAT_TOL*fscale, fscale = 1 + sum_k sum_s |B_ks| (|c_s| + |init_s|) (sum of the
# absolute terms).  <= 2 ns products and additions per row: <= ~30 ulp = 3e-15 relative to the absolute terms, times
# the row-reduction coefficients (ratios of formula counts, <= ~100); measured over 470 systems: <= 1.4e-16*fscale
# with and without row reduction.  The same threshold decides "non-zero" for such residuals (noise must not count as
# a detected violation); a violation whose exact effect on the totals is below FLOAT_RESOLVE*fscale is not judged.
FLOAT_TOL = 1e-12
FLOAT_RESOLVE = 1e-9
QUOT_TOL = 1e-12      # |ln Q_float - ln Q_exact| <= QUOT_TOL*(1 + sum|nu ln c|): float(c) 2**-53 each, pow <= 1 ulp per
#                       unit of |nu| (<= 16), <= 14 factors: <= ~3e-14 in total

NUMSYS = ["Lin", "Log", "Square"]
# sympy's symbolic rref of (stoichiometry | ln K) inside chempy dominates the cost (25-50 ms per call), so with
# rref_equil=True only the states that speak about the rows it produces are evaluated: the true state always, the two
# mass-action violations without rref_preserv, the mixed violation with it.  rref_equil=False: all five states.
_RREF_EQUIL_STATES = {False: ("true_state", "K_scaled", "moved_along_reaction"), True: ("true_state", "conc_scaled")}


def _classes():
    from chempy._eqsys import NumSysLin, NumSysLog, NumSysSquare
    return {"Lin": NumSysLin, "Log": NumSysLog, "Square": NumSysSquare}


def _R(x):
    import sympy as sp
    x = F(x)
    return sp.Rational(x.numerator, x.denominator)


def _yvec(kind, conc, species):
    import sympy as sp
    if kind == "Lin":
        return [_R(conc[s]) for s in species]
    if kind == "Log":
        return [sp.log(_R(conc[s])) for s in species]
    return [sp.sqrt(_R(conc[s])) for s in species]


def _values(fl):
    """Residual expressions -> list of (kind, value): kind True = sympy returned a Rational (value: Fraction), False =
    symbolic number evaluated to 50 digits, "float" = the expression contains a 53-bit Float (non-integer formula
    count inside chempy), evaluated as is."""
    import sympy as sp
    out = []
    for e in fl:
        e = sp.sympify(e)
        if e.is_Rational:
            out.append((True, F(int(e.p), int(e.q))))
        else:
            kind = "float" if e.atoms(sp.Float) else False
            v = sp.N(e, 50)
            if not v.is_number or v.is_real is False or v.has(sp.nan, sp.zoo, sp.oo):
                out.append((kind, None))
            else:
                out.append((kind, abs(float(v))))
    return out


def _all_zero(vals, scale, fscale=None):
    """fscale: None for systems over integer formulas (a Float in a residual is then held to ZERO_TOL like any other
    inexact value), else the sum of absolute terms of the conservation rows (see FLOAT_TOL)."""
    for exact, v in vals:
        if v is None:
            return False
        if exact is True:
            if v != 0:
                return False
        elif exact == "float" and fscale is not None:
            if not v <= FLOAT_TOL * fscale:
                return False
        elif not v <= ZERO_TOL * scale:
            return False
    return True


def _some_nonzero(vals, fscale=None):
    for exact, v in vals:
        if v is None:
            return True         # not even a number: certainly not "all residuals vanish"
        if exact is True:
            if v != 0:
                return True
        elif exact == "float" and fscale is not None:
            if v > FLOAT_TOL * fscale:
                return True
        elif v > NONZERO_TOL:
            return True
    return False


def _fscale(M, conc, init):
    return 1.0 + sum(float(abs(G.COMP[s].get(k, 0)) * (abs(conc[s]) + abs(init[s]))) for k in M.keys for s in M.species)


def _lnq(conc, net):
    """(ln Q, sum |nu ln c|, largest |partial sum|) of the exact quotient, from the Fractions."""
    import math
    tot, mag, peak = 0.0, 0.0, 0.0
    for s, n in net:
        c = conc[s]
        term = n * (math.log(c.numerator) - math.log(c.denominator))
        tot += term
        mag += abs(term)
        peak = max(peak, abs(tot), abs(term))
    return tot, mag, peak


def _check_float_quotients(M, es, ctx, states):
    """EqSystem.equilibrium_quotients / Equilibrium.Q with float input: a list and a 1-D array (one state) and a 2-D
    array (rows = states); every number against the exact Fraction quotient, in log space."""
    import math
    import numpy as np
    rows = [[float(st[s]) for s in M.species] for st in states]
    # reference, in the order in which chempy multiplies (substance order; coefficient 0 contributes a factor 1)
    ref = []
    for st in states:
        ref.append([_lnq(st, [(s, net.get(s, 0)) for s in M.species]) for net in M.nets])
    if any(peak > 650 for r in ref for _, _, peak in r):
        ctx.label("quotients_float:outside_float64_range")     # a partial product would over/underflow: not judged
        return
    ctx.label("quotients_float:%d_states" % len(states))

    def judge(got, lnq, mag, clause, **detail):
        try:
            g = float(got)
        except (TypeError, ValueError):
            g = float("nan")
        if not (g > 0 and math.isfinite(g)) or abs(math.log(g) - lnq) > QUOT_TOL * (1.0 + mag):
            ctx.fail(clause, got=repr(got), expected_ln=lnq, **detail)
            return False
        return True

    def one_state(call, clause, arg):
        qs = sut(call, arg)
        if is_err(qs):
            ctx.fail(clause + "_raised", error=repr(qs))
            return
        if len(qs) != M.nr:
            ctx.fail(clause + "_length", got=len(qs), expected=M.nr)
            return
        for i, q in enumerate(qs):
            if np.ndim(q) != 0:
                ctx.fail(clause + "_shape", rxn=i, got=list(np.shape(q)), expected=[])
                return
            if not judge(q, ref[0][i][0], ref[0][i][1], clause, rxn=i):
                return

    def batch(call, clause, arg):
        qs = sut(call, arg)
        if is_err(qs):
            ctx.fail(clause + "_raised", error=repr(qs))
            return
        if len(qs) != M.nr:
            ctx.fail(clause + "_length", got=len(qs), expected=M.nr)
            return
        for i, q in enumerate(qs):
            q = np.asarray(q)
            if q.shape != (len(states),):
                ctx.fail(clause + "_shape", rxn=i, got=list(q.shape), expected=[len(states)], n_species=M.ns)
                return
            for j in range(len(states)):
                if not judge(q[j], ref[j][i][0], ref[j][i][1], clause, rxn=i, state=j):
                    return

    one_state(es.equilibrium_quotients, "equilibrium_quotients_float:list", list(rows[0]))
    one_state(es.equilibrium_quotients, "equilibrium_quotients_float:1d", np.array(rows[0], dtype=float))
    batch(es.equilibrium_quotients, "equilibrium_quotients_float:2d", np.array(rows, dtype=float))
    # the per-equilibrium method (same helper, stoichiometry taken from the Equilibrium object)
    one_state(lambda a: [rx.Q(es.substances, a) for rx in es.rxns], "Equilibrium.Q:1d", np.array(rows[0], dtype=float))
    batch(lambda a: [rx.Q(es.substances, a) for rx in es.rxns], "Equilibrium.Q:2d", np.array(rows, dtype=float))


def check_resid(case, ctx):
    import math
    M = G.Model07(case)
    dep = M.rank_N < M.nr
    zero_init = any(v == 0 for v in M.init.values())
    ctx.label("nr=%d" % M.nr, "dependent" if dep else "independent", "coupled" if M.coupled() else "uncoupled",
              "ns=%d" % M.ns)
    if zero_init:
        ctx.label("zero_in_init")
    if any(abs(n) > 1 for net in M.nets for n in net.values()):
        ctx.label("coef>1")
    if len(M.keys) > M.rank_B:
        ctx.label("rank_deficient_B")
    if any(s in G.SPECTATORS or not any(s in n for n in M.nets) for s in M.species):
        ctx.label("isolated_species")
    frac = bool(M.fractional())
    if frac:
        ctx.label("fractional_composition", "fractional_species=%d" % min(len(M.fractional()), 4))
        if any(s in n for n in M.nets for s in M.fractional()):
            ctx.label("fractional_species_reacts")
    ctx.nontrivial(M.nr >= 2 and M.coupled() and M.charged())

    es, subs = G.build_eqsys(M.species, M.rxns, [_R(k) for k in M.K])
    for s, sub in zip(M.species, subs):
        if dict(sub.composition) != G.COMP[s]:
            ctx.fail("species_composition", species=s, got=repr(sub.composition))
            return

    # --- quotients and conservation as reported by the system object -------------------------------------------------
    qs = sut(es.equilibrium_quotients, [M.ceq[s] for s in M.species])
    if is_err(qs):
        ctx.fail("equilibrium_quotients_raised", error=repr(qs))
    else:
        for i, (q, k) in enumerate(zip(qs, M.K)):
            if not (isinstance(q, F) and q == k):
                ctx.fail("equilibrium_quotients", rxn=i, got=str(q), expected=str(k))
                break
        ctx.require(len(qs) == M.nr, "equilibrium_quotients_length", got=len(qs))
    cc = sut(es.composition_conservation, {s: float(M.ceq[s]) for s in M.species},
             {s: float(M.init[s]) for s in M.species})
    if is_err(cc):
        ctx.fail("composition_conservation_raised", error=repr(cc))
    else:
        keys, t_eq, t_in = cc
        exp = G.totals(M.ceq, M.species)
        mag = G.abs_totals(M.ceq, M.species)
        mag_i = G.abs_totals(M.init, M.species)
        if list(keys) != M.keys:
            ctx.fail("composition_conservation_keys", got=list(keys), expected=M.keys)
        else:
            for k, a, b in zip(M.keys, t_eq, t_in):
                # float64 dot products of <= 31 terms: error <= ~40 ulp of sum|terms|; 1e-12 relative is ample
                tol = 1e-12 * float(max(mag[k], mag_i[k]))
                if abs(float(a) - float(exp[k])) > tol or abs(float(b) - float(exp[k])) > tol:
                    ctx.fail("composition_conservation_totals", key=k, eq=float(a), init=float(b), expected=float(exp[k]))
                    break

    # --- the residual formulations ---------------------------------------------------------------------------------
    scale = 1.0 + sum(abs(n) * abs(math.log(float(M.ceq[s]))) for net in M.nets for s, n in net.items()) \
        + sum(abs(math.log(float(k))) for k in M.K)
    P = case["pert"]
    K_bad = list(M.K)
    K_bad[P["k_idx"] % M.nr] = K_bad[P["k_idx"] % M.nr] * G.frac(P["k_fac"])
    sp_i = M.species[P["init_sp"] % M.ns]
    init_bad = dict(M.init)
    init_bad[sp_i] = init_bad[sp_i] + G.frac(P["init_shift"]) * M.ceq[sp_i]
    sp_s = M.species[P["state_sp"] % M.ns]
    c_fac = dict(M.ceq)
    c_fac[sp_s] = c_fac[sp_s] * G.frac(P["state_fac"])
    c_dir = M.move(M.ceq, M.nets[P["dir_idx"] % M.nr], G.frac(P["dir_frac"]))
    assert all(v > 0 for v in c_dir.values()) and G.totals(c_dir, M.species) == G.totals(M.ceq, M.species)
    assert G.totals(init_bad, M.species) != G.totals(M.init, M.species)
    assert G.totals(M.init, M.species) == G.totals(M.ceq, M.species)

    states = [
        ("true_state", M.ceq, M.init, M.K),
        ("K_scaled", M.ceq, M.init, K_bad),
        ("init_total_shifted", M.ceq, init_bad, M.K),
        ("conc_scaled", c_fac, M.init, M.K),
        ("moved_along_reaction", c_dir, M.init, M.K),
    ]
    # --- quotients of float states: one state (list, 1-D array) and a batch (2-D array, rows = states) ------------------
    c_rev = {s: M.ceq[t] for s, t in zip(M.species, reversed(M.species))}
    _check_float_quotients(M, es, ctx, [M.ceq, c_fac, c_dir, c_rev][:int(P.get("n_states", 3))])

    def unresolved(what):
        """Non-integer formula counts only: is the violation invisible to the exact rows and its exact effect on the
        float-evaluated totals too small to be told from rounding (see FLOAT_RESOLVE)?"""
        if not frac:
            return False
        if what == "init_total_shifted":
            sp_, delta, conc, init = sp_i, init_bad[sp_i] - M.init[sp_i], M.ceq, init_bad
        elif what == "conc_scaled" and not any(sp_s in n for n in M.nets):
            sp_, delta, conc, init = sp_s, c_fac[sp_s] - M.ceq[sp_s], c_fac, M.init
        else:
            return False
        effect = max(float(abs(G.COMP[sp_].get(k, 0) * delta)) for k in M.keys)
        return effect < FLOAT_RESOLVE * _fscale(M, conc, init)

    classes = _classes()
    for kind in NUMSYS:
        for rref_equil in (False, True):
            for rref_preserv in (False, True):
                cfg = {"numsys": kind, "rref_equil": rref_equil, "rref_preserv": rref_preserv}
                ns = classes[kind](es, backend="sympy", rref_equil=rref_equil, rref_preserv=rref_preserv)
                n_exp = M.n_equations(rref_equil, rref_preserv)
                for what, conc, init, Ks in states:
                    if rref_equil and what not in _RREF_EQUIL_STATES[rref_preserv]:
                        continue
                    params = [_R(init[s]) for s in M.species] + [_R(k) for k in Ks]
                    fl = ns.f(_yvec(kind, conc, M.species), params)
                    vals = _values(fl)
                    fscale = _fscale(M, conc, init) if frac else None
                    if kind != "Log" and what == "true_state" and any(ex is False for ex, _ in vals):
                        ctx.label("irrational_residual(rref,50 digits)")
                    if what == "true_state":
                        sig = {"route": "numeric"}
                        if frac:
                            # signature of known finding C07-F1 (see known_findings.d/C07.json): the conservation block is
                            # row-reduced together with its float-evaluated right-hand side; rounding noise in a
                            # dependent row becomes a pivot: one equation too many, and it reads 0 = 1
                            sig.update(fractional_composition=True,
                                       dependent_conservation_rows=len(M.keys) > M.rank_B,
                                       inconsistent_row=len(fl) == n_exp + 1 and any(
                                           ex is not False and v is not None and abs(v) == 1 for ex, v in vals[-(len(M.keys) + 1):]))
                        if len(fl) != n_exp:
                            ctx.fail("number_of_equations:" + kind, got=len(fl), expected=n_exp, **cfg, **sig)
                        if not _all_zero(vals, scale, fscale):
                            ctx.fail("nonzero_at_equilibrium:" + kind, residuals=short([str(x) for x in fl], 500),
                                     **cfg, **sig)
                    elif not _some_nonzero(vals, fscale):
                        if unresolved(what):
                            ctx.label("float_unresolved:" + what)
                        else:
                            ctx.fail("zero_at_violating_state:%s:%s" % (what, kind), route="numeric", **cfg)
    if frac:
        # the way the solvers use these classes: f(symbols) once, numbers substituted afterwards (exactly, here)
        import sympy as sp
        ysym = list(sp.symbols("y:%d" % M.ns, real=True))
        psym = list(sp.symbols("p:%d" % (M.ns + M.nr), positive=True))
        n_exp = M.n_equations(False, True)
        for kind in NUMSYS:
            cfg = {"numsys": kind, "rref_equil": False, "rref_preserv": True, "route": "symbolic"}
            ns = classes[kind](es, backend="sympy", rref_equil=False, rref_preserv=True)
            fs = [sp.sympify(e) for e in ns.f(ysym, psym)]
            if len(fs) != n_exp:
                ctx.fail("number_of_equations:" + kind, got=len(fs), expected=n_exp, **cfg)
            for what, conc, init, Ks in (states[0], states[2]):
                sub = dict(zip(ysym, _yvec(kind, conc, M.species)))
                sub.update(zip(psym, [_R(init[s]) for s in M.species] + [_R(k) for k in Ks]))
                vals = _values([e.subs(sub) for e in fs])
                fscale = _fscale(M, conc, init)
                if what == "true_state":
                    if not _all_zero(vals, scale, fscale):
                        ctx.fail("nonzero_at_equilibrium:" + kind, residuals=short([str(e.subs(sub)) for e in fs], 500),
                                 **cfg)
                elif not _some_nonzero(vals, fscale):
                    if unresolved(what):
                        ctx.label("float_unresolved:" + what)
                    else:
                        ctx.fail("zero_at_violating_state:%s:%s" % (what, kind), **cfg)
    # K taken from the reactions themselves (new_eq_params=False): params = initial concentrations only
    ns = classes["Lin"](es, backend="sympy", new_eq_params=False)
    fl = ns.f(_yvec("Lin", M.ceq, M.species), [_R(M.init[s]) for s in M.species])
    fs0 = _fscale(M, M.ceq, M.init) if frac else None
    if len(fl) != M.n_equations(False, False) or not _all_zero(_values(fl), scale, fs0):
        ctx.fail("nonzero_at_equilibrium:Lin:own_constants", residuals=short([str(x) for x in fl], 500))
    fl = ns.f(_yvec("Lin", c_dir, M.species), [_R(M.init[s]) for s in M.species])
    if not _some_nonzero(_values(fl), _fscale(M, c_dir, M.init) if frac else None):
        ctx.fail("zero_at_violating_state:moved_along_reaction:Lin:own_constants")


SUBCHECKS = [
    SubCheck("residuals", check_resid, strategy=G.c07_cases(), quick=300, thorough=15000,
             rule="G.c07_cases: 1-3 pool reactions (23, six of them over non-integer formulas), 1-4 integer "
                  "combinations, 0-2 spectators, 12 configurations x 5 states (+ 3 symbolic-route configurations x 2 "
                  "states for non-integer formulas); quotients of 1-D / 2-D float input",
             tolerances={"zero (non-rational residual, 50 digits)": "1e-30*(1+sum|nu ln c|+sum|ln K|)",
                         "non-zero (non-rational residual)": "> 1e-20",
                         "rational residuals": "exact",
                         "residual containing a 53-bit Float (non-integer formula counts only)":
                             "zero: <= 1e-12*(1+sum|B_ks|(|c_s|+|init_s|)), non-zero: above that; violations whose "
                             "exact effect on the totals is < 1e-9 of that sum are not judged",
                         "float quotients": "|ln Q - ln Q_exact| <= 1e-12*(1+sum|nu ln c|); cases with a partial "
                                            "product outside 1e+-282 not judged",
                         "composition_conservation (float64)": "1e-12*sum|terms|"}),
]

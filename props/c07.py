# -*- coding: utf-8 -*-
"""C07 - equilibrium residual formulations vanish exactly at, and only at, true equilibrium states."""
from fractions import Fraction as F

from vlib import env  # noqa  (sys.path)
from vlib.harness import SubCheck, sut, is_err, short
from vlib import gen_c07 as G

PROPERTY = "C07"
LEVEL = "exploration"
RULE = ("1-4 homogeneous equilibria built as small integer combinations (multipliers in -2..2) of 1-3 reactions of a "
        "pool of 17 real acid/base/complexation equilibria over 29 formula-defined species (+ 0-2 spectator ions, "
        "species order permuted), hence possibly linearly dependent; positive rational equilibrium state "
        "c_eq = m*10^-d (m 1..99, d 0..6), K_i := Q_i(c_eq) exactly, initial state = c_eq moved along every reaction "
        "by a rational fraction of the largest admissible extent (so totals agree by construction; fractions +-1 put a "
        "zero into the initial state).  Every case is evaluated in the 12 configurations {Lin, Log, Square} x "
        "rref_equil x rref_preserv with backend=sympy (+ Lin with new_eq_params=False) at the true state and at four "
        "violating states (one K scaled, one initial amount shifted, one concentration scaled, state moved along one "
        "reaction; with rref_equil=True only 2 resp. 1 of the four, see _RREF_EQUIL_STATES).  Non-trivial = at least "
        "two equilibria sharing a species and a charged species takes part; distinct by case digest.")
ASSUMPTIONS = ["vlib/gen_c07.py COMP table (hand-checked compositions of 29+ species) and the balanced pool reactions "
               "(asserted balanced against that table at import)",
               "sympy Rational arithmetic and sympy.N(expr, 50) (mpmath) evaluate the residual expressions returned by "
               "chempy faithfully; sympy's exact rref inside pyneqsys.symbolic.linear_rref is part of the judged path",
               "with rref_equil=True the expected number of equilibrium rows is rank(stoichiometry) (= number of "
               "reactions when they are independent)"]

ZERO_TOL = 1e-30      # |residual| <= ZERO_TOL*scale at 50 digits counts as zero (identity; rounding is ~1e-48*scale)
NONZERO_TOL = 1e-20   # a violated state must give |residual| > NONZERO_TOL somewhere (perturbations are >= 1e-6 relative)

NUMSYS = ["Lin", "Log", "Square"]
# sympy's symbolic rref of (stoichiometry | ln K) inside chempy dominates the cost (25-50 ms per call), so with
# rref_equil=True only the states that speak about the rows it produces are evaluated: the true state always, the two
# mass-action violations without rref_preserv, the mixed violation with it.  rref_equil=False: all five states.
_RREF_EQUIL_STATES = {False: ("true_state", "K_scaled", "moved_along_reaction"), True: ("true_state", "conc_scaled")}


def _classes():
    from chempy._eqsys import NumSysLin, NumSysLog, NumSysSquare
    return {"Lin": NumSysLin, "Log": NumSysLog, "Square": NumSysSquare}


def _R(x):
    import sympy as sp
    x = F(x)
    return sp.Rational(x.numerator, x.denominator)


def _yvec(kind, conc, species):
    import sympy as sp
    if kind == "Lin":
        return [_R(conc[s]) for s in species]
    if kind == "Log":
        return [sp.log(_R(conc[s])) for s in species]
    return [sp.sqrt(_R(conc[s])) for s in species]


def _values(fl):
    """Residual expressions -> list of (exact?, value): Fraction when sympy returned a Rational, else 50-digit number."""
    import sympy as sp
    out = []
    for e in fl:
        e = sp.sympify(e)
        if e.is_Rational:
            out.append((True, F(int(e.p), int(e.q))))
        else:
            v = sp.N(e, 50)
            if not v.is_number or v.is_real is False or v.has(sp.nan, sp.zoo, sp.oo):
                out.append((False, None))
            else:
                out.append((False, abs(float(v))))
    return out


def _all_zero(vals, scale):
    for exact, v in vals:
        if v is None:
            return False
        if exact and v != 0:
            return False
        if not exact and not v <= ZERO_TOL * scale:
            return False
    return True


def _some_nonzero(vals):
    for exact, v in vals:
        if v is None:
            return True         # not even a number: certainly not "all residuals vanish"
        if exact and v != 0:
            return True
        if not exact and v > NONZERO_TOL:
            return True
    return False


def check_resid(case, ctx):
    import math
    M = G.Model07(case)
    dep = M.rank_N < M.nr
    zero_init = any(v == 0 for v in M.init.values())
    ctx.label("nr=%d" % M.nr, "dependent" if dep else "independent", "coupled" if M.coupled() else "uncoupled",
              "ns=%d" % M.ns)
    if zero_init:
        ctx.label("zero_in_init")
    if any(abs(n) > 1 for net in M.nets for n in net.values()):
        ctx.label("coef>1")
    if len(M.keys) > M.rank_B:
        ctx.label("rank_deficient_B")
    if any(s in G.SPECTATORS or not any(s in n for n in M.nets) for s in M.species):
        ctx.label("isolated_species")
    ctx.nontrivial(M.nr >= 2 and M.coupled() and M.charged())

    es, subs = G.build_eqsys(M.species, M.rxns, [_R(k) for k in M.K])
    for s, sub in zip(M.species, subs):
        if dict(sub.composition) != G.COMP[s]:
            ctx.fail("species_composition", species=s, got=repr(sub.composition))
            return

    # --- quotients and conservation as reported by the system object -------------------------------------------------
    qs = sut(es.equilibrium_quotients, [M.ceq[s] for s in M.species])
    if is_err(qs):
        ctx.fail("equilibrium_quotients_raised", error=repr(qs))
    else:
        for i, (q, k) in enumerate(zip(qs, M.K)):
            if not (isinstance(q, F) and q == k):
                ctx.fail("equilibrium_quotients", rxn=i, got=str(q), expected=str(k))
                break
        ctx.require(len(qs) == M.nr, "equilibrium_quotients_length", got=len(qs))
    cc = sut(es.composition_conservation, {s: float(M.ceq[s]) for s in M.species},
             {s: float(M.init[s]) for s in M.species})
    if is_err(cc):
        ctx.fail("composition_conservation_raised", error=repr(cc))
    else:
        keys, t_eq, t_in = cc
        exp = G.totals(M.ceq, M.species)
        mag = G.abs_totals(M.ceq, M.species)
        mag_i = G.abs_totals(M.init, M.species)
        if list(keys) != M.keys:
            ctx.fail("composition_conservation_keys", got=list(keys), expected=M.keys)
        else:
            for k, a, b in zip(M.keys, t_eq, t_in):
                # float64 dot products of <= 31 terms: error <= ~40 ulp of sum|terms|; 1e-12 relative is ample
                tol = 1e-12 * float(max(mag[k], mag_i[k]))
                if abs(float(a) - float(exp[k])) > tol or abs(float(b) - float(exp[k])) > tol:
                    ctx.fail("composition_conservation_totals", key=k, eq=float(a), init=float(b), expected=float(exp[k]))
                    break

    # --- the residual formulations ---------------------------------------------------------------------------------
    scale = 1.0 + sum(abs(n) * abs(math.log(float(M.ceq[s]))) for net in M.nets for s, n in net.items()) \
        + sum(abs(math.log(float(k))) for k in M.K)
    P = case["pert"]
    K_bad = list(M.K)
    K_bad[P["k_idx"] % M.nr] = K_bad[P["k_idx"] % M.nr] * G.frac(P["k_fac"])
    sp_i = M.species[P["init_sp"] % M.ns]
    init_bad = dict(M.init)
    init_bad[sp_i] = init_bad[sp_i] + G.frac(P["init_shift"]) * M.ceq[sp_i]
    sp_s = M.species[P["state_sp"] % M.ns]
    c_fac = dict(M.ceq)
    c_fac[sp_s] = c_fac[sp_s] * G.frac(P["state_fac"])
    c_dir = M.move(M.ceq, M.nets[P["dir_idx"] % M.nr], G.frac(P["dir_frac"]))
    assert all(v > 0 for v in c_dir.values()) and G.totals(c_dir, M.species) == G.totals(M.ceq, M.species)
    assert G.totals(init_bad, M.species) != G.totals(M.init, M.species)
    assert G.totals(M.init, M.species) == G.totals(M.ceq, M.species)

    states = [
        ("true_state", M.ceq, M.init, M.K),
        ("K_scaled", M.ceq, M.init, K_bad),
        ("init_total_shifted", M.ceq, init_bad, M.K),
        ("conc_scaled", c_fac, M.init, M.K),
        ("moved_along_reaction", c_dir, M.init, M.K),
    ]
    classes = _classes()
    for kind in NUMSYS:
        for rref_equil in (False, True):
            for rref_preserv in (False, True):
                cfg = {"numsys": kind, "rref_equil": rref_equil, "rref_preserv": rref_preserv}
                ns = classes[kind](es, backend="sympy", rref_equil=rref_equil, rref_preserv=rref_preserv)
                n_exp = M.n_equations(rref_equil, rref_preserv)
                for what, conc, init, Ks in states:
                    if rref_equil and what not in _RREF_EQUIL_STATES[rref_preserv]:
                        continue
                    params = [_R(init[s]) for s in M.species] + [_R(k) for k in Ks]
                    fl = ns.f(_yvec(kind, conc, M.species), params)
                    vals = _values(fl)
                    if kind != "Log" and what == "true_state" and any(not ex for ex, _ in vals):
                        ctx.label("irrational_residual(rref,50 digits)")
                    if what == "true_state":
                        if len(fl) != n_exp:
                            ctx.fail("number_of_equations:" + kind, got=len(fl), expected=n_exp, **cfg)
                        if not _all_zero(vals, scale):
                            ctx.fail("nonzero_at_equilibrium:" + kind, residuals=short([str(x) for x in fl], 500), **cfg)
                    elif not _some_nonzero(vals):
                        ctx.fail("zero_at_violating_state:%s:%s" % (what, kind), **cfg)
    # K taken from the reactions themselves (new_eq_params=False): params = initial concentrations only
    ns = classes["Lin"](es, backend="sympy", new_eq_params=False)
    fl = ns.f(_yvec("Lin", M.ceq, M.species), [_R(M.init[s]) for s in M.species])
    if len(fl) != M.n_equations(False, False) or not _all_zero(_values(fl), scale):
        ctx.fail("nonzero_at_equilibrium:Lin:own_constants", residuals=short([str(x) for x in fl], 500))
    fl = ns.f(_yvec("Lin", c_dir, M.species), [_R(M.init[s]) for s in M.species])
    if not _some_nonzero(_values(fl)):
        ctx.fail("zero_at_violating_state:moved_along_reaction:Lin:own_constants")


SUBCHECKS = [
    SubCheck("residuals", check_resid, strategy=G.c07_cases(), quick=300, thorough=15000,
             rule="G.c07_cases: 1-3 pool reactions, 1-4 integer combinations, 0-2 spectators, 12 configurations x 5 states",
             tolerances={"zero (non-rational residual, 50 digits)": "1e-30*(1+sum|nu ln c|+sum|ln K|)",
                         "non-zero (non-rational residual)": "> 1e-20",
                         "rational residuals": "exact",
                         "composition_conservation (float64)": "1e-12*sum|terms|"}),
]

# -*- coding: utf-8 -*-
"""C03 - mass-action rate of each substance = net stoichiometry * k * prod(active reactant conc ** active coefficient),
summed over the reactions of a system (+ stirred-tank feed terms), independent of the reaction order."""
from fractions import Fraction

from vlib import env  # noqa  (sys.path)
from vlib.harness import SubCheck, sut, is_err, short
from vlib import gen_c03 as G

PROPERTY = "C03"
LEVEL = "exploration"
RULE = ("Reaction systems are built by construction (vlib/gen_c03.py): 1-8 reactions over <= 8 substance keys dealt "
        "into 1-4 blocks, with catalysts (a key on both sides), inactive reactants/products (also of a species that is "
        "active too), zeroth-order reactions, reverse partners, species in no reaction; rate constants plain / named / "
        "wrapped in MassAction; values int, Fraction, float (k over 30 decades, c over 12), sympy symbols, or float "
        "numpy arrays (class 'ndarray': every concentration an array with one entry per state, 2-4 states; named rate "
        "constants and feed terms optionally arrays too; every entry is compared with the per-state reference and the "
        "caller's arrays must be unchanged after each call).  Substances are handed over as key strings, Substance "
        "objects or Species objects with phase_idx 0-3 (directly or from the key's suffix '(s)' '(l)' '(g)').  The "
        "expected rates are computed from the JSON description with Fractions (or sympy arithmetic for symbols): "
        "net_i = prod - reac + inact_prod - inact_reac, q = k*prod(c^nu_active), dc_i/dt = sum net_i*q (+ F*(c_feed-c)). "
        "'history' keeps one system object through evaluations and in-place changes (re-sorting, +=); every "
        "evaluation uses the substance order the system reports at that moment; all history cases count as "
        "non-trivial.  "
        "Non-trivial = >= 2 reactions touching one species, or a species on both sides of a reaction, or an inactive "
        "coefficient; distinct by case digest.")
ASSUMPTIONS = ["float results are compared to the exact rational value of the same float inputs with tolerance "
               "1e-12 * sum(|terms|); int/Fraction and symbolic results (after sympy.expand) exactly",
               "a substance missing from ReactionSystem.rates() (it occurs in no reaction) is read as rate 0",
               "class 'ndarray': a result may be an array of shape (m,) or a scalar (the same in every state); the "
               "shape itself is not part of the property",
               "sympy arithmetic/expand is trusted for the symbolic class"]

# Each term net*k*prod(c^nu) is produced by <= order+2 multiplications and <= 3 pow() calls, each within ~1 ulp
# (1.1e-16): < 2e-15 relative per term; the accumulation over <= 8 reactions + 2 feed terms adds <= 10 ulp of the sum of
# absolute terms.  1e-12 * sum|terms| is > 100 times that and > 10 orders below the effect of any wrong coefficient.
RTOL = Fraction(1, 10 ** 12)


# ---------------------------------------------------------------------------
# comparison helpers
# ---------------------------------------------------------------------------

def _to_fraction(x):
    """int / Fraction / float / numpy scalar / sympy Rational|Float -> Fraction, else None."""
    if isinstance(x, bool):
        return None
    if isinstance(x, (int, Fraction)):
        return Fraction(x)
    if isinstance(x, float):
        if x != x or x in (float("inf"), float("-inf")):
            return None
        return Fraction(x)
    item = getattr(x, "item", None)
    if item is not None and type(x).__module__ == "numpy":
        return _to_fraction(item())
    if type(x).__module__.startswith("sympy"):
        if getattr(x, "is_Rational", False):
            return Fraction(int(x.p), int(x.q))
        if getattr(x, "is_Float", False):
            return Fraction(float(x))
    return None


def _state_values(got, m):
    """Entries of an array-valued result (shape (m,)), a scalar counts for every state; None for any other shape."""
    import numpy as np
    if isinstance(got, np.ndarray):
        if got.ndim == 0:
            return [got.item()] * m
        if got.shape != (m,):
            return None
        return list(got)
    return [got] * m


def same(cls, got, exp, scale):
    """True iff `got` (returned by chempy) is the expected value `exp` for number class `cls`."""
    if isinstance(cls, tuple):               # ("ndarray", m): state by state, each like class 'float'
        m = cls[1]
        gs = _state_values(got, m)
        if gs is None:
            return False
        return all(same("float", g, e, sc) for g, e, sc in zip(gs, G.states_of(exp, m), G.states_of(scale, m)))
    if cls == "sym":
        import sympy
        try:
            return sympy.expand(sympy.sympify(got) - exp) == 0
        except (sympy.SympifyError, TypeError):
            return False
    g = _to_fraction(got)
    if g is None:
        return False
    if cls == "exact":
        return g == exp
    return abs(g - exp) <= RTOL * scale      # scale = sum of |terms|; 0 only if every term is exactly 0


def cmp_dict(ctx, cls, got, exp, scale, clause, keys, missing_is_zero=False, **detail):
    """Compare a {substance: rate} mapping with the expected one on `keys`."""
    if not isinstance(got, dict):
        ctx.fail(clause + ":not_a_dict", got=short(repr(got), 200), **detail)
        return False
    for k in keys:
        if k not in got:
            if missing_is_zero:
                g = 0
            else:
                ctx.fail(clause + ":missing_key", key=k, got_keys=sorted(map(str, got)), **detail)
                return False
        else:
            g = got[k]
        sc = scale[k] if scale is not None else None
        if not same(cls, g, exp[k], sc):
            ctx.fail(clause, key=k, got=short(repr(g), 200), expected=short(str(exp[k]), 200), **detail)
            return False
    return True


def cmp_subset(ctx, cls, got, exp, scale, clause, keys, **detail):
    """An explicit substance_keys request: exactly the requested keys, each with its reference value."""
    if isinstance(got, dict) and set(got) != set(keys):
        missing = sorted(k for k in keys if k not in got)
        ctx.fail(clause + ":key_set", requested=list(keys), missing=missing,
                 extra=sorted(str(k) for k in got if k not in keys), **detail)
        if missing:          # (fail returns only for an open known finding; the requested values are still judged)
            return False
    return cmp_dict(ctx, cls, got, exp, scale, clause + ":value", keys, requested=list(keys), **detail)


def _subsets(case, present=None):
    out = []
    for ks in case.get("subsets", ()):
        ks = [k for k in ks if present is None or k in present]
        if ks and ks not in out:
            out.append(ks)
    return out


def _labels(case, ctx):
    lbls, s = G.system_labels(case["sys"])
    ctx.label("cls=" + case["cls"], "subs=" + case.get("subs_kind", "keys"), *lbls)
    if case.get("phase") and any(case["phase"].values()):
        ctx.label("phase_idx>0")
    if any(G.is_arr(r["k"]) for r in case["sys"]["rxns"]):
        ctx.label("k=ndarray")
    kt = set(r["ktype"] for r in case["sys"]["rxns"])
    for t in sorted(kt - {"plain"}):
        ctx.label("ktype=" + t)
    ctx.nontrivial(s["shared"] or s["both_sides"] or s["inactive"])
    return s


def _refs(case, conc_key="conc"):
    cls = case["cls"]
    conc = {k: G.refval(n, cls) for k, n in case[conc_key].items()}
    ks = [G.refval(r["k"], cls) for r in case["sys"]["rxns"]]
    if cls == "ndarray":
        cls = ("ndarray", case["m"])
    return cls, conc, ks


def _build_system(case, rxn_objs=None, order=None):
    kind = case.get("subs_kind", "keys")
    return G.build_system(case["sys"], rxn_objs, order=order, subs_arg="list" if kind == "keys" else kind,
                          phase=case.get("phase"))


class _Unchanged(object):
    """The caller's arrays in `variables` must still hold what they held before the call (class 'ndarray')."""

    def __init__(self, ctx, variables):
        import numpy as np
        self.ctx = ctx
        self.variables = variables
        self.before = {k: v.copy() for k, v in variables.items() if isinstance(v, np.ndarray)}

    def check(self, where, **detail):
        import numpy as np
        for k in sorted(self.before):
            now = self.variables[k]
            if not (isinstance(now, np.ndarray) and now.shape == self.before[k].shape
                    and np.array_equal(now, self.before[k])):
                self.ctx.fail("variables_changed_by_call", where=where, key=k, before=self.before[k].tolist(),
                              after=short(repr(now), 200), **detail)
                return False
        return True


# ---------------------------------------------------------------------------
# sub-check 'reaction': Reaction.rate
# ---------------------------------------------------------------------------

def check_reaction(case, ctx):
    _labels(case, ctx)
    cls, conc, ks = _refs(case)
    sysd = case["sys"]
    subs = list(sysd["subs"])
    variables = G.native_variables(case)
    unchanged = _Unchanged(ctx, variables)
    for i, r in enumerate(sysd["rxns"]):
        rx = G.build_reaction(r, i)
        q = G.ref_rate(r, ks[i], conc)
        exp = {s: G.net(r, s) * q for s in subs}
        scale = None if cls == "sym" else {s: abs(exp[s]) for s in subs}
        own = G.rxn_keys(r)
        # (a) default keys: exactly the species of the reaction
        got = rx.rate(dict(variables))
        if not unchanged.check("Reaction.rate", index=i):
            return
        if isinstance(got, dict) and set(got) != set(own):
            ctx.fail("rate:key_set", rxn=r, got_keys=sorted(map(str, got)), expected_keys=own)
            return
        if not cmp_dict(ctx, cls, got, exp, scale, "rate:value", own, rxn=r, index=i):
            return
        # (b) all substance keys asked for: bystanders get zero
        got_all = rx.rate(dict(variables), substance_keys=list(subs))
        if not unchanged.check("Reaction.rate(substance_keys=...)", index=i):
            return
        if isinstance(got_all, dict) and set(got_all) != set(subs):
            ctx.fail("rate:key_set_explicit", rxn=r, got_keys=sorted(map(str, got_all)), expected_keys=sorted(subs))
            return
        if not cmp_dict(ctx, cls, got_all, exp, scale, "rate:value_explicit_keys", subs, rxn=r, index=i):
            return
        # (b') proper subsets (single key, permuted, only bystanders): exactly the requested keys
        for req in _subsets(case):
            if not set(req) & set(own):
                ctx.label("subset_of_bystanders_only")
            got_s = rx.rate(dict(variables), substance_keys=list(req))
            if not cmp_subset(ctx, cls, got_s, exp, scale, "rate:subset", req, rxn=r, index=i):
                return
        # (c) nothing but the active reactants enters: change every other concentration, same result
        passive = [s for s in subs if s not in r["reac"]]
        if passive:
            ctx.label("passive_changed")
            v2 = dict(variables)
            for s in passive:
                v2[s] = G.native(case["alt"][s])
            got2 = rx.rate(v2)
            same_keys = isinstance(got2, dict) and set(got2) == set(got)
            # same operations on the same operands: results are identical objects/values, no tolerance needed
            if not same_keys or any(not _identical(cls, got2[k], got[k]) for k in got):
                ctx.fail("rate:depends_on_inactive_or_product_conc", rxn=r, changed=passive,
                         before=short(repr(got), 300), after=short(repr(got2), 300))
                return


def _identical(cls, a, b):
    if cls == "sym":
        import sympy
        return sympy.expand(sympy.sympify(a) - sympy.sympify(b)) == 0
    if isinstance(cls, tuple):
        import numpy as np
        return np.array_equal(np.asarray(a), np.asarray(b))
    return a == b


# ---------------------------------------------------------------------------
# sub-check 'system': ReactionSystem.rates, reaction order irrelevant
# ---------------------------------------------------------------------------

def check_system(case, ctx):
    _labels(case, ctx)
    cls, conc, ks = _refs(case)
    sysd = case["sys"]
    subs = list(sysd["subs"])
    variables = G.native_variables(case)
    unchanged = _Unchanged(ctx, variables)
    exp, scale = G.ref_system_rates(sysd, ks, conc)
    rxn_objs = [G.build_reaction(r, i) for i, r in enumerate(sysd["rxns"])]
    rsys = _build_system(case, rxn_objs)
    got = rsys.rates(dict(variables))
    if not unchanged.check("ReactionSystem.rates"):
        return
    if isinstance(got, dict) and not set(got) <= set(subs):
        ctx.fail("rates:unknown_key", got_keys=sorted(map(str, got)), substances=subs)
        return
    if not cmp_dict(ctx, cls, got, exp, scale, "rates:value", subs, missing_is_zero=True):
        return
    got_all = rsys.rates(dict(variables), substance_keys=list(subs))
    if not unchanged.check("ReactionSystem.rates(substance_keys=...)"):
        return
    if isinstance(got_all, dict) and set(got_all) != set(subs):
        ctx.fail("rates:key_set_explicit", got_keys=sorted(map(str, got_all)), substances=subs)
        return
    if not cmp_dict(ctx, cls, got_all, exp, scale, "rates:value_explicit_keys", subs):
        return
    touched = set(k for r in sysd["rxns"] for k in G.rxn_keys(r))
    for req in _subsets(case):
        if not set(req) & touched:
            ctx.label("subset_of_nonparticipating_only")
        got_s = rsys.rates(dict(variables), substance_keys=list(req))
        if not unchanged.check("ReactionSystem.rates(substance_keys=subset)"):
            return
        if not cmp_subset(ctx, cls, got_s, exp, scale, "rates:subset", req):
            return
    perm = case["perm"]
    if perm != sorted(perm):
        ctx.label("permuted")
        rsys_p = _build_system(case, rxn_objs, order=perm)
        got_p = rsys_p.rates(dict(variables))
        if not unchanged.check("ReactionSystem.rates (reordered)"):
            return
        if not cmp_dict(ctx, cls, got_p, exp, scale, "rates:value_after_reordering", subs, missing_is_zero=True,
                        perm=perm):
            return
        if cls in ("exact", "sym") and isinstance(got_p, dict):
            # exact arithmetic: the permuted system must give the *same* numbers, not only close ones
            for s in subs:
                if not _identical(cls, got_p.get(s, 0), got.get(s, 0)):
                    ctx.fail("rates:order_dependent", key=s, perm=perm, a=short(repr(got.get(s, 0))),
                             b=short(repr(got_p.get(s, 0))))
                    return


# ---------------------------------------------------------------------------
# sub-check 'reeval': the same Reaction / ReactionSystem objects queried repeatedly, with the concentrations and
# then the rate constants changed in between (a rate must always reflect the *current* constant and variables)
# ---------------------------------------------------------------------------

def check_reeval(case, ctx):
    _labels(case, ctx)
    cls, conc, ks = _refs(case)
    _, conc2, _ = _refs(case, "alt")
    sysd = case["sys"]
    subs = list(sysd["subs"])
    rxn_objs = [G.build_reaction(r, i) for i, r in enumerate(sysd["rxns"])]
    rsys = _build_system(case, rxn_objs)
    v1 = G.native_variables(case)
    v2 = G.native_variables(case, "alt")

    def judge(step, variables, conc_ref, ks_ref):
        unchanged = _Unchanged(ctx, variables)
        exp, scale = G.ref_system_rates(sysd, ks_ref, conc_ref)
        got = rsys.rates(dict(variables))
        if not unchanged.check("ReactionSystem.rates", step=step):
            return False
        if not cmp_dict(ctx, cls, got, exp, scale, "reeval:system:" + step, subs, missing_is_zero=True):
            return False
        for i, r in enumerate(sysd["rxns"]):
            q = G.ref_rate(r, ks_ref[i], conc_ref)
            own = G.rxn_keys(r)
            e = {s_: G.net(r, s_) * q for s_ in own}
            sc = None if cls == "sym" else {s_: abs(e[s_]) for s_ in own}
            if not cmp_dict(ctx, cls, rxn_objs[i].rate(dict(variables)), e, sc, "reeval:reaction:" + step, own, index=i):
                return False
        return unchanged.check("Reaction.rate", step=step)

    if not judge("first", v1, conc, ks):
        return
    if not judge("other_concentrations", v2, conc2, ks):
        return
    # new constants: assigned to .param for plain ones, through the variables for named ones
    changed = False
    ks3 = list(ks)
    v3 = dict(v1)
    for i, r in enumerate(sysd["rxns"]):
        kt = r.get("ktype", "plain")
        newk = G._other_k(r["k"], i + 1)
        if kt == "plain":
            rxn_objs[i].param = G.native(newk)
        elif kt == "named":
            v3[G.k_name(i)] = G.native(newk)
        else:
            continue
        ks3[i] = G.refval(newk, case["cls"])
        changed = True
    if changed:
        ctx.label("constants_changed")
        if not judge("after_new_constants", v3, conc, ks3):
            return
    judge("first_again", v3 if changed else v1, conc, ks3)


# ---------------------------------------------------------------------------
# sub-check 'cstr': feed terms F*(c_feed - c)
# ---------------------------------------------------------------------------

FR_KEY = "feedratio"


def fc_key(s):
    return "fc_" + s


def check_cstr(case, ctx):
    _labels(case, ctx)
    cls, conc, ks = _refs(case)
    sysd = case["sys"]
    subs = list(sysd["subs"])
    cs = case["cstr"]
    fr = G.refval(cs["fr"], case["cls"])
    fc = {s: G.refval(n, case["cls"]) for s, n in cs["fc"].items()}
    variables = G.native_variables(case)
    variables[FR_KEY] = G.native(cs["fr"])
    fcmap = {}
    for s in sorted(cs["fc"]):
        variables[fc_key(s)] = G.native(cs["fc"][s])
        fcmap[s] = fc_key(s)
    unchanged = _Unchanged(ctx, variables)
    exp, scale = G.ref_system_rates(sysd, ks, conc, cstr=(fr, fc))
    rsys = _build_system(case)
    participating = set()
    for r in sysd["rxns"]:
        participating.update(G.rxn_keys(r))
    lonely = sorted(s for s in fc if s not in participating)
    ctx.label("feed=all" if len(fc) == len(subs) else "feed=some")
    # (a) all substance keys asked for
    got_all = rsys.rates(dict(variables), substance_keys=list(subs), cstr_fr_fc=(FR_KEY, dict(fcmap)))
    if not unchanged.check("ReactionSystem.rates(substance_keys=..., cstr_fr_fc=...)"):
        return
    if not cmp_dict(ctx, cls, got_all, exp, scale, "cstr:value_explicit_keys", subs, feed=sorted(fc)):
        return
    # (a') proper subsets of the substances
    for req in _subsets(case):
        if not set(req) & (participating | set(fc)):
            ctx.label("subset_of_nonparticipating_unfed_only")
        got_s = rsys.rates(dict(variables), substance_keys=list(req), cstr_fr_fc=(FR_KEY, dict(fcmap)))
        extra = sorted(k for k in got_s if k not in req) if isinstance(got_s, dict) else []
        cmp_subset(ctx, cls, got_s, exp, scale, "cstr:subset", req, feed=sorted(fc),
                   extra_are_all_fed=bool(extra) and all(k in fc for k in extra))
    # (b) default keys (what get_odesys(cstr=True) does)
    if lonely:
        ctx.label("feed_to_nonparticipating")
    got = sut(rsys.rates, dict(variables), cstr_fr_fc=(FR_KEY, dict(fcmap)))
    if is_err(got):
        ctx.fail("cstr:raises", error=repr(got), feed_to_nonparticipating=bool(lonely), lonely=lonely)
        return
    if not unchanged.check("ReactionSystem.rates(cstr_fr_fc=...)"):
        return
    if isinstance(got, dict) and not set(got) <= set(subs):
        ctx.fail("cstr:unknown_key", got_keys=sorted(map(str, got)), substances=subs)
        return
    cmp_dict(ctx, cls, got, exp, scale, "cstr:value", subs, missing_is_zero=True, feed=sorted(fc))


# ---------------------------------------------------------------------------
# sub-check 'array': law_of_mass_action_rates + dCdt_list, stoichiometry matrices, get_coeff_mtx
# ---------------------------------------------------------------------------

MATRICES = (("net_stoichs", G.net),
            ("all_reac_stoichs", G.all_reac),
            ("active_reac_stoichs", lambda r, k: r["reac"].get(k, 0)),
            ("all_prod_stoichs", G.all_prod),
            ("active_prod_stoichs", lambda r, k: r["prod"].get(k, 0)))


def _variables_argument(case, ctx, alt_key="alt"):
    """The optional third argument of law_of_mass_action_rates as a tuple of 0 or 1 elements.  'none' = omitted,
    'empty' = {}, 'unrelated' = keys that are neither substances nor parameters, 'state' = additionally every substance
    key, holding *other* values than the concentration vector (the concentrations that count are the vector's).
    Named constants always travel in it.  Omitting the argument when a parameter is a rate expression (MassAction)
    makes the unchanged code raise AttributeError (None.items()) before anything is reported: not generated, {} is
    passed instead (label vars=none->empty)."""
    rxns = case["sys"]["rxns"]
    mode = case.get("vmode", "empty")
    names = {G.k_name(i): G.native(r["k"]) for i, r in enumerate(rxns) if r["ktype"] == "named"}
    if mode == "none":
        if not names and not any(r["ktype"] == "massaction" for r in rxns):
            ctx.label("vars=none")
            return ()
        ctx.label("vars=none->empty")
        mode = "empty"
    else:
        ctx.label("vars=" + mode)
    v = {}
    if mode in ("unrelated", "state"):
        v.update({"temperature": 298, "feedratio": 2})
    if mode == "state":
        v.update({s: G.native(case[alt_key][s]) for s in case["sys"]["subs"]})
    v.update(names)
    return (v,)


def check_array(case, ctx):
    _labels(case, ctx)
    cls, conc, ks = _refs(case)
    sysd = case["sys"]
    subs = list(sysd["subs"])
    rxns = sysd["rxns"]
    rsys = _build_system(case)
    nr, ns = len(rxns), len(subs)
    # -- matrices -------------------------------------------------------------
    alt_keys = [subs[i] for i in case["perm"] if i < ns][: max(1, ns - 1)] or subs[:1]
    for name, fn in MATRICES:
        for keys, tag in ((None, ""), (alt_keys, ":keys")):
            m = getattr(rsys, name)(keys) if keys is not None else getattr(rsys, name)()
            kk = subs if keys is None else keys
            shape = tuple(getattr(m, "shape", ()))
            if shape != (nr, len(kk)):
                ctx.fail("matrix:shape:" + name + tag, shape=list(shape), expected=[nr, len(kk)])
                return
            for ri, r in enumerate(rxns):
                for ci, k in enumerate(kk):
                    if m[ri, ci] != fn(r, k):
                        ctx.fail("matrix:value:" + name + tag, rxn=r, key=k, got=repr(m[ri, ci]), expected=fn(r, k))
                        return
    from chempy.util.stoich import get_coeff_mtx
    A = get_coeff_mtx(list(subs), [(dict(r["reac"]), dict(r["prod"])) for r in rxns])
    if tuple(A.shape) != (ns, nr):
        ctx.fail("get_coeff_mtx:shape", shape=list(A.shape), expected=[ns, nr])
        return
    for ri, r in enumerate(rxns):
        for si, k in enumerate(subs):
            e = r["prod"].get(k, 0) - r["reac"].get(k, 0)
            if A[si, ri] != e:
                ctx.fail("get_coeff_mtx:value", rxn=r, key=k, got=int(A[si, ri]), expected=e)
                return
    # -- rates in array form ------------------------------------------------------
    if any(r["ktype"] == "named" for r in rxns):
        # law_of_mass_action_rates multiplies by rxn.param itself, so a bare parameter *name* is outside its domain;
        # the name wrapped as MassAction.fk(name) (what Reaction.rate_expr() makes of it) is looked up in `variables`
        ctx.label("named_as_MassAction.fk")
        rsys = _build_system(case, [G.build_reaction(r, i, named_fk=True) for i, r in enumerate(rxns)])
    from chempy.kinetics.ode import dCdt_list, law_of_mass_action_rates
    conc_list = [G.native(case["conc"][s]) for s in subs]
    if (cls == "float" or isinstance(cls, tuple)) and case["perm"][:1] != [0]:
        import numpy as np
        conc_list = np.array(conc_list, dtype=float)       # class 'ndarray': shape (ns, m), one row per substance
        ctx.label("conc=ndarray" if cls == "float" else "conc=2d_ndarray")
    extra = _variables_argument(case, ctx)
    unchanged = _Unchanged(ctx, {"conc": conc_list} if not isinstance(conc_list, list) else dict(enumerate(conc_list)))
    rates = list(law_of_mass_action_rates(conc_list, rsys, *extra))
    if not unchanged.check("law_of_mass_action_rates"):
        return
    if len(rates) != nr:
        ctx.fail("law_of_mass_action_rates:length", got=len(rates), expected=nr)
        return
    for ri, r in enumerate(rxns):
        q = G.ref_rate(r, ks[ri], conc)
        if not same(cls, rates[ri], q, None if cls == "sym" else abs(q)):
            ctx.fail("law_of_mass_action_rates:value", rxn=r, got=short(repr(rates[ri]), 200), expected=short(str(q), 200))
            return
    exp, scale = G.ref_system_rates(sysd, ks, conc)
    rates_before = _Unchanged(ctx, dict(enumerate(rates)))
    f = dCdt_list(rsys, rates)
    if not (unchanged.check("dCdt_list") and rates_before.check("dCdt_list (rates argument)")):
        return
    if len(f) != ns:
        ctx.fail("dCdt_list:length", got=len(f), expected=ns)
        return
    for si, s in enumerate(subs):
        if not same(cls, f[si], exp[s], None if scale is None else scale[s]):
            ctx.fail("dCdt_list:value", key=s, index=si, got=short(repr(f[si]), 200), expected=short(str(exp[s]), 200))
            return


# ---------------------------------------------------------------------------
# sub-check 'history': one ReactionSystem object evaluated, changed in place, evaluated again
# ---------------------------------------------------------------------------

def check_history(case, ctx):
    from chempy.kinetics.ode import dCdt_list, law_of_mass_action_rates
    _labels(case, ctx)
    cls_name = case["cls"]
    cls = ("ndarray", case["m"]) if cls_name == "ndarray" else cls_name
    subs = list(case["sys"]["subs"])
    rxns = list(case["sys"]["rxns"])
    objs = [G.build_reaction(r, i, named_fk=True) for i, r in enumerate(rxns)]
    rsys = _build_system(case, objs)
    n_eval = 0
    for step in case["steps"]:
        op = step["op"]
        ctx.label("op=" + op)
        if op == "sort":
            rsys.sort_substances_inplace()
            subs = sorted(subs)
        elif op == "reorder":
            order = list(step["order"])
            rsys.sort_substances_inplace(key=lambda kv: order.index(kv[0]))
            subs = order
        elif op == "add_rxns":
            new = [G.build_reaction(r, len(rxns) + i, named_fk=True) for i, r in enumerate(step["rxns"])]
            rsys += new
            rxns = rxns + list(step["rxns"])
        elif op == "add_system":
            new = [G.build_reaction(r, len(rxns) + i, named_fk=True) for i, r in enumerate(step["rxns"])]
            other = _build_system(dict(case, sys={"subs": list(step["subs"]), "rxns": list(step["rxns"])}), new)
            rsys += other
            rxns = rxns + list(step["rxns"])
            subs = subs + [k for k in step["subs"] if k not in subs]
        if op != "eval":
            continue
        # -- evaluation against the model (current substance order, all reactions so far) ---------------------
        which = "conc" if n_eval % 2 == 0 else "alt"
        other_vals = "alt" if which == "conc" else "conc"
        n_eval += 1
        # the order that counts is the system's current one, whatever the change made of it; the model only says
        # which substances and reactions there are
        got_order = list(rsys.substances.keys())
        if sorted(got_order) != sorted(subs) or rsys.nr != len(rxns):
            ctx.fail("history:substances_or_reactions_lost", got=got_order, expected=sorted(subs), nr=rsys.nr,
                     expected_nr=len(rxns), after=n_eval)
            return
        if got_order != subs:
            ctx.label("order_differs_from_model")
            subs = got_order
        sysd = {"subs": subs, "rxns": rxns}
        conc = {k: G.refval(case[which][k], cls_name) for k in subs}
        ks = [G.refval(r["k"], cls_name) for r in rxns]
        exp, scale = G.ref_system_rates(sysd, ks, conc)
        variables = {k: G.native(case[which][k]) for k in subs}
        names = {G.k_name(i): G.native(r["k"]) for i, r in enumerate(rxns) if r["ktype"] == "named"}
        variables.update(names)
        got = rsys.rates(dict(variables))
        if not cmp_dict(ctx, cls, got, exp, scale, "history:rates", subs, missing_is_zero=True, evaluation=n_eval,
                        substances=subs):
            return
        for req in _subsets(case, present=subs):
            got_s = rsys.rates(dict(variables), substance_keys=list(req))
            if not cmp_subset(ctx, cls, got_s, exp, scale, "history:rates:subset", req, evaluation=n_eval,
                              substances=subs):
                return
        conc_list = [G.native(case[which][k]) for k in subs]
        extra = _variables_argument(dict(case, sys=sysd), ctx, alt_key=other_vals)
        rates = list(law_of_mass_action_rates(conc_list, rsys, *extra))
        if len(rates) != len(rxns):
            ctx.fail("history:law_of_mass_action_rates:length", got=len(rates), expected=len(rxns))
            return
        for ri, r in enumerate(rxns):
            q = G.ref_rate(r, ks[ri], conc)
            if not same(cls, rates[ri], q, None if cls == "sym" else abs(q)):
                ctx.fail("history:law_of_mass_action_rates:value", rxn=r, index=ri, evaluation=n_eval, substances=subs,
                         got=short(repr(rates[ri]), 200), expected=short(str(q), 200))
                return
        f = dCdt_list(rsys, rates)
        if len(f) != len(subs):
            ctx.fail("history:dCdt_list:length", got=len(f), expected=len(subs))
            return
        for si, k in enumerate(subs):
            if not same(cls, f[si], exp[k], None if scale is None else scale[k]):
                ctx.fail("history:dCdt_list:value", key=k, index=si, evaluation=n_eval, substances=subs,
                         got=short(repr(f[si]), 200), expected=short(str(exp[k]), 200))
                return
    ctx.nontrivial(True)


SUBCHECKS = [
    SubCheck("reaction", check_reaction, strategy=G.rate_cases(), quick=700, thorough=50000,
             rule="Reaction.rate(vars) per reaction: default keys, all substance keys (bystanders 0), and unchanged when "
                  "every concentration other than the active reactants' is replaced",
             tolerances={"float_rel_of_sum_abs_terms": 1e-12}),
    SubCheck("system", check_system, strategy=G.rate_cases(), quick=1400, thorough=60000,
             rule="ReactionSystem.rates(vars) with default and explicit substance keys; same after permuting the reaction list",
             tolerances={"float_rel_of_sum_abs_terms": 1e-12}),
    SubCheck("reeval", check_reeval, strategy=G.rate_cases(), quick=500, thorough=30000,
             rule="same objects queried with two concentration vectors, then with new rate constants (assigned to "
                  ".param / passed as named variables), then again", tolerances={"float": "1e-12 * sum|terms|"}),
    SubCheck("cstr", check_cstr, strategy=G.rate_cases(cstr=True), quick=700, thorough=40000,
             rule="ReactionSystem.rates(vars, cstr_fr_fc=(F, {substance: feed key})) with feeds to all or to some substances",
             tolerances={"float_rel_of_sum_abs_terms": 1e-12}),
    SubCheck("array", check_array, strategy=G.rate_cases(), quick=700, thorough=50000,
             rule="five stoichiometry matrices (default and explicit key lists), get_coeff_mtx, "
                  "law_of_mass_action_rates(c, rsys[, variables]) and dCdt_list against the description; `variables` "
                  "omitted / {} / unrelated keys / a state dict with other concentrations; named constants as "
                  "MassAction.fk(name)",
             tolerances={"float_rel_of_sum_abs_terms": 1e-12}),
    SubCheck("history", check_history, strategy=G.history_cases(), quick=600, thorough=30000,
             rule="one system object: evaluate (rates() and the array form), then 1-3 rounds of in-place changes "
                  "(sort_substances_inplace() with the default or a custom key, += reactions, += another system with "
                  "new substances) each followed by an evaluation in the *current* substance order",
             tolerances={"float_rel_of_sum_abs_terms": 1e-12}),
]

# -*- coding: utf-8 -*-
"""C09 - unit conversion is exact, reversible and refuses incompatible dimensions; registry functions and the
unit-aware array helpers are consistent with the same ratio.

Every case is a JSON description over vlib/gen_units.py (own SI-factor table).  Reference values are exact
Fractions computed from the description; chempy's results are read back with the same table (G.observe)."""
import math
from fractions import Fraction

from hypothesis import strategies as st

from vlib import env  # noqa  (sys.path)
from vlib.harness import SubCheck, sut, is_err, short
from vlib import gen_units as G

PROPERTY = "C09"
LEVEL = "exploration"
RULE = ("Quantities are mag * prod(unit_i ** e_i) with e_i in -3..3 over the base/prefixed units of length, mass, "
        "time, current, temperature, amount (30 %: chemistry/derived units molar, per100eV, J, ...).  Compatible "
        "targets are built by construction from the quantity's dimension vector (derived units with free "
        "exponents, remainder filled with prefixed base units, exponent splits such as m**2/cm, dimensionless "
        "padding, optional scale factor); incompatible ones are a compatible target with one exponent changed by "
        "+-1 / an extra dimension / no unit at all.  Registries choose a base unit (and sometimes a scale) per "
        "dimension independently.  Reference = exact Fraction arithmetic on vlib/gen_units.py's own SI table.  "
        "Non-trivial = the quantity or target spans >= 2 dimensions, has a negative exponent and a unit whose SI "
        "factor is not 1; distinct by case digest.")
ASSUMPTIONS = ["vlib/gen_units.py SI factors and dimension vectors (typed from the unit definitions; 2019 SI values "
               "for e and N_A)",
               "`quantities` unit bookkeeping (magnitude array + {unit: exponent}) is used to read results back; "
               "the conversion factors applied to it are the table's",
               "eV / per100eV: 5e-7 relative slack per exponent because `quantities` carries CODATA-2002/2006 constants"]

# to_unitless multiplies the magnitude by a ratio that `quantities` forms from the per-unit SI factors with at most a
# few dozen float multiplications/divisions/integer powers: < 40 roundings of 1.1e-16 < 1e-14.  1e-12 leaves two
# orders of slack and is thirteen orders below the smallest wrong factor a unit mix-up can produce (a prefix step).
TOL = 1e-12
RANGE = (Fraction(10) ** -250, Fraction(10) ** 250)   # beyond this IEEE doubles under/overflow: case not judged


def _cu():
    import chempy.units as cu
    return cu


def _pq(qdesc):
    """The Quantity of a description - or, with "unc" (relative error bar), the quantities.UncertainQuantity of the same
    magnitude and unit.  The helpers only look at magnitude and unit, so every reference value is unchanged."""
    q = G.pq_quantity(qdesc)
    if qdesc.get("unc") and hasattr(q, "units"):
        import numpy as np
        import quantities as pq
        return pq.UncertainQuantity(q.magnitude, q.units, np.abs(q.magnitude) * qdesc["unc"])
    return q


def _mark_uncertain(draw, obj):
    """Turns a random subset of the quantity descriptions of a case (dicts with "mag" and non-empty "units") into
    UncertainQuantities."""
    if isinstance(obj, dict):
        if "mag" in obj and obj.get("units") and draw(st.booleans()):
            obj["unc"] = 0.01
        for k in obj:
            _mark_uncertain(draw, obj[k])
    elif isinstance(obj, list):
        for v in obj:
            _mark_uncertain(draw, v)


@st.composite
def with_uncertain(draw, strategy, one_in=5):
    """One case in `one_in`: some of its quantities carry an error bar (first of the range = none: shrink target)."""
    case = draw(strategy)
    if draw(st.integers(0, one_in - 1)) == one_in - 1:
        _mark_uncertain(draw, case)
    return case


def _has_uncertain(obj):
    if isinstance(obj, dict):
        return bool(obj.get("unc")) or any(_has_uncertain(v) for v in obj.values())
    if isinstance(obj, list):
        return any(_has_uncertain(v) for v in obj)
    return False


def _finite(x):
    try:
        return math.isfinite(float(x))
    except (TypeError, ValueError, OverflowError):
        return False


def _close(got, ref, rel, scale=None):
    """|got - ref| <= rel * max(|ref|, scale) in exact arithmetic (ref, scale: Fractions)."""
    if not _finite(got):
        return False
    s = abs(ref) if scale is None else max(abs(ref), abs(scale))
    return abs(Fraction(float(got)) - ref) <= Fraction(rel) * s


def _in_range(*refs):
    for r in refs:
        if r != 0 and not (RANGE[0] <= abs(r) <= RANGE[1]):
            return False
    return True


def _flat(x):
    if isinstance(x, (list, tuple)):
        out = []
        for y in x:
            out.extend(_flat(y))
        return out
    return [x]


def _shape(x):
    if isinstance(x, (list, tuple)):
        return (len(x),) + (_shape(x[0]) if x else ())
    return ()


def _labels(ctx, units, tunits=None):
    u = list(units) + list(tunits or [])
    nd = max(G.n_dimensions(units), G.n_dimensions(tunits or []))
    ctx.label("ndims=%d" % min(nd, 4))
    neg, pre = G.has_negative_exponent(u), G.has_prefix(u)
    if neg:
        ctx.label("neg_exp")
    if pre:
        ctx.label("prefixed")
    if any(G.UNITS[n].kind == "derived" for n, _ in u):
        ctx.label("derived_unit")
    if any(G.UNITS[n].rel_unc for n, _ in u):
        ctx.label("codata_unit")
    ctx.nontrivial(nd >= 2 and neg and pre)


def _cmp_array(ctx, clause, got, refs, rel, shape=None, scale=None, **detail):
    """got: array-like from chempy; refs: nested list of Fractions; scale: optional Fraction the tolerance is
    relative to when it exceeds |ref| (differences of large numbers)."""
    import numpy as np
    try:
        arr = np.asarray(got, dtype=float)
    except (TypeError, ValueError):
        ctx.fail(clause + ":not_numeric", got=repr(got)[:200], **detail)
        return False
    want_shape = _shape(refs) if shape is None else shape
    if tuple(arr.shape) != tuple(want_shape):
        ctx.fail(clause + ":shape", got_shape=list(arr.shape), expected_shape=list(want_shape), **detail)
        return False
    flat = _flat(refs)
    for i, (g, r) in enumerate(zip(arr.ravel().tolist(), flat)):
        if not _close(g, r, rel, scale):
            ctx.fail(clause, index=i, got=g, expected=float(r), **detail)
            return False
    return True


# ---------------------------------------------------------------------------------------------------------------
# 1. scalar conversion: exact ratio, round trip, composition, linearity
# ---------------------------------------------------------------------------------------------------------------

@st.composite
def convert_cases(draw, max_factors=3):
    q = draw(G.quantities(max_factors=max_factors))
    t = draw(G.targets_for(q["units"]))
    mid = draw(G.targets_for(q["units"]))
    a = draw(st.sampled_from([2.0, -1.0, 0.5, 3.0, 1e3, -7.25, 1e-3]))
    m2 = draw(G.magnitudes())
    return {"q": q, "t": t, "mid": mid, "a": a, "m2": m2}


def check_convert(case, ctx):
    cu = _cu()
    q, t, mid = case["q"], case["t"], case["mid"]
    _labels(ctx, q["units"], t["units"])
    if t.get("scale", 1.0) != 1.0:
        ctx.label("scaled_target")
    ref = G.ref_in(q, t)
    ref_mid = G.ref_in(q, mid)
    if not _in_range(ref, ref_mid, G.ref_si(q), G.target_factor(t), G.target_factor(mid)):
        ctx.skip("out_of_double_range")
        return
    Q, T, MID = _pq(q), G.pq_target(t), G.pq_target(mid)
    unc = G.rel_unc(q["units"]) + G.rel_unc(t["units"])
    unc_mid = G.rel_unc(mid["units"])
    r = sut(cu.to_unitless, Q, T)
    if is_err(r):
        ctx.fail("compatible_target_rejected", error=repr(r))
        return
    if hasattr(r, "dimensionality") or not isinstance(r, (float, int)):
        ctx.fail("result_not_a_plain_number", got=repr(r)[:200])
        return
    if not _close(r, ref, TOL + unc):
        ctx.fail("ratio", got=r, expected=float(ref))
        return
    # round trip: r * target is the original quantity (read back with the own table)
    si, dv = G.observe(r * T)
    if tuple(dv) != G.dim(q["units"]):
        ctx.fail("round_trip_dimension", got=list(dv), expected=list(G.dim(q["units"])))
        return
    if not _close(si, G.ref_si(q), 2 * TOL + unc + G.rel_unc(t["units"])):
        ctx.fail("round_trip", got=si, expected=float(G.ref_si(q)))
        return
    # composition through an intermediate unit
    rm = sut(cu.to_unitless, Q, MID)
    if is_err(rm):
        ctx.fail("compatible_target_rejected", error=repr(rm), which="mid")
        return
    r2 = sut(cu.to_unitless, rm * MID, T)
    if is_err(r2):
        ctx.fail("compatible_target_rejected", error=repr(r2), which="mid->t")
        return
    if not _close(r2, ref, 3 * TOL + unc + 2 * unc_mid):
        ctx.fail("composition", got=r2, direct=r, expected=float(ref))
        return
    # linearity: to_unitless(a*q + q2) = a*to_unitless(q) + to_unitless(q2); tolerance relative to the sum of
    # the absolute terms (the two terms may cancel)
    a, m2 = case["a"], case["m2"]
    q2 = {"mag": m2, "units": q["units"], "unc": q.get("unc")}    # (`quantities` cannot add a Quantity to an UncertainQuantity)
    lhs = sut(cu.to_unitless, a * Q + _pq(q2), T)
    rq2 = sut(cu.to_unitless, _pq(q2), T)
    if is_err(lhs) or is_err(rq2):
        ctx.fail("compatible_target_rejected", error=repr(lhs if is_err(lhs) else rq2), which="linear")
        return
    ref2 = G.ref_in(q2, t)
    scale = abs(Fraction(a) * ref) + abs(ref2)
    if abs(Fraction(float(lhs)) - (Fraction(a) * Fraction(float(r)) + Fraction(float(rq2)))) > Fraction(4 * TOL) * scale:
        ctx.fail("linearity", lhs=lhs, a=a, r1=r, r2=rq2)


# ---------------------------------------------------------------------------------------------------------------
# 2. containers: element-wise
# ---------------------------------------------------------------------------------------------------------------

KINDS = ["list", "tuple", "qarray", "dict", "objarray", "nested", "qarray2d", "dict_of_arrays", "plain_ndarray"]


def _or(units, fallback):
    """A plain float ndarray is a separate input class (kind plain_ndarray): never produce it by accident."""
    return units if units else fallback


@st.composite
def _compatible_elems(draw, n, max_factors=3):
    q0 = draw(G.quantities(max_factors=max_factors))
    elems = [q0]
    dv = G.dim(q0["units"])
    for _ in range(n - 1):
        if draw(st.booleans()):
            units = draw(G.compatible_units(dv))
        else:
            units = q0["units"]
        elems.append({"mag": draw(G.magnitudes()), "units": units})
    return elems


@st.composite
def container_cases(draw):
    kind = draw(st.sampled_from(KINDS))
    if kind in ("qarray", "qarray2d"):
        q = draw(G.quantities(max_factors=3, array=5))
        if kind == "qarray2d":
            ncol = draw(st.integers(1, 3))
            row = q["mag"][:ncol]
            q["mag"] = [row, [draw(G.magnitudes()) for _ in row]]
        elems = [q]
    elif kind == "dict_of_arrays":
        q = draw(G.quantities(max_factors=3, array=4))
        q2 = {"mag": draw(st.lists(G.magnitudes(), min_size=1, max_size=3)),
              "units": _or(draw(G.compatible_units(G.dim(q["units"]))), q["units"])}
        elems = [q, q2]
    elif kind == "plain_ndarray":
        # numbers without any unit against a target that is dimensionless by cancellation (kg/g, m**2/cm**2, ...)
        d = draw(st.sampled_from(G.DIMS))
        a = draw(st.sampled_from(G.BASE_UNITS[d]))
        b = draw(st.sampled_from([x for x in G.BASE_UNITS[d] if x != a]))
        k = draw(st.integers(1, 2))
        scale = draw(st.sampled_from([1.0, 1.0, 2.0, 1e3]))
        return {"kind": kind, "elems": [{"mag": draw(st.lists(G.magnitudes(), min_size=1, max_size=4)), "units": []}],
                "t": {"units": [[a, k], [b, -k]], "scale": scale}}
    elif kind == "nested":
        elems = draw(_compatible_elems(4))
    else:
        elems = draw(_compatible_elems(draw(st.integers(1, 5))))
    t = draw(G.targets_for(elems[0]["units"]))
    return {"kind": kind, "elems": elems, "t": t}


def build_container(kind, elems):
    import numpy as np
    qs = [_pq(e) for e in elems]
    if kind == "list":
        return qs
    if kind == "tuple":
        return tuple(qs)
    if kind in ("qarray", "qarray2d"):
        return qs[0]
    if kind == "plain_ndarray":
        return np.array(elems[0]["mag"], dtype=float)
    if kind == "objarray":
        arr = np.empty(len(qs), dtype=object)
        for i, x in enumerate(qs):
            arr[i] = x
        return arr
    if kind == "nested":
        return [[qs[0], qs[1]], [qs[2], qs[3]]]
    if kind in ("dict", "dict_of_arrays"):
        return {"k%d" % i: x for i, x in enumerate(qs)}
    raise ValueError(kind)


def container_refs(kind, elems, fn):
    """Nested list (or dict) of reference values fn(elem)."""
    vals = [fn(e) for e in elems]
    if kind in ("qarray", "qarray2d", "plain_ndarray"):
        return vals[0]
    if kind == "nested":
        return [[vals[0], vals[1]], [vals[2], vals[3]]]
    if kind in ("dict", "dict_of_arrays"):
        return {"k%d" % i: v for i, v in enumerate(vals)}
    return vals


def check_containers(case, ctx):
    cu = _cu()
    kind, elems, t = case["kind"], case["elems"], case["t"]
    ctx.label("kind=" + kind)
    allu = [u for e in elems for u in e["units"]]
    _labels(ctx, allu, t["units"])
    if len(set(short(e["units"]) for e in elems)) > 1:
        ctx.label("mixed_units")
    refs = container_refs(kind, elems, lambda e: G.ref_in(e, t))
    flat = _flat(list(refs.values()) if isinstance(refs, dict) else refs)
    if not _in_range(G.target_factor(t), *flat) or not _in_range(*[G.factor(e["units"]) for e in elems]):
        ctx.skip("out_of_double_range")
        return
    unc = sum(G.rel_unc(e["units"]) for e in elems) + G.rel_unc(t["units"])
    got = sut(cu.to_unitless, build_container(kind, elems), G.pq_target(t))
    if is_err(got):
        ctx.fail("compatible_target_rejected", error=repr(got))
        return
    if isinstance(refs, dict):
        if not isinstance(got, dict) or sorted(got) != sorted(refs):
            ctx.fail("dict_keys", got=repr(got)[:200])
            return
        for k in sorted(refs):
            if hasattr(got[k], "dimensionality"):
                ctx.fail("result_carries_unit", key=k, got=repr(got[k])[:100])
                return
            r = refs[k]
            if isinstance(r, list):
                if not _cmp_array(ctx, "elementwise", got[k], r, TOL + unc, key=k):
                    return
            elif not _close(got[k], r, TOL + unc):
                ctx.fail("elementwise", key=k, got=repr(got[k])[:100], expected=float(r))
                return
    else:
        if hasattr(got, "dimensionality"):
            ctx.fail("result_carries_unit", got=repr(got)[:200])
            return
        _cmp_array(ctx, "elementwise", got, refs, TOL + unc)


# ---------------------------------------------------------------------------------------------------------------
# 3. incompatible target must raise
# ---------------------------------------------------------------------------------------------------------------

@st.composite
def incompatible_cases(draw):
    kind = draw(st.sampled_from(["scalar", "scalar", "list", "tuple", "dict", "objarray", "qarray"]))
    if kind == "qarray":
        elems = [draw(G.quantities(max_factors=3, array=4))]
    elif kind == "scalar":
        elems = [draw(G.quantities(max_factors=3))]
    else:
        elems = draw(_compatible_elems(draw(st.integers(1, 4))))
    dv = G.dim(elems[0]["units"])
    t = draw(G.targets_for(elems[0]["units"]))
    modes = ["unit_power", "unit_power", "unit_power", "plain_value"]
    if any(dv):
        modes.append("no_target")
    mode = draw(st.sampled_from(modes))
    d = draw(st.sampled_from(G.DIMS))
    brk = {"mode": mode, "unit": draw(st.sampled_from(G.BASE_UNITS[d])), "delta": draw(st.sampled_from([1, -1])),
           "where": "target", "pos": 0}
    if mode == "unit_power" and kind not in ("scalar", "qarray") and draw(st.booleans()):
        brk["where"] = "element"
        brk["pos"] = draw(st.integers(0, len(elems) - 1))
    if mode == "plain_value" and not any(dv):
        # a plain number is compatible with a dimensionless target: make the target dimensional instead
        brk["mode"] = "unit_power"
    return {"kind": kind, "elems": elems, "t": t, "break": brk}


def check_incompatible(case, ctx):
    import numpy as np
    cu = _cu()
    kind, elems, t, brk = case["kind"], [dict(e) for e in case["elems"]], dict(case["t"]), case["break"]
    ctx.label("kind=" + kind, "mode=" + brk["mode"], "where=" + brk["where"])
    dv = G.dim(elems[0]["units"])
    extra = [brk["unit"], brk["delta"]]
    if brk["mode"] == "unit_power":
        d = G.DIMS.index(G.UNITS[brk["unit"]].kind)
        ctx.label("extra_dimension" if dv[d] == 0 else "exponent_off_by_one")
        if brk["where"] == "target":
            t["units"] = list(t["units"]) + [extra]
        else:
            e = elems[brk["pos"]]
            e["units"] = list(e["units"]) + [extra]
    _labels(ctx, [u for e in elems for u in e["units"]], t["units"])
    if brk["mode"] == "plain_value":
        # numbers without a unit against a dimensional target
        vals = [e["mag"] for e in elems]
        if kind == "scalar":
            value = vals[0]
        elif kind == "qarray":
            value = np.array(vals[0], dtype=float)
        elif kind == "dict":
            value = {"k%d" % i: v for i, v in enumerate(vals)}
        elif kind == "tuple":
            value = tuple(vals)
        elif kind == "objarray":
            value = np.array(vals, dtype=float)
        else:
            value = list(vals)
        got = sut(cu.to_unitless, value, G.pq_target(t))
    elif brk["mode"] == "no_target":
        value = build_container(kind, elems) if kind != "scalar" else _pq(elems[0])
        if brk["delta"] > 0:
            got = sut(cu.to_unitless, value)
        else:
            got = sut(cu.to_unitless, value, 1)
    else:
        if G.dim([u for u in elems[brk["pos"]]["units"]]) == G.dim(t["units"]):
            raise AssertionError("generator produced a compatible pair")
        value = build_container(kind, elems) if kind != "scalar" else _pq(elems[0])
        got = sut(cu.to_unitless, value, G.pq_target(t))
    if not is_err(got):
        ctx.fail("incompatible_target_accepted", returned=repr(got)[:200])


# ---------------------------------------------------------------------------------------------------------------
# 4. physical dimensionality, default unit and magnitude in a registry
# ---------------------------------------------------------------------------------------------------------------

@st.composite
def registry_cases(draw):
    k = draw(st.integers(0, 19))
    if k >= 18:
        # dimensionless by cancellation: the default unit is the number 1
        d = draw(st.sampled_from(G.DIMS))
        a = draw(st.sampled_from(G.BASE_UNITS[d]))
        b = draw(st.sampled_from(G.BASE_UNITS[d]))
        e = draw(st.integers(1, 3))
        elems = [{"mag": draw(G.magnitudes()), "units": [[a, e], [b, -e]] if a != b else [["M", 1], ["dm3", 1], ["mol", -1]]}]
        kind = "scalar"
    elif k >= 13:
        elems = draw(_compatible_elems(draw(st.integers(1, 4))))
        kind = draw(st.sampled_from(["list", "tuple"]))
    else:
        elems = [draw(G.quantities(max_factors=4))]
        kind = "scalar"
    return {"kind": kind, "elems": elems, "reg": draw(G.registries())}


def _dim_equal(got, dimvec):
    exp = G.dim_dict(dimvec)
    if not isinstance(got, dict):
        return False
    if set(got) != set(exp):
        return False
    return all(got[k] == exp[k] for k in exp)


def check_registry(case, ctx):
    cu = _cu()
    kind, elems, reg = case["kind"], case["elems"], case["reg"]
    units0 = elems[0]["units"]
    dv = G.dim(units0)
    _labels(ctx, [u for e in elems for u in e["units"]])
    nsi = G.registry_differs_from_si(reg)
    ctx.label("kind=" + kind, "reg_nonSI=%d" % min(nsi, 4), "dimensionless" if not any(dv) else "dimensional")
    if any(reg[d][1] != 1.0 for d in G.DIMS):
        ctx.label("reg_scaled")
    ctx.nontrivial(nsi >= 2 and G.n_dimensions(units0) >= 2)
    value = _pq(elems[0]) if kind == "scalar" else build_container(kind, elems)
    REG = G.pq_registry(reg)
    # (a) physical dimensionality = vector of non-zero exponents
    got = cu.get_physical_dimensionality(value)
    if not _dim_equal(got, dv):
        ctx.fail("physical_dimensionality", got=repr(got), expected=G.dim_dict(dv))
        return
    rf = G.registry_factor(reg, dv)
    refs = [G.ref_si(e) / rf for e in elems]
    if not _in_range(rf, *refs) or not _in_range(*[G.factor(e["units"]) for e in elems]):
        ctx.skip("out_of_double_range")
        return
    # (b) default unit of the quantity in the registry
    du = cu.default_unit_in_registry(value, REG)
    if not any(dv):
        if hasattr(du, "dimensionality") or du != 1:
            ctx.fail("default_unit_of_dimensionless", got=repr(du)[:100])
            return
    else:
        si, gdv = G.observe(du)
        if tuple(gdv) != tuple(dv):
            ctx.fail("default_unit_dimension", got=list(gdv), expected=list(dv))
            return
        if not _close(si, rf, TOL):
            ctx.fail("default_unit_factor", got=si, expected=float(rf))
            return
    # (c) magnitude in the registry
    unc = sum(G.rel_unc(e["units"]) for e in elems)
    ul = sut(cu.unitless_in_registry, value, REG)
    if is_err(ul):
        ctx.fail("unitless_in_registry_raised", error=repr(ul))
        return
    if hasattr(ul, "dimensionality"):
        ctx.fail("result_carries_unit", got=repr(ul)[:100])
        return
    if kind == "scalar":
        if not _close(ul, refs[0], TOL + unc):
            ctx.fail("unitless_in_registry", got=repr(ul)[:100], expected=float(refs[0]))
    else:
        _cmp_array(ctx, "unitless_in_registry", ul, refs, TOL + unc)


# ---------------------------------------------------------------------------------------------------------------
# 5. derived units of a registry
# ---------------------------------------------------------------------------------------------------------------

def _kd(**kw):
    return tuple(kw.get(d, 0) for d in G.DIMS)


# own dimension table of the keys get_derived_unit knows (SI definitions of the named quantities)
DERIVED_KEYS = {
    "diffusivity": _kd(length=2, time=-1),                                  # m2/s
    "diffusion": _kd(length=2, time=-1),                                    # deprecated alias
    "electrical_mobility": _kd(current=1, time=2, mass=-1),                 # m2/(V s) = A s2/kg
    "permittivity": _kd(current=2, time=4, length=-3, mass=-1),             # F/m = A2 s4/(kg m3)
    "charge": _kd(current=1, time=1),                                       # C = A s
    "energy": _kd(mass=1, length=2, time=-2),                               # J
    "concentration": _kd(amount=1, length=-3),
    "density": _kd(mass=1, length=-3),
    "radiolytic_yield": _kd(amount=1, mass=-1, length=-2, time=2),          # mol/J
    "doserate": _kd(length=2, time=-3),                                     # Gy/s
    "linear_energy_transfer": _kd(mass=1, length=1, time=-2),               # J/m
}
for _d in G.DIMS:
    DERIVED_KEYS[_d] = _kd(**{_d: 1})
DERIVED_KEY_LIST = sorted(DERIVED_KEYS)


@st.composite
def derived_cases(draw):
    return {"reg": draw(G.registries()), "key": draw(st.sampled_from(DERIVED_KEY_LIST))}


ENUM_REGS = [
    dict(G.SI_REGISTRY),
    {"length": ["cm", 1.0], "mass": ["g", 1.0], "time": ["min", 1.0], "current": ["mA", 1.0], "temperature": ["mK", 1.0],
     "amount": ["mmol", 1.0]},
    {"length": ["dm", 1.0], "mass": ["mg", 1.0], "time": ["h", 1.0], "current": ["A", 1e-3], "temperature": ["K", 10.0],
     "amount": ["umol_cp", 1.0]},
    {"length": ["m", 1e3], "mass": ["kg", 1e-2], "time": ["ms", 1.0], "current": ["mA", 2.0], "temperature": ["K", 1.0],
     "amount": ["nmol", 0.5]},
]


def enum_derived(tier):
    for k in DERIVED_KEY_LIST:
        for reg in ENUM_REGS:
            yield {"reg": dict(reg), "key": k}
        yield {"reg": None, "key": k}
    yield {"reg": dict(G.SI_REGISTRY), "key": "luminous_intensity"}


def check_derived(case, ctx):
    cu = _cu()
    reg, key = case["reg"], case["key"]
    ctx.label("key=" + key)
    if reg is None:
        ctx.label("reg=None")
        got = cu.get_derived_unit(None, key)
        if hasattr(got, "dimensionality") or got != 1.0:
            ctx.fail("none_registry_not_one", got=repr(got)[:100])
        return
    REG = G.pq_registry(reg)
    got = cu.get_derived_unit(REG, key)
    if key == "luminous_intensity":
        if got is not REG[key]:
            ctx.fail("base_key_not_registry_entry", key=key)
        return
    dv = DERIVED_KEYS[key]
    nsi = sum(1 for d, e in zip(G.DIMS, dv) if e and Fraction(reg[d][1]) * G.UNITS[reg[d][0]].factor != 1)
    ctx.label("nonSI_in_key=%d" % nsi)
    ctx.nontrivial(nsi >= 2)
    rf = G.registry_factor(reg, dv)
    si, gdv = G.observe(got)
    if tuple(gdv) != tuple(dv):
        ctx.fail("derived_unit_dimension", key=key, got=list(gdv), expected=list(dv))
        return
    if not _close(si, rf, TOL):
        ctx.fail("derived_unit_factor", key=key, got=si, expected=float(rf))


# ---------------------------------------------------------------------------------------------------------------
# 6. human readable round trip of a registry
# ---------------------------------------------------------------------------------------------------------------

# probe (2025-pinned env): these are the table's base/prefixed units that `quantities` registers under their own
# u_symbol; dm, um (µm), umol (µmol), chempy's micromole (μmol) and nanomole are not.  The precondition is evaluated
# again in the check with `quantities` alone.
HR_POOL = {"length": ["m", "cm", "mm", "nm", "km"], "mass": ["kg", "g", "mg"], "time": ["s", "ms", "min", "h"],
           "current": ["A", "mA"], "temperature": ["K", "mK"], "amount": ["mol", "mmol"]}


def check_human_readable(case, ctx):
    import quantities as pq
    cu = _cu()
    reg = case["reg"]
    REG = G.pq_registry(reg)
    for d in G.DIMS:
        u = G.pq_single(reg[d][0])
        try:
            ok = pq.unit_registry[u.u_symbol] is u
        except Exception:  # noqa  (LookupError and friends)
            ok = False
        if not ok:
            ctx.label("outside_domain:symbol_not_registered")
            return
    nsi = G.registry_differs_from_si(reg)
    ctx.label("reg_nonSI=%d" % min(nsi, 4))
    if any(reg[d][1] != 1.0 for d in G.DIMS):
        ctx.label("reg_scaled")
    ctx.nontrivial(nsi >= 2)
    hr = sut(cu.unit_registry_to_human_readable, REG)
    if is_err(hr):
        ctx.fail("to_human_readable_raised", error=repr(hr))
        return
    keys = list(G.DIMS) + ["luminous_intensity"]
    if sorted(hr) != sorted(keys):
        ctx.fail("human_readable_keys", got=sorted(hr))
        return
    for d in G.DIMS:
        f, sym = hr[d]
        # the factor is the magnitude of `scale * unit`: no arithmetic involved, so exact
        if not isinstance(sym, str) or float(f) != float(reg[d][1]):
            ctx.fail("human_readable_entry", dim=d, got=repr(hr[d]), expected=[reg[d][1], reg[d][0]])
            return
    back = sut(cu.unit_registry_from_human_readable, hr)
    if is_err(back):
        ctx.fail("from_human_readable_raised", error=repr(back))
        return
    if sorted(back) != sorted(keys):
        ctx.fail("round_trip_keys", got=sorted(back))
        return
    for d in G.DIMS:
        si, gdv = G.observe(back[d])
        want = Fraction(reg[d][1]) * G.si_factor(reg[d][0])
        if tuple(gdv) != G.dimension(reg[d][0]) or not _close(si, want, TOL):
            ctx.fail("round_trip_unit", dim=d, got=repr(back[d])[:80], got_si=si, expected_si=float(want))
            return
        r = sut(cu.to_unitless, 1 * REG[d], back[d])
        if is_err(r) or not _close(r, Fraction(1), TOL):
            ctx.fail("round_trip_ratio", dim=d, got=repr(r)[:80])
            return
    si, _ = G.observe(back["luminous_intensity"])
    if si != 1.0:
        ctx.fail("round_trip_unit", dim="luminous_intensity", got=repr(back["luminous_intensity"])[:80])
        return
    hr2 = sut(cu.unit_registry_to_human_readable, back)
    if is_err(hr2) or hr2 != hr:
        ctx.fail("second_serialisation_differs", got=repr(hr2)[:300], first=repr(hr)[:300])


# ---------------------------------------------------------------------------------------------------------------
# 7. Backend / patched_numpy transcendental functions
# ---------------------------------------------------------------------------------------------------------------

def _f(fn, d, lo, hi, positive=False):
    return {"f": fn, "d": d, "lo": lo, "hi": hi}


# name -> f, |f'|, admissible argument range (kept where f is finite and well conditioned)
FUNCS = {
    "exp": _f(math.exp, math.exp, -40.0, 40.0),
    "expm1": _f(math.expm1, math.exp, -40.0, 40.0),
    "log": _f(math.log, lambda x: 1 / x, 1e-6, 1e6),
    "log10": _f(math.log10, lambda x: 1 / (x * math.log(10)), 1e-6, 1e6),
    "log2": _f(math.log2, lambda x: 1 / (x * math.log(2)), 1e-6, 1e6),
    "log1p": _f(math.log1p, lambda x: 1 / (1 + x), -0.9, 1e6),
    "sqrt": _f(math.sqrt, lambda x: 0.5 / math.sqrt(x), 1e-6, 1e6),
    "sin": _f(math.sin, lambda x: abs(math.cos(x)), -20.0, 20.0),
    "cos": _f(math.cos, lambda x: abs(math.sin(x)), -20.0, 20.0),
    "tanh": _f(math.tanh, lambda x: 1 - math.tanh(x) ** 2, -20.0, 20.0),
    "sinh": _f(math.sinh, math.cosh, -40.0, 40.0),
    "cosh": _f(math.cosh, lambda x: abs(math.sinh(x)), -40.0, 40.0),
    "atan": _f(math.atan, lambda x: 1 / (1 + x * x), -1e6, 1e6),
    "erf": _f(math.erf, lambda x: 2 / math.sqrt(math.pi) * math.exp(-x * x), -5.0, 5.0),
}
NUMPY_NAME = {"atan": "arctan"}
BACKEND_FUNCS = {
    "math": ["exp", "log", "expm1", "log10", "log2", "log1p", "sqrt", "sin", "cos", "tanh", "sinh", "cosh", "atan", "erf"],
    "numpy": ["exp", "log", "expm1", "log10", "log2", "log1p", "sqrt", "sin", "cos", "tanh", "sinh", "cosh", "atan"],
    "pnp": ["exp", "log", "log10", "log2", "log1p", "expm1", "logaddexp", "logaddexp2"],
}


@st.composite
def _dimensionless_arg(draw, lo, hi, pair=None, x=None):
    """{"mag", "units", "t"}: a quantity divided by a compatible target; mag is chosen so that the simplified
    number lies in [lo, hi] (or is the given x; the reference value is recomputed from mag, not taken from here)."""
    if pair is None:
        units = draw(G.unit_products(1, 2, 2))
        t = draw(G.targets_for(units, split=False, padding=False))
    else:
        units, t = pair["units"], pair["t"]
    if x is None:
        if lo > 0:
            x = float("%de%d" % (draw(st.integers(1, 999)), draw(st.integers(-3, 3))))
        else:
            x = draw(st.integers(-1000, 1000)) / 1000.0 * hi
        x = min(max(x, lo), hi)
    mag = float(Fraction(x) * G.target_factor(t) / G.factor(units))
    return {"mag": mag, "units": units, "t": t}


@st.composite
def _dimensionless_args(draw, lo, hi, form, n):
    first = draw(_dimensionless_arg(lo, hi))
    out = [first]
    for _ in range(n - 1):
        out.append(draw(_dimensionless_arg(lo, hi, pair=first if form == "qarray" else None)))
    return out


# -- functions of several positional arguments ----------------------------------------------------------------
# The wrapper promises that *every* positional argument is made unitless (and refused when a dimension is left
# over).  name -> argument value classes, one per position: ("pos", lo, hi) = positive, log grid; ("sym", hi) =
# non-zero, either sign, |x| <= hi; "fmod" = (x, y) with x = +-(k + frac) * |y| so that the quotient is not near
# an integer (the function is discontinuous there).

MULTI = {
    "pow": [("pos", 0.1, 10.0), ("sym", 5.0)],
    "atan2": [("sym", 100.0), ("sym", 100.0)],
    "hypot": [("sym", 100.0), ("sym", 100.0)],
    "hypot3": [("sym", 100.0), ("sym", 100.0), ("sym", 100.0)],
    "fmod": "fmod",
    "copysign": [("sym", 100.0), ("sym", 100.0)],
    "log_base": [("pos", 1e-3, 1e3), ("pos", 2.0, 1e3)],
    "logaddexp": [("sym", 30.0), ("sym", 30.0)],
    "logaddexp2": [("sym", 30.0), ("sym", 30.0)],
    "maximum": [("sym", 100.0), ("sym", 100.0)],
    "minimum": [("sym", 100.0), ("sym", 100.0)],
}
MULTI_ATTR = {"math": {"pow": "pow", "atan2": "atan2", "hypot": "hypot", "hypot3": "hypot", "fmod": "fmod",
                       "copysign": "copysign", "log_base": "log"},
              "numpy": {"pow": "power", "atan2": "arctan2", "hypot": "hypot", "fmod": "fmod", "copysign": "copysign",
                        "logaddexp": "logaddexp", "logaddexp2": "logaddexp2", "maximum": "maximum",
                        "minimum": "minimum"}}
MULTI_FUNCS = {be: sorted(d, key=list(MULTI).index) for be, d in MULTI_ATTR.items()}


@st.composite
def _value(draw, spec):
    if spec[0] == "pos":
        lo, hi = spec[1], spec[2]
        e = draw(st.integers(math.floor(math.log10(lo)), math.ceil(math.log10(hi)) - 1))
        return min(max(float("%de%d" % (draw(st.integers(10, 99)), e - 1)), lo), hi)
    k = draw(st.integers(-1000, 1000)) or 1000
    return k / 1000.0 * spec[1]


@st.composite
def _multi_values(draw, fn):
    """One value per argument position."""
    spec = MULTI[fn]
    if spec == "fmod":
        y = draw(_value(("sym", 100.0)))
        k = draw(st.integers(0, 40))
        frac = draw(st.sampled_from([0.5, 0.25, 0.75, 0.125, 0.875]))
        sign = draw(st.sampled_from([1.0, -1.0]))
        return [sign * (k + frac) * abs(y), y]
    return [draw(_value(sp)) for sp in spec]


@st.composite
def multi_backend_cases(draw, be):
    """Backend(be).f(a0, a1[, a2]): every position is either plain numbers or a quantity that is dimensionless by
    cancellation (at least one position is); in the `dimensional` variant one position - any - keeps a dimension."""
    fn = draw(st.sampled_from(MULTI_FUNCS[be]))
    form = "scalar" if be == "math" else draw(st.sampled_from(["scalar", "list", "qarray"]))
    n = 1 if form == "scalar" else draw(st.integers(1, 3))
    values = [draw(_multi_values(fn)) for _ in range(n)]          # n rows of `arity` values
    arity = len(values[0])
    # which positions carry units: shrinks towards "only the last one", the class a first-argument-only wrapper misses
    mask = draw(st.sampled_from([m for m in range(1, 2 ** arity)]))
    margs = []
    for p in range(arity):
        if (mask >> (arity - 1 - p)) & 1:
            elems, first = [], None
            for row in values:
                a = draw(_dimensionless_arg(0, 0, pair=first if form == "qarray" else None, x=row[p]))
                first = first or a
                elems.append(a)
            margs.append({"kind": "q", "elems": elems})
        else:
            margs.append({"kind": "p", "elems": [{"x": row[p]} for row in values]})
    case = {"be": be, "fn": fn, "form": form, "margs": margs, "dimensional": draw(st.integers(0, 9)) >= 6}
    if case["dimensional"]:
        d = draw(st.sampled_from(G.DIMS))
        case["extra"] = [draw(st.sampled_from(G.BASE_UNITS[d])), draw(st.sampled_from([1, -1]))]
        case["extra_pos"] = arity - 1 - draw(st.integers(0, arity - 1))
    return case


@st.composite
def backend_cases(draw):
    be = draw(st.sampled_from(["math", "numpy", "pnp"]))
    if be != "pnp" and draw(st.integers(0, 9)) >= 6:
        return draw(multi_backend_cases(be))
    fn = draw(st.sampled_from(BACKEND_FUNCS[be]))
    two = fn in ("logaddexp", "logaddexp2")
    lo, hi = (-30.0, 30.0) if two else (FUNCS[fn]["lo"], FUNCS[fn]["hi"])
    form = "scalar" if be == "math" else draw(st.sampled_from(["scalar", "list", "qarray"]))
    n = 1 if form == "scalar" else draw(st.integers(1, 4))
    case = {"be": be, "fn": fn, "form": form, "args": draw(_dimensionless_args(lo, hi, form, n))}
    if two:
        case["args2"] = draw(_dimensionless_args(lo, hi, form, n))
    # a dimensional argument must raise
    case["dimensional"] = draw(st.integers(0, 9)) >= 7
    if case["dimensional"]:
        d = draw(st.sampled_from(G.DIMS))
        case["extra"] = [draw(st.sampled_from(G.BASE_UNITS[d])), draw(st.sampled_from([1, -1]))]
    return case


def _build_arg(a, extra=None):
    q = _pq({"mag": a["mag"], "units": a["units"], "unc": a.get("unc")})
    v = q / G.pq_target(a["t"])
    if extra is not None:
        v = v * G.pq_unit([extra])
    return v


def _build_args(args, form, extra=None):
    import numpy as np
    if form == "scalar":
        return _build_arg(args[0], extra)
    if form == "list":
        return [_build_arg(a, extra if i == len(args) - 1 else None) for i, a in enumerate(args)]
    a0 = args[0]
    q = _pq({"mag": [a["mag"] for a in args], "units": a0["units"], "unc": a0.get("unc")}) / G.pq_target(a0["t"])
    if extra is not None:
        q = q * G.pq_unit([extra])
    return q


def _build_plain(elems, form, extra=None):
    """Plain numbers in the given form; with `extra` the (last) number is multiplied by that unit."""
    import numpy as np
    xs = [e["x"] for e in elems]
    if form == "scalar":
        return xs[0] if extra is None else xs[0] * G.pq_unit([extra])
    if form == "list":
        return xs if extra is None else xs[:-1] + [xs[-1] * G.pq_unit([extra])]
    arr = np.array(xs, dtype=float)
    return arr if extra is None else arr * G.pq_unit([extra])


def _fmod_exact(x, y):
    """C fmod over Fractions: x - trunc(x / y) * y (sign of x); also returns the fractional part of |x / y|."""
    q = abs(x) / abs(y)
    k = q.numerator // q.denominator
    r = abs(x) - k * abs(y)
    return (r if x >= 0 else -r), q - k


def _multi_reference(fn, xs, eps):
    """(reference value, absolute tolerance) of f(*xs) for exact rational arguments xs that chempy only knows to a
    relative accuracy eps each: first-order propagation sum_i |x_i| |df/dx_i| eps plus eps |f| for f's own rounding.
    Returns None where the result is not judged."""
    x = [float(v) for v in xs]
    if fn == "pow":
        ref = x[0] ** x[1]                                         # d/dx: y x**(y-1); d/dy: ln(x) x**y
        return ref, eps * abs(ref) * (1 + abs(x[1]) + abs(x[1] * math.log(x[0])))
    if fn == "atan2":
        ref = math.atan2(x[0], x[1])                               # |x dy - y dx| / (x2 + y2) <= eps
        return ref, eps * (abs(ref) + 1)
    if fn in ("hypot", "hypot3"):
        ref = math.sqrt(sum(v * v for v in x))                     # homogeneous of degree 1
        return ref, 2 * eps * ref
    if fn == "fmod":
        r, frac = _fmod_exact(xs[0], xs[1])
        if not (Fraction(1, 20) <= frac <= Fraction(19, 20)):
            return None                                            # next to a jump of the function
        return float(r), eps * (2 * abs(x[0]) + abs(x[1]))         # x e1 - k y e2 with k |y| <= |x|
    if fn == "copysign":
        return math.copysign(abs(x[0]), x[1]), eps * abs(x[0])
    if fn == "log_base":
        lb = math.log(x[1])
        ref = math.log(x[0]) / lb                                  # d/dx: 1/(x ln b); d/db: -ln x/(b ln(b)**2)
        return ref, eps * (abs(ref) + (1 + abs(ref)) / abs(lb))
    if fn in ("logaddexp", "logaddexp2"):
        base = math.e if fn == "logaddexp" else 2.0
        m = max(x)
        ref = m + math.log(base ** (x[0] - m) + base ** (x[1] - m), base)
        return ref, eps * (abs(x[0]) + abs(x[1]) + abs(ref)) + 1e-15     # |d/dx| + |d/dy| = 1
    if fn in ("maximum", "minimum"):
        return (max(x) if fn == "maximum" else min(x)), eps * (abs(x[0]) + abs(x[1]))
    raise ValueError(fn)


def check_backend_multi(case, ctx):
    import numpy as np
    cu = _cu()
    be, fn, form, margs = case["be"], case["fn"], case["form"], case["margs"]
    arity = len(margs)
    qpos = "".join("q" if m["kind"] == "q" else "p" for m in margs)
    ctx.label("be=" + be, "fn=" + fn, "form=" + form, "arity=%d" % arity, "positions=" + qpos)
    qel = [a for m in margs if m["kind"] == "q" for a in m["elems"]]
    allu = [u for a in qel for u in a["units"]] + [u for a in qel for u in a["t"]["units"]]
    later = any(m["kind"] == "q" and any(G.ref_in({"mag": a["mag"], "units": a["units"]}, a["t"]) != Fraction(a["mag"])
                                         for a in m["elems"]) for m in margs[1:])
    if later:
        ctx.label("later_position_rescaled")
    ctx.nontrivial(G.has_prefix(allu) and later)
    func = getattr(cu.Backend(be), MULTI_ATTR[be][fn])

    def build(extra_pos=None):
        out = []
        for p, m in enumerate(margs):
            extra = case["extra"] if p == extra_pos else None
            out.append(_build_args(m["elems"], form, extra) if m["kind"] == "q" else _build_plain(m["elems"], form, extra))
        return out
    if case.get("dimensional"):
        ctx.label("dimensional_argument", "extra_pos=%d" % case["extra_pos"])
        got = sut(func, *build(case["extra_pos"]))
        if not is_err(got):
            ctx.fail("dimensional_argument_accepted", returned=repr(got)[:200], position=case["extra_pos"])
        return
    n = len(margs[0]["elems"])
    rows = [[G.ref_in({"mag": a["mag"], "units": a["units"]}, a["t"]) if m["kind"] == "q" else Fraction(a["x"])
             for m in margs for a in [m["elems"][i]]] for i in range(n)]
    unc = sum(max(G.rel_unc(a["units"]) + G.rel_unc(a["t"]["units"]) for a in m["elems"]) for m in margs if m["kind"] == "q")
    got = sut(func, *build())
    if is_err(got):
        ctx.fail("dimensionless_argument_rejected", error=repr(got))
        return
    if hasattr(got, "dimensionality"):
        ctx.fail("result_carries_unit", got=repr(got)[:100])
        return
    gl = np.asarray(got, dtype=float).ravel().tolist()
    if len(gl) != n:
        ctx.fail("result_length", got=len(gl), expected=n)
        return
    for i, xs in enumerate(rows):
        rt = _multi_reference(fn, xs, TOL + unc)
        if rt is None:
            ctx.label("near_discontinuity:not_judged")
            continue
        ref, tol = rt
        if not _finite(gl[i]) or abs(gl[i] - ref) > tol:
            ctx.fail("function_value", index=i, got=gl[i], expected=ref, x=[float(v) for v in xs], positions=qpos)
            return


def check_backend(case, ctx):
    if "margs" in case:
        return check_backend_multi(case, ctx)
    cu = _cu()
    be, fn, form = case["be"], case["fn"], case["form"]
    ctx.label("be=" + be, "fn=" + fn, "form=" + form)
    args = case["args"]
    allu = [u for a in args for u in a["units"]] + [u for a in args for u in a["t"]["units"]]
    if G.has_prefix(allu):
        ctx.label("prefixed")
    ctx.nontrivial(G.has_prefix(allu))
    if be == "pnp":
        func = getattr(cu.patched_numpy, fn)
    else:
        func = getattr(cu.Backend(be), NUMPY_NAME.get(fn, fn) if be == "numpy" else fn)
    two = "args2" in case
    if case.get("dimensional"):
        ctx.label("dimensional_argument")
        v = _build_args(args, form, case["extra"])
        got = sut(func, v, *([_build_args(case["args2"], form)] if two else []))
        if not is_err(got):
            ctx.fail("dimensional_argument_accepted", returned=repr(got)[:200])
        return
    xs = [G.ref_in({"mag": a["mag"], "units": a["units"]}, a["t"]) for a in args]
    unc = max(G.rel_unc(a["units"]) + G.rel_unc(a["t"]["units"]) for a in args)
    v = _build_args(args, form)
    if two:
        ys = [G.ref_in({"mag": a["mag"], "units": a["units"]}, a["t"]) for a in case["args2"]]
        unc += max(G.rel_unc(a["units"]) + G.rel_unc(a["t"]["units"]) for a in case["args2"])
        got = sut(func, v, _build_args(case["args2"], form))
    else:
        got = sut(func, v)
    if is_err(got):
        ctx.fail("dimensionless_argument_rejected", error=repr(got))
        return
    if hasattr(got, "dimensionality"):
        ctx.fail("result_carries_unit", got=repr(got)[:100])
        return
    import numpy as np
    gl = np.asarray(got, dtype=float).ravel().tolist()
    if len(gl) != len(xs):
        ctx.fail("result_length", got=len(gl), expected=len(xs))
        return
    for i, x in enumerate(xs):
        xf = float(x)
        if two:
            yf = float(ys[i])
            base = math.e if fn == "logaddexp" else 2.0
            m = max(xf, yf)
            ref = m + math.log(base ** (xf - m) + base ** (yf - m), base)
            # |d/dx| + |d/dy| <= 1: absolute error of the result <= absolute error of the arguments
            tol = (TOL + unc) * (abs(xf) + abs(yf) + abs(ref)) + 1e-15
        else:
            spec = FUNCS[fn]
            ref = spec["f"](xf)
            # the argument carries a relative conversion error <= TOL (+ CODATA slack): first-order propagation
            # |f'(x)| |x| eps, plus the rounding of f itself
            tol = (TOL + unc) * (abs(ref) + abs(xf) * abs(spec["d"](xf))) + 1e-300
        if not _finite(gl[i]) or abs(gl[i] - ref) > tol:
            ctx.fail("function_value", index=i, got=gl[i], expected=ref, x=xf)
            return


# ---------------------------------------------------------------------------------------------------------------
# 8. unit-aware array helpers
# ---------------------------------------------------------------------------------------------------------------

def _helper(cu, name, via):
    return getattr(cu.patched_numpy if via == "pnp" else cu, name)


def _si_list(elems):
    return [G.ref_si(e) for e in elems]


def _mag_for(si_value, units):
    """float magnitude that expresses the SI value `si_value` (Fraction) in `units`."""
    return float(si_value / G.factor(units))


@st.composite
def allclose_cases(draw):
    form = draw(st.sampled_from(["scalar", "list", "qarray"]))
    n = 1 if form == "scalar" else draw(st.integers(1, 4))
    units = draw(G.unit_products(1, 3, 2, derived=False))
    dv = G.dim(units)
    bunits = draw(G.compatible_units(dv, derived=False))
    rtol = draw(st.sampled_from([1e-8, 1e-3, 1e-6, 1e-10]))
    atol = None
    if draw(st.integers(0, 9)) >= 7:
        atol = {"mag": draw(G.magnitudes(signed=False, decades=4)), "units": draw(G.compatible_units(dv, derived=False))}
    thetas = draw(st.lists(st.sampled_from([0.0, 0.25, -0.25, 4.0, -4.0, 100.0, 0.5, -0.5]), min_size=n, max_size=n))
    a, b = [], []
    for i in range(n):
        au = units if (form == "qarray" or i == 0 or draw(st.booleans())) else draw(G.compatible_units(dv, derived=False))
        bu = bunits if (form == "qarray" or i == 0 or draw(st.booleans())) else draw(G.compatible_units(dv, derived=False))
        qa = {"mag": draw(G.magnitudes(decades=4)), "units": au}
        sa = G.ref_si(qa)
        lim = abs(sa) * Fraction(rtol) + (G.ref_si(atol) if atol else 0)
        sb = sa + Fraction(thetas[i]) * lim
        a.append(qa)
        b.append({"mag": _mag_for(sb, bu), "units": bu})
    # operands with an error bar (quantities.UncertainQuantity): first, second or both; sometimes atol too
    uq = draw(st.sampled_from(["none", "b", "a", "both", "none", "b"]))
    for which, elems in (("a", a), ("b", b)):
        if uq in (which, "both"):
            for i, e in enumerate(elems):
                if form != "list" or i == 0 or draw(st.booleans()):
                    e["unc"] = 0.01
    if atol and draw(st.integers(0, 3)) == 3:
        atol["unc"] = 0.01
    return {"form": form, "a": a, "b": b, "rtol": rtol, "atol": atol, "via": draw(st.sampled_from(["units", "pnp"]))}


def _build_form(form, elems):
    import numpy as np
    if form == "scalar":
        return _pq(elems[0])
    if form == "qarray":
        return _pq({"mag": [e["mag"] for e in elems], "units": elems[0]["units"], "unc": elems[0].get("unc")})
    return [_pq(e) for e in elems]


def check_allclose(case, ctx):
    cu = _cu()
    form, a, b, rtol, atol = case["form"], case["a"], case["b"], case["rtol"], case["atol"]
    ctx.label("form=" + form, "atol" if atol else "no_atol")
    ua, ub = _has_uncertain(a), _has_uncertain(b)
    ctx.label("uncertain=%s" % ("both" if ua and ub else "a" if ua else "b" if ub else "none"))
    if atol and atol.get("unc"):
        ctx.label("uncertain_atol")
    allu = [u for e in a + b for u in e["units"]]
    _labels(ctx, allu)
    # expected from the description: every |a_i - b_i| <= rtol*|a_i| + atol, all in SI; cases within 10 % of the
    # boundary (or where chempy's |a|-based and numpy's |b|-based limits could disagree) are not judged
    verdicts = []
    for qa, qb in zip(a, b):
        sa, sb = G.ref_si(qa), G.ref_si(qb)
        at = G.ref_si(atol) if atol else Fraction(0)
        d = abs(sa - sb)
        lim_a = abs(sa) * Fraction(rtol) + at
        lim_b = abs(sb) * Fraction(rtol) + at
        lo, hi = min(lim_a, lim_b), max(lim_a, lim_b)
        if d == 0 or d <= lo * Fraction(9, 10):
            verdicts.append(True)
        elif d >= hi * Fraction(11, 10):
            verdicts.append(False)
        else:
            verdicts.append(None)
    if any(v is False for v in verdicts):
        expected = False
    elif any(v is None for v in verdicts):
        ctx.label("borderline_not_judged")
        return
    else:
        expected = True
    ctx.label("expected=%s" % expected)
    kw = {"rtol": rtol}
    if atol:
        kw["atol"] = _pq(atol)
    got = _helper(cu, "allclose", case["via"])(_build_form(form, a), _build_form(form, b), **kw)
    if bool(got) != expected:
        # signature of known finding C09-allclose-plain-vs-scaled-dimensionless: a pair made of a plain number and a
        # quantity that is dimensionless by cancellation with a unit factor != 1 (e.g. 1.0 vs 1000 mA/A)
        def _plain(q):
            return not q["units"]

        def _scaled_dimensionless(q):
            return bool(q["units"]) and not any(G.dim(q["units"])) and G.factor(q["units"]) != 1
        mixed = any((_plain(qa) and _scaled_dimensionless(qb)) or (_plain(qb) and _scaled_dimensionless(qa))
                    for qa, qb in zip(a, b))
        ctx.fail("allclose", got=repr(bool(got)), expected=expected, plain_vs_scaled_dimensionless=mixed)


@st.composite
def _members_of_dim(draw, units0, n, signed=True, decades=8):
    """n scalar quantity descriptions of the dimension of units0, each in units0 or in another compatible unit
    (never an empty unit list: a plain number is a different input class)."""
    dv = G.dim(units0)
    out = []
    for _ in range(n):
        units = _or(draw(G.compatible_units(dv)), units0) if draw(st.booleans()) else units0
        out.append({"mag": draw(G.magnitudes(signed=signed, decades=decades)), "units": units})
    return out


def _build_member(form, elems):
    """list / tuple of scalar quantities (each in its own unit), or one Quantity array in the unit of elems[0]."""
    import numpy as np
    if form == "qarray":
        return _pq({"mag": [e["mag"] for e in elems], "units": elems[0]["units"], "unc": elems[0].get("unc")})
    qs = [_pq(e) for e in elems]
    return tuple(qs) if form == "tuple" else qs


@st.composite
def spacing_cases(draw, log=False):
    units = draw(G.unit_products(1, 3, 2))
    stop_units = draw(G.compatible_units(G.dim(units)))
    if draw(st.integers(0, 9)) >= 7:
        # vector end points: lists / tuples of scalar quantities in different compatible units (or a Quantity array)
        n = draw(st.integers(1, 3))
        ends = {}
        for which, u0 in (("start", units), ("stop", _or(stop_units, units))):
            form = draw(st.sampled_from(["list", "tuple", "qarray"]))
            elems = draw(_members_of_dim(u0, n, signed=not log, decades=5))
            if form == "qarray":
                for e in elems:
                    e["units"] = elems[0]["units"]
            ends[which] = {"form": form, "elems": elems}
        return {"vec": True, "start": ends["start"], "stop": ends["stop"],
                "num": draw(st.sampled_from([3, 2, 5, 1, 4])), "via": draw(st.sampled_from(["units", "pnp"]))}
    plain = draw(st.integers(0, 19)) == 19
    if plain:
        units, stop_units = [], []
    return {"start": {"mag": draw(G.magnitudes(signed=not log, decades=5)), "units": units},
            "stop": {"mag": draw(G.magnitudes(signed=not log, decades=5)), "units": stop_units},
            "num": draw(st.sampled_from([3, 2, 5, 1, 9, 4, 7, 50])), "via": draw(st.sampled_from(["units", "pnp"]))}


def _q_or_number(qd):
    return _pq(qd) if qd["units"] else qd["mag"]


def _check_spacing_vec(case, ctx, log):
    """start / stop are vectors: the result is (num, n), column j spaced between start_j and stop_j (SI values)."""
    import numpy as np
    cu = _cu()
    s, e, num = case["start"], case["stop"], case["num"]
    allu = [u for x in s["elems"] + e["elems"] for u in x["units"]]
    _labels(ctx, allu)
    ctx.label("num=%d" % num, "vector:start=%s,stop=%s" % (s["form"], e["form"]))
    for end in (s, e):
        if end["form"] != "qarray" and len(set(short(x["units"]) for x in end["elems"])) > 1:
            ctx.label("mixed_units_in_container")
    ss, se = [G.ref_si(x) for x in s["elems"]], [G.ref_si(x) for x in e["elems"]]
    if not _in_range(*(ss + se)) or not _in_range(*[G.factor(x["units"]) for x in s["elems"] + e["elems"]]):
        ctx.skip("out_of_double_range")
        return
    a, b = _build_member(s["form"], s["elems"]), _build_member(e["form"], e["elems"])
    got = cu.logspace_from_lin(a, b, num) if log else _helper(cu, "linspace", case["via"])(a, b, num)
    si, dv = G.observe(got)
    name = "logspace" if log else "linspace"
    if tuple(dv) != G.dim(s["elems"][0]["units"]):
        ctx.fail(name + "_dimension", got=list(dv))
        return
    arr = np.asarray(si, dtype=float)
    if arr.shape != (num, len(ss)):
        ctx.fail(name + "_shape", got=list(arr.shape), expected=[num, len(ss)])
        return
    unc = sum(G.rel_unc(x["units"]) for x in s["elems"] + e["elems"])
    for j in range(len(ss)):
        if log:
            import mpmath
            mpmath.mp.dps = 30
            ls = mpmath.log(mpmath.mpf(ss[j].numerator) / ss[j].denominator)
            le = mpmath.log(mpmath.mpf(se[j].numerator) / se[j].denominator)
            for i in range(num):
                ref = float(mpmath.exp(ls + (le - ls) * i / max(num - 1, 1)))
                if not _finite(arr[i, j]) or abs(arr[i, j] - ref) > (10 * TOL + unc) * abs(ref):     # as in the scalar case
                    ctx.fail("logspace", index=[i, j], got=float(arr[i, j]), expected=ref)
                    return
        else:
            refs = [ss[j] + (se[j] - ss[j]) * Fraction(i, max(num - 1, 1)) for i in range(num)]
            if not _cmp_array(ctx, "linspace", arr[:, j], refs, 4 * TOL + unc, scale=max(abs(ss[j]), abs(se[j])), column=j):
                return


def check_linspace(case, ctx):
    if case.get("vec"):
        return _check_spacing_vec(case, ctx, log=False)
    cu = _cu()
    s, e, num = case["start"], case["stop"], case["num"]
    _labels(ctx, s["units"], e["units"])
    ctx.label("num=%d" % num, "plain" if not s["units"] else "quantity")
    ss, se = G.ref_si(s), G.ref_si(e)
    if not _in_range(ss, se, G.factor(s["units"]), G.factor(e["units"])):
        ctx.skip("out_of_double_range")
        return
    got = _helper(cu, "linspace", case["via"])(_q_or_number(s), _q_or_number(e), num)
    si, dv = G.observe(got)
    if tuple(dv) != G.dim(s["units"]):
        ctx.fail("linspace_dimension", got=list(dv))
        return
    refs = [ss + (se - ss) * Fraction(i, max(num - 1, 1)) for i in range(num)]
    unc = G.rel_unc(s["units"]) + G.rel_unc(e["units"])
    # interior points are differences of the end points: tolerance relative to the larger end point
    _cmp_array(ctx, "linspace", si, refs, 4 * TOL + unc, scale=max(abs(ss), abs(se)))


def check_logspace(case, ctx):
    if case.get("vec"):
        return _check_spacing_vec(case, ctx, log=True)
    import numpy as np
    cu = _cu()
    s, e, num = case["start"], case["stop"], case["num"]
    _labels(ctx, s["units"], e["units"])
    ctx.label("num=%d" % num, "plain" if not s["units"] else "quantity")
    ss, se = G.ref_si(s), G.ref_si(e)
    if not _in_range(ss, se, G.factor(s["units"]), G.factor(e["units"])):
        ctx.skip("out_of_double_range")
        return
    got = cu.logspace_from_lin(_q_or_number(s), _q_or_number(e), num)
    si, dv = G.observe(got)
    if tuple(dv) != G.dim(s["units"]):
        ctx.fail("logspace_dimension", got=list(dv))
        return
    arr = np.atleast_1d(np.asarray(si, dtype=float))
    if arr.shape != (num,):
        ctx.fail("logspace_shape", got=list(arr.shape))
        return
    import mpmath
    mpmath.mp.dps = 30
    ls, le = mpmath.log(mpmath.mpf(ss.numerator) / ss.denominator), mpmath.log(mpmath.mpf(se.numerator) / se.denominator)
    unc = G.rel_unc(s["units"]) + G.rel_unc(e["units"])
    for i in range(num):
        ref = float(mpmath.exp(ls + (le - ls) * i / max(num - 1, 1)))
        # exp2(log2(x)) loses |log2 x| ulps (|log2| <= ~830 over the admitted range) -> 1e-12 covers it with slack
        if not _finite(arr[i]) or abs(arr[i] - ref) > (10 * TOL + unc) * abs(ref):
            ctx.fail("logspace", index=i, got=float(arr[i]), expected=ref)
            return


@st.composite
def concat_cases(draw):
    """1-4 members; a member is a Quantity array (one unit) or a plain list / tuple of scalar quantities, each in its
    own compatible unit - in the first and in later positions."""
    if draw(st.integers(0, 9)) >= 7:
        return draw(concat2d_cases())
    n = draw(st.integers(1, 4))
    first = draw(G.quantities(max_factors=3, array=4))
    arrays = []
    for i in range(n):
        form = draw(st.sampled_from(["qarray", "list", "tuple"]))
        if form == "qarray":
            if i == 0:
                arrays.append(first)
            else:
                arrays.append({"mag": draw(st.lists(G.magnitudes(), min_size=1, max_size=4)),
                               "units": _or(draw(G.compatible_units(G.dim(first["units"]))), first["units"])})
        else:
            arrays.append({"form": form, "elems": draw(_members_of_dim(first["units"], draw(st.integers(1, 4))))})
    # numpy's keyword passes through: for 1-D members 0, -1 and None all mean the same as no axis at all
    return {"arrays": arrays, "via": draw(st.sampled_from(["units", "pnp"])),
            "outer": draw(st.sampled_from(["tuple", "list"])), "axis": draw(st.sampled_from(["default", 0, -1, None]))}


AXES_2D = [1, "default", -1, None, 0, -2]


@st.composite
def concat2d_cases(draw):
    """2-4 two-dimensional members (Quantity arrays or nested lists of scalar quantities in their own units) whose
    shapes fit the drawn axis (0 / -2: same number of columns; 1 / -1: same number of rows; None: any)."""
    axis = draw(st.sampled_from(AXES_2D))
    R, C = draw(st.integers(1, 3)), draw(st.integers(1, 3))
    units0 = draw(G.unit_products(1, 3, 2))
    arrays = []
    for i in range(draw(st.integers(2, 4))):
        r, c = draw(st.integers(1, 3)), draw(st.integers(1, 3))
        if axis in ("default", 0, -2):
            c = C
        elif axis in (1, -1):
            r = R
        form = draw(st.sampled_from(["qarray2d", "nested"]))
        if form == "qarray2d":
            units = units0 if i == 0 or draw(st.booleans()) else _or(draw(G.compatible_units(G.dim(units0))), units0)
            arrays.append({"form": form, "mag": [[draw(G.magnitudes()) for _ in range(c)] for _ in range(r)], "units": units})
        else:
            arrays.append({"form": form, "rows": [draw(_members_of_dim(units0, c)) for _ in range(r)]})
    return {"ndim": 2, "arrays": arrays, "axis": axis, "via": draw(st.sampled_from(["units", "pnp"])),
            "outer": draw(st.sampled_from(["tuple", "list"]))}


def check_concatenate2d(case, ctx):
    import numpy as np
    cu = _cu()
    arrays, axis = case["arrays"], case["axis"]
    rows, objs, flatq = [], [], []
    for a in arrays:
        if a["form"] == "qarray2d":
            rows.append(G.ref_si(a))
            objs.append(_pq(a))
            flatq.append(a)
        else:
            rows.append([[G.ref_si(q) for q in row] for row in a["rows"]])
            objs.append([[_pq(q) for q in row] for row in a["rows"]])
            flatq.extend(q for row in a["rows"] for q in row)
    _labels(ctx, [u for q in flatq for u in q["units"]])
    ctx.label("narrays=%d" % len(arrays), "ndim=2", "axis=%s" % (axis,))
    if len(set(short(q["units"]) for q in flatq)) > 1:
        ctx.label("mixed_units")
    refs_all = [x for m in rows for row in m for x in row]
    if not _in_range(*refs_all) or not _in_range(*[G.factor(q["units"]) for q in flatq]):
        ctx.skip("out_of_double_range")
        return
    # the plain routine on the values in one unit, written out: rows appended / rows joined / everything flattened
    if axis is None:
        want, shape = refs_all, (len(refs_all),)
    elif axis in (1, -1):
        want2 = [[x for m in rows for x in m[k]] for k in range(len(rows[0]))]
        want, shape = [x for row in want2 for x in row], (len(want2), len(want2[0]))
    else:
        want2 = [row for m in rows for row in m]
        want, shape = [x for row in want2 for x in row], (len(want2), len(want2[0]))
    kw = {} if axis == "default" else {"axis": axis}
    got = sut(_helper(cu, "concatenate", case["via"]), tuple(objs) if case["outer"] == "tuple" else objs, **kw)
    if is_err(got):
        ctx.fail("concatenate_raised", error=repr(got), axis=repr(axis))
        return
    si, dv = G.observe(got)
    if tuple(dv) != G.dim(flatq[0]["units"]):
        ctx.fail("concatenate_dimension", got=list(dv))
        return
    arr = np.asarray(si, dtype=float)
    if tuple(arr.shape) != tuple(shape):
        ctx.fail("concatenate_shape", got=list(arr.shape), expected=list(shape), axis=repr(axis))
        return
    unc = sum(G.rel_unc(q["units"]) for q in flatq)
    _cmp_array(ctx, "concatenate", arr.ravel(), want, 2 * TOL + unc, axis=repr(axis))


def check_concatenate(case, ctx):
    if case.get("ndim") == 2:
        return check_concatenate2d(case, ctx)
    cu = _cu()
    arrays = case["arrays"]
    members = [a["elems"] if "form" in a else [a] for a in arrays]         # quantity descriptions per member
    flatq = [q for m in members for q in m]
    _labels(ctx, [u for q in flatq for u in q["units"]])
    ctx.label("narrays=%d" % len(arrays))
    for i, a in enumerate(arrays):
        if "form" in a:
            mixed = len(set(short(q["units"]) for q in a["elems"])) > 1
            ctx.label("member:%s%s@%s" % (a["form"], "_mixed_units" if mixed else "", "first" if i == 0 else "later"))
    refs = [x for q in flatq for x in _flat([G.ref_si(q)])]
    if not _in_range(*refs) or not _in_range(*[G.factor(q["units"]) for q in flatq]):
        ctx.skip("out_of_double_range")
        return
    objs = [_build_member(a["form"], a["elems"]) if "form" in a else _pq(a) for a in arrays]
    axis = case.get("axis", "default")
    ctx.label("ndim=1", "axis=%s" % (axis,))
    got = _helper(cu, "concatenate", case["via"])(tuple(objs) if case["outer"] == "tuple" else objs,
                                                  **({} if axis == "default" else {"axis": axis}))
    si, dv = G.observe(got)
    if tuple(dv) != G.dim(flatq[0]["units"]):
        ctx.fail("concatenate_dimension", got=list(dv))
        return
    unc = sum(G.rel_unc(q["units"]) for q in flatq)
    _cmp_array(ctx, "concatenate", si, refs, 2 * TOL + unc)


@st.composite
def tile_cases(draw):
    kind = draw(st.sampled_from(["qarray", "list", "qarray2d", "tuple", "nested"]))
    if kind in ("list", "tuple"):
        elems = draw(_compatible_elems(draw(st.integers(1, 4))))
    elif kind == "nested":
        elems = draw(_compatible_elems(4))          # [[q0, q1], [q2, q3]], every scalar in its own unit
    else:
        q = draw(G.quantities(max_factors=3, array=4))
        if kind == "qarray2d":
            q["mag"] = [q["mag"], [draw(G.magnitudes()) for _ in q["mag"]]]
        elems = [q]
    reps = draw(st.one_of(st.integers(1, 3), st.lists(st.integers(1, 3), min_size=2, max_size=2),
                          st.lists(st.integers(1, 2), min_size=1, max_size=3)))
    return {"kind": kind, "elems": elems, "reps": reps, "via": draw(st.sampled_from(["units", "pnp"])),
            "reps_kw": draw(st.booleans())}


def check_tile(case, ctx):
    import numpy as np
    cu = _cu()
    kind, elems, reps = case["kind"], case["elems"], case["reps"]
    _labels(ctx, [u for e in elems for u in e["units"]])
    ctx.label("kind=" + kind, "reps=%s" % ("int" if isinstance(reps, int) else "tuple%d" % len(reps)))
    if len(set(short(e["units"]) for e in elems)) > 1:
        ctx.label("mixed_units")
    refs = container_refs(kind, elems, G.ref_si)
    flat = _flat(refs)
    if not _in_range(*flat) or not _in_range(*[G.factor(e["units"]) for e in elems]):
        ctx.skip("out_of_double_range")
        return
    rp = reps if isinstance(reps, int) else tuple(reps)
    if case.get("reps_kw"):
        ctx.label("reps_as_keyword")
        got = _helper(cu, "tile", case["via"])(build_container(kind, elems), reps=rp)
    else:
        got = _helper(cu, "tile", case["via"])(build_container(kind, elems), rp)
    si, dv = G.observe(got)
    if tuple(dv) != G.dim(elems[0]["units"]):
        ctx.fail("tile_dimension", got=list(dv))
        return
    # index bookkeeping of the tiling itself is numpy's; the values are compared exactly against the own table
    idx = np.arange(len(flat)).reshape(_shape(refs))
    tidx = np.tile(idx, reps if isinstance(reps, int) else tuple(reps))
    want = [flat[i] for i in tidx.ravel().tolist()]
    arr = np.asarray(si, dtype=float)
    if arr.shape != tidx.shape:
        ctx.fail("tile_shape", got=list(arr.shape), expected=list(tidx.shape))
        return
    unc = sum(G.rel_unc(e["units"]) for e in elems)
    _cmp_array(ctx, "tile", arr.ravel(), want, 2 * TOL + unc)


def _solve_exact(A, b):
    """Gauss-Jordan over Fractions (A square, non-singular)."""
    n = len(A)
    M = [list(r) + [bb] for r, bb in zip(A, b)]
    for c in range(n):
        p = next(r for r in range(c, n) if M[r][c] != 0)
        M[c], M[p] = M[p], M[c]
        piv = M[c][c]
        M[c] = [x / piv for x in M[c]]
        for r in range(n):
            if r != c and M[r][c] != 0:
                f = M[r][c]
                M[r] = [x - f * y for x, y in zip(M[r], M[c])]
    return [M[r][n] for r in range(n)]


@st.composite
def polyfit_cases(draw):
    deg = draw(st.integers(0, 3))
    n = deg + 1 + draw(st.integers(0, 3))
    xs = draw(st.lists(st.integers(-6, 9), min_size=n, max_size=n, unique=True))
    xu = draw(G.unit_products(1, 2, 2))
    yu = draw(G.unit_products(1, 2, 2))
    xscale = draw(st.sampled_from([1.0, 0.5, 10.0, 0.01]))
    form = draw(st.sampled_from(["qarray", "list"]))
    x, y = [], []
    for i, xi in enumerate(xs):
        ux = xu if (form == "qarray" or i == 0 or draw(st.booleans())) else draw(G.compatible_units(G.dim(xu), derived=False))
        uy = yu if (form == "qarray" or i == 0 or draw(st.booleans())) else draw(G.compatible_units(G.dim(yu), derived=False))
        sx = Fraction(xi) * Fraction(xscale) * G.factor(xu)          # SI value; element may use another unit
        x.append({"mag": _mag_for(sx, ux), "units": ux})
        y.append({"mag": draw(G.magnitudes(decades=2)), "units": uy})
    return {"deg": deg, "form": form, "x": x, "y": y, "via": draw(st.sampled_from(["units", "pnp"]))}


def check_polyfit(case, ctx):
    cu = _cu()
    deg, form, x, y = case["deg"], case["form"], case["x"], case["y"]
    _labels(ctx, [u for e in x + y for u in e["units"]])
    ctx.label("deg=%d" % deg, "form=" + form, "exact_fit" if len(x) == deg + 1 else "overdetermined")
    sx, sy = _si_list(x), _si_list(y)
    if not _in_range(*(sx + sy)) or not _in_range(*[G.factor(e["units"]) for e in x + y]):
        ctx.skip("out_of_double_range")
        return
    # exact least squares (normal equations over Fractions) in SI: coefficients highest power first
    V = [[xi ** (deg - j) for j in range(deg + 1)] for xi in sx]
    A = [[sum(V[k][i] * V[k][j] for k in range(len(sx))) for j in range(deg + 1)] for i in range(deg + 1)]
    b = [sum(V[k][i] * sy[k] for k in range(len(sx))) for i in range(deg + 1)]
    coef = _solve_exact(A, b)
    got = sut(_helper(cu, "polyfit", case["via"]), _build_form(form, x), _build_form(form, y), deg)
    if is_err(got):
        ctx.fail("polyfit_raised", error=repr(got))
        return
    if len(got) != deg + 1:
        ctx.fail("polyfit_length", got=len(got))
        return
    X = max(abs(v) for v in sx) or Fraction(1)
    Y = max(abs(v) for v in sy) or Fraction(1)
    dx, dy = G.dim(x[0]["units"]), G.dim(y[0]["units"])
    unc = sum(G.rel_unc(e["units"]) for e in x + y)
    for i, c in enumerate(got):
        si, dv = G.observe(c)
        want_dv = tuple(b_ - (deg - i) * a_ for a_, b_ in zip(dx, dy))
        if tuple(dv) != want_dv:
            ctx.fail("polyfit_coefficient_dimension", index=i, got=list(dv), expected=list(want_dv))
            return
        # numpy's SVD based least squares on <= 7 points of degree <= 3 with |x| <= 9 units: condition number of
        # the scaled Vandermonde matrix < 1e5, so float coefficients agree with the exact ones to ~1e-11 of their
        # natural scale max|y| / max|x|**k; 1e-8 leaves slack and still exposes any wrong unit power (>= a factor)
        scale = Y / X ** (deg - i)
        if not _close(si, coef[i], 1e-8 + unc, scale):
            ctx.fail("polyfit_coefficient", index=i, got=float(si), expected=float(coef[i]))
            return


@st.composite
def polyval_cases(draw):
    deg = draw(st.integers(0, 3))
    xu = draw(G.unit_products(1, 2, 2, derived=False))
    yu = draw(G.unit_products(1, 2, 2))
    dx, dy = G.dim(xu), G.dim(yu)
    p = []
    for i in range(deg + 1):
        dv = tuple(b - (deg - i) * a for a, b in zip(dx, dy))
        # a coefficient of zero dimension is a plain number unless the construction pads it (e.g. J/kJ)
        units = draw(G.compatible_units(dv)) if i < deg else yu
        p.append({"mag": draw(G.magnitudes(decades=2)), "units": units})
    form = draw(st.sampled_from(["scalar", "qarray", "list"]))
    n = 1 if form == "scalar" else draw(st.integers(1, 4))
    x = []
    for i in range(n):
        ux = xu if (form == "qarray" or i == 0) else draw(G.compatible_units(dx, derived=False))
        x.append({"mag": draw(G.magnitudes(decades=2)), "units": ux})
    return {"p": p, "x": x, "form": form, "via": draw(st.sampled_from(["units", "pnp"]))}


def check_polyval(case, ctx):
    import numpy as np
    cu = _cu()
    p, x, form = case["p"], case["x"], case["form"]
    deg = len(p) - 1
    allu = [u for e in p + x for u in e["units"]]
    _labels(ctx, allu)
    ctx.label("deg=%d" % deg, "form=" + form)
    sp, sx = _si_list(p), _si_list(x)
    if not _in_range(*(sp + sx)) or not _in_range(*[G.factor(e["units"]) for e in p + x]):
        ctx.skip("out_of_double_range")
        return
    P = [_pq(e) if e["units"] else e["mag"] for e in p]
    got = sut(_helper(cu, "polyval", case["via"]), P, _build_form(form, x))
    if is_err(got):
        ctx.fail("polyval_raised", error=repr(got))
        return
    si, dv = G.observe(got)
    want_dv = G.dim(p[-1]["units"])
    if tuple(dv) != tuple(want_dv):
        ctx.fail("polyval_dimension", got=list(dv), expected=list(want_dv))
        return
    arr = np.atleast_1d(np.asarray(si, dtype=float))
    if arr.shape != (len(x),):
        ctx.fail("polyval_shape", got=list(arr.shape))
        return
    unc = sum(G.rel_unc(e["units"]) for e in p + x)
    for k, xv in enumerate(sx):
        terms = [c * xv ** (deg - i) for i, c in enumerate(sp)]
        ref = sum(terms)
        scale = sum(abs(t) for t in terms)      # Horner in floats: error relative to the sum of absolute terms
        if not _close(arr[k], ref, 20 * TOL + 4 * unc, scale):
            ctx.fail("polyval", index=k, got=float(arr[k]), expected=float(ref))
            return


@st.composite
def uniform_cases(draw):
    kind = draw(st.sampled_from(["list", "tuple", "dict", "nested"]))
    return {"kind": kind, "elems": draw(_compatible_elems(4 if kind == "nested" else draw(st.integers(1, 5))))}


def check_uniform(case, ctx):
    cu = _cu()
    kind, elems = case["kind"], case["elems"]
    _labels(ctx, [u for e in elems for u in e["units"]])
    ctx.label("kind=" + kind)
    if len(set(short(e["units"]) for e in elems)) > 1:
        ctx.label("mixed_units")
    first = {"units": elems[0]["units"], "scale": 1.0}
    refs_si = _si_list(elems)
    refs_mag = [G.ref_in(e, first) for e in elems]
    if not _in_range(*(refs_si + refs_mag)) or not _in_range(*[G.factor(e["units"]) for e in elems]):
        ctx.skip("out_of_double_range")
        return
    unc = sum(G.rel_unc(e["units"]) for e in elems)
    got = sut(cu.uniform, build_container(kind, elems))
    if is_err(got):
        ctx.fail("uniform_raised", error=repr(got))
        return
    if kind == "dict":
        if not isinstance(got, dict) or sorted(got) != ["k%d" % i for i in range(len(elems))]:
            ctx.fail("uniform_keys", got=repr(got)[:200])
            return
        items = [got["k%d" % i] for i in range(len(elems))]
    else:
        try:
            if kind == "nested":
                items = [got[i][j] for i in range(2) for j in range(2)]
            else:
                items = [got[i] for i in range(len(elems))]
        except Exception as e:  # noqa
            ctx.fail("uniform_not_indexable", got=repr(got)[:200], error=repr(e))
            return
    for i, it in enumerate(items):
        si, dv = G.observe(it)
        if tuple(dv) != G.dim(elems[0]["units"]):
            ctx.fail("uniform_dimension", index=i, got=list(dv))
            return
        if not _close(si, refs_si[i], 2 * TOL + unc):
            ctx.fail("uniform_value", index=i, got=si, expected=float(refs_si[i]))
            return
        # one common unit: the unit of the first element, so the bare magnitudes are the values in that unit
        if not _close(float(cu.magnitude(it)), refs_mag[i], 2 * TOL + unc):
            ctx.fail("uniform_common_unit", index=i, got=float(cu.magnitude(it)), expected=float(refs_mag[i]))
            return


INT_UNITS = {"length": ["km"], "time": ["min", "h"]}     # integer multiples of the SI base unit


@st.composite
def equality_cases(draw):
    cls = draw(st.sampled_from(["same", "integer_multiple", "different_value", "different_dimension"]))
    if cls == "integer_multiple":
        # a in SI base units, b in integer multiples with positive exponents only: every float operation that
        # `quantities` performs on the way is exact, so equality cannot be lost to rounding
        dims = draw(st.lists(st.sampled_from(["length", "time"]), min_size=1, max_size=2, unique=True))
        au, bu = [], []
        for d in dims:
            e = draw(st.integers(1, 2))
            au.append([G.SI_BASE[d], e])
            bu.append([draw(st.sampled_from(INT_UNITS[d])), e])
        if draw(st.booleans()):
            k = draw(st.sampled_from(["mol", "kg", "A"]))
            e = draw(st.sampled_from([1, -1]))
            au.append([k, e])
            bu.append([k, e])
        mb = float(draw(st.integers(1, 500)))
        ma = float(Fraction(mb) * G.factor(bu) / G.factor(au))
        a, b = {"mag": ma, "units": au}, {"mag": mb, "units": bu}
        return {"cls": cls, "a": a, "b": b}
    a = draw(G.quantities(max_factors=3))
    if cls == "same":
        b = {"mag": a["mag"], "units": [list(u) for u in a["units"]]}
    elif cls == "different_value":
        bu = draw(G.compatible_units(G.dim(a["units"])))
        rel = draw(st.sampled_from([2.0, 0.5, 1.001, -1.0, 1000.0, 1.00001]))
        b = {"mag": _mag_for(G.ref_si(a) * Fraction(rel), bu), "units": bu}
    else:
        d = draw(st.sampled_from(G.DIMS))
        extra = [draw(st.sampled_from(G.BASE_UNITS[d])), draw(st.sampled_from([1, -1]))]
        bu = draw(G.compatible_units(G.dim(a["units"])))
        b = {"mag": a["mag"], "units": [list(u) for u in bu] + [extra]}
    return {"cls": cls, "a": a, "b": b}


def check_equality(case, ctx):
    cu = _cu()
    a, b = case["a"], case["b"]
    ctx.label("class=" + case["cls"])
    _labels(ctx, a["units"], b["units"])
    da, db = G.dim(a["units"]), G.dim(b["units"])
    sa, sb = G.ref_si(a), G.ref_si(b)
    if not _in_range(sa, sb, G.factor(a["units"]), G.factor(b["units"])):
        ctx.skip("out_of_double_range")
        return
    if da != db:
        expected = False
    elif sa == sb:
        if case["cls"] not in ("same", "integer_multiple"):
            ctx.label("equal_but_rounding_sensitive:not_judged")
            return
        expected = True
    elif abs(sa - sb) > Fraction(1, 10 ** 7) * max(abs(sa), abs(sb)):
        expected = False       # 1e-7 apart: six orders above any rounding of the rescaling
    else:
        ctx.label("nearly_equal:not_judged")
        return
    got = sut(cu.compare_equality, _pq(a), _pq(b))
    if is_err(got):
        ctx.fail("compare_equality_raised", error=repr(got))
        return
    if bool(got) != expected:
        ctx.fail("compare_equality", got=repr(got), expected=expected)
        return
    got2 = sut(cu.compare_equality, _pq(b), _pq(a))
    if case["cls"] != "integer_multiple" and (is_err(got2) or bool(got2) != expected):
        ctx.fail("compare_equality_swapped", got=repr(got2), expected=expected)


def check_patched_identity(case, ctx):
    """patched_numpy exposes the unit-aware helpers under numpy's names (and numpy itself for the rest)."""
    import numpy as np
    cu = _cu()
    name = case["name"]
    ctx.nontrivial(True)
    obj = getattr(cu.patched_numpy, name)
    if case["patched"]:
        if obj is not getattr(cu, name):
            ctx.fail("patched_numpy_not_the_helper", name=name)
    elif obj is not getattr(np, name):
        ctx.fail("patched_numpy_not_numpy", name=name)


def enum_patched(tier):
    for n in ("allclose", "concatenate", "linspace", "tile", "polyfit", "polyval"):
        yield {"name": n, "patched": True}
    for n in ("array", "sum", "sqrt", "pi"):
        yield {"name": n, "patched": False}


@st.composite
def hr_cases(draw):
    return {"reg": draw(G.registries(choices=HR_POOL))}


def _lab(check):
    def wrapped(case, ctx):
        if _has_uncertain(case):
            ctx.label("uncertain_quantity")
        return check(case, ctx)
    wrapped.__name__ = check.__name__
    return wrapped


SUBCHECKS = [
    SubCheck("convert", _lab(check_convert), strategy=with_uncertain(convert_cases()), quick=1200, thorough=120000,
             rule="scalar q, compatible target t and intermediate: ratio, round trip, composition, linearity",
             tolerances={"ratio_rel": TOL, "codata_units_rel_per_exponent": 5e-7}),
    SubCheck("containers", _lab(check_containers), strategy=with_uncertain(container_cases()), quick=800, thorough=60000,
             rule="list/tuple/Quantity array (1-D, 2-D)/object array/nested list/dict (of scalars, of arrays), mixed "
                  "compatible units: element-wise ratio", tolerances={"rel": TOL}),
    SubCheck("incompatible", _lab(check_incompatible), strategy=with_uncertain(incompatible_cases()), quick=800, thorough=60000,
             rule="one exponent off by +-1 or an extra dimension in the target or in one element of a container; "
                  "plain numbers against a dimensional target; dimensional value without target: must raise"),
    SubCheck("registry", _lab(check_registry), strategy=with_uncertain(registry_cases()), quick=800, thorough=60000,
             rule="get_physical_dimensionality, default_unit_in_registry, unitless_in_registry for random registries",
             tolerances={"rel": TOL}),
    SubCheck("derived", check_derived, strategy=derived_cases(), enumerate=enum_derived, quick=400, thorough=20000,
             rule="get_derived_unit for the 11 derived + 6 base keys against an own dimension table: every key with SI, three "
                  "fixed non-SI registries and None (-> 1.0), plus random (key, registry) pairs",
             tolerances={"rel": TOL}),
    SubCheck("human_readable", check_human_readable, strategy=hr_cases(), quick=300, thorough=20000,
             rule="registries over units registered in `quantities` under their own symbol (m cm mm nm km, kg g mg, "
                  "s ms min h, A mA, K mK, mol mmol) with optional scale: to -> from -> to", tolerances={"rel": TOL}),
    SubCheck("backend", _lab(check_backend), strategy=with_uncertain(backend_cases()), quick=1300, thorough=80000,
             rule="Backend('math'|'numpy').f and patched_numpy.f on q/t with dim(q)=dim(t) (scalar, list, array) = f of "
                  "the exact ratio; an argument with a left-over dimension must raise.  40 % of the Backend cases: "
                  "functions of 2-3 positional arguments (pow/power, atan2/arctan2, hypot, fmod, copysign, log(x, base), "
                  "logaddexp, logaddexp2, maximum, minimum) with the unit-carrying ratio in any non-empty subset of the "
                  "positions (plain numbers elsewhere) and the left-over dimension in any one position",
             tolerances={"rel_on_argument": TOL}),
    SubCheck("allclose", check_allclose, strategy=allclose_cases(), quick=500, thorough=30000,
             rule="b_i = a_i + theta_i*(rtol*|a_i| + atol) in other units, theta in {0, +-.25, +-.5, +-4, 100}; a, b or "
                  "both (and sometimes atol) as UncertainQuantity in two cases out of three"),
    SubCheck("linspace", _lab(check_linspace), strategy=with_uncertain(spacing_cases()), quick=300, thorough=20000, tolerances={"rel_of_max_endpoint": 4 * TOL}),
    SubCheck("logspace", _lab(check_logspace), strategy=with_uncertain(spacing_cases(log=True)), quick=300, thorough=20000, tolerances={"rel": 10 * TOL}),
    SubCheck("concatenate", _lab(check_concatenate), strategy=with_uncertain(concat_cases()), quick=400, thorough=25000, tolerances={"rel": 2 * TOL},
             rule="1-4 members, each a Quantity array or a plain list / tuple of scalar quantities in different compatible "
                  "units (first and later positions); linspace / logspace also with such containers as vector end points, "
                  "tile / uniform also on tuples and nested lists; 30 %: 2-4 two-dimensional members (Quantity arrays / nested "
                  "lists) with axis in {absent, 0, -2, 1, -1, None}, shapes fitted to the axis, values and shape against "
                  "the routine written out on the SI values; tile: reps int / tuples of length 1-3, positional or keyword.  "
                  "In all generated sub-checks except compare_equality one case in five turns a random subset of its "
                  "quantities into quantities.UncertainQuantity (same magnitude and unit, so same reference)"),
    SubCheck("tile", _lab(check_tile), strategy=with_uncertain(tile_cases()), quick=300, thorough=20000, tolerances={"rel": 2 * TOL}),
    SubCheck("polyfit", _lab(check_polyfit), strategy=with_uncertain(polyfit_cases()), quick=300, thorough=20000,
             rule="<= 7 points at distinct integer abscissae, degree <= 3, mixed units; exact rational least squares",
             tolerances={"rel_of_natural_scale": 1e-8}),
    SubCheck("polyval", _lab(check_polyval), strategy=with_uncertain(polyval_cases()), quick=300, thorough=20000,
             tolerances={"rel_of_sum_abs_terms": 20 * TOL}),
    SubCheck("uniform", _lab(check_uniform), strategy=with_uncertain(uniform_cases()), quick=300, thorough=20000, tolerances={"rel": 2 * TOL}),
    SubCheck("compare_equality", check_equality, strategy=equality_cases(), quick=400, thorough=20000,
             rule="same object twice / integer multiples (exact in floats) -> True; >= 1e-7 apart or other dimension -> "
                  "False; equal-up-to-rounding pairs are not judged"),
    SubCheck("patched_numpy", check_patched_identity, enumerate=enum_patched,
             rule="patched_numpy.<helper> is the unit-aware helper, everything else is numpy's"),
]

# -*- coding: utf-8 -*-
"""C13 - the LaTeX / Unicode / HTML names show the same formula that was given.

Oracle = inversion, as the statement words it: an own tokenizer (`invert`) undoes exactly the presentation mapping
of one format (subscript counts, superscript charge written magnitude-then-sign, hydrate separator, radical dot,
greek prefix, LaTeX brace escapes) and copies everything else verbatim; the recovered string has to be the canonical
text of the generated AST (vlib.gen_formula.text(f, canonical=True)).  Anything the tokenizer cannot consume is a
violation ("differs only by presentation").  No chempy function is used to compute an expected value.
"""
import re
from fractions import Fraction

from hypothesis import strategies as st

from vlib import env  # noqa  (sys.path)
from vlib.harness import SubCheck, sut, is_err, short
from vlib import gen_formula as G
from vlib.refdata import GREEK, GREEK_U

PROPERTY = "C13"
LEVEL = "exploration"
RULE = ("G1 formula ASTs (118 symbols, integer/decimal counts, nested ()[]{} groups, hydrate parts, charges, radical / "
        "greek / greek-then-radical prefixes, phase suffixes, primes, the electron) are rendered by chempy from their text; an own tokenizer "
        "undoes exactly the presentation mapping of the format and must recover the canonical text of the AST.  "
        "Non-trivial formula = (a count >= 10 or a decimal count) and (charge magnitude >= 2 or a hydrate part); "
        "species: a suffix together with a custom `phases` argument; reactions (integer coefficients 1..1000 and "
        "fractional ones 0.001..999.999 with 1-3 decimals, built with checks=()): a coefficient != 1 and a key with a "
        "charge or a count; a printed coefficient is read back as a number; ~40 % of the reactions carry inactive "
        "reactants and/or products (1-2 keys), expected behind the active items of their side inside one pair of "
        "parentheses, in stored order.  Distinct by case digest.  'render_long': 36 written-out chains with "
        "300-1200 numeric counts per part.  'prefixes' enumerates all 49 prefixes (24 greek "
        "labels, the radical dot, 24 greek label + radical dot) x 4 bodies.")
ASSUMPTIONS = ["vlib/gen_formula.py canonical text and Fraction composition of the AST (shared reference model of C01)",
               "own transcription of the presentation tables (greek names/letters, sub/superscript digits, arrows: "
               "\\rightarrow \\rightleftharpoons / U+2192 U+21CC / &rarr; &harr;)",
               "decimal subscripts are compared with relative tolerance 1e-9 (chempy sums floats), integers exactly",
               "a fractional reaction coefficient 'n.ddd' is stored as the Python float of that literal; the printed "
               "coefficient may be spelled in any plain/scientific decimal notation but has to denote exactly that float"]

FORMATS = ("latex", "unicode", "html")

SUB_U = u"₀₁₂₃₄₅₆₇₈₉"
SUP_U = u"⁰¹²³⁴⁵⁶⁷⁸⁹"
SUP_SIGN_U = {u"⁺": "+", u"⁻": "-"}

# leading tokens: rendered prefix -> written prefix
_PREFIX = {"latex": [("^\\bullet ", ".")], "unicode": [(u"⋅", ".")], "html": [("&sdot;", ".")]}
for _name, _u in zip(GREEK, GREEK_U):
    _PREFIX["latex"].append((("\\varepsilon-" if _name == "epsilon" else "o-" if _name == "omicron" else "\\" + _name + "-"),
                             _name + "-"))
    _PREFIX["unicode"].append((_u + "-", _name + "-"))
    _PREFIX["html"].append(("&" + _name + ";-", _name + "-"))

_HYD = {"latex": "\\cdot ", "unicode": u"·", "html": "&sdot;"}
ARROWS = {"Reaction": {"latex": "\\rightarrow", "unicode": u"→", "html": "&rarr;"},
          "Equilibrium": {"latex": "\\rightleftharpoons", "unicode": u"⇌", "html": "&harr;"}}

_COUNT_RE = re.compile(r"^[0-9]+(\.[0-9]+)?$")
_CHARGE_RE = re.compile(r"^([0-9]*)([+-])$")
_VERBATIM = set("ABCDEFGHIJKLMNOPQRSTUVWXYZabcdefghijklmnopqrstuvwxyz()[]*'")


class NotInvertible(Exception):
    def __init__(self, pos, why):
        Exception.__init__(self, why)
        self.pos = pos
        self.why = why


def _delimited(s, i, opener, closer):
    """s[i:] starts with opener: return (content, index after closer)."""
    j = s.find(closer, i + len(opener))
    if j < 0:
        raise NotInvertible(i, "unterminated " + opener)
    return s[i + len(opener):j], j + len(closer)


def invert(fmt, s):
    """Undo exactly the presentation mapping of `fmt`; raises NotInvertible at the first thing that is neither
    a presentation token nor verbatim formula text."""
    out = []
    i = 0
    # leading prefix tokens: at most one greek label and one radical dot, each mapped back to its written form in
    # the order shown (the order itself is judged by the comparison with the canonical text: 'alpha-.X' is written
    # greek-then-dot).  In HTML the radical and the hydrate separator are both '&sdot;': a *leading* one (at the
    # start or directly behind the greek token) is the radical.
    kinds = set()
    while len(kinds) < 2:
        for rendered, written in _PREFIX[fmt]:
            kind = "radical" if written == "." else "greek"
            if kind not in kinds and s.startswith(rendered, i):
                out.append(written)
                kinds.add(kind)
                i += len(rendered)
                break
        else:
            break
    body_start = i
    n = len(s)
    hyd = _HYD[fmt]
    charge_seen = False
    while i < n:
        c = s[i]
        # -- subscript (a count: only directly behind an element symbol or a closing bracket) ----
        if ((fmt == "latex" and s.startswith("_{", i)) or (fmt == "html" and s.startswith("<sub>", i))
                or (fmt == "unicode" and c in SUB_U)):
            last = out[-1][-1:] if out else ""
            if not (last.isalpha() or last in (")", "]", "}")):
                raise NotInvertible(i, "subscript does not follow an atom")
        if fmt == "latex" and s.startswith("_{", i):
            body, i2 = _delimited(s, i, "_{", "}")
            if not _COUNT_RE.match(body):
                raise NotInvertible(i, "subscript is not a count")
            out.append(body)
            i = i2
            continue
        if fmt == "html" and s.startswith("<sub>", i):
            body, i2 = _delimited(s, i, "<sub>", "</sub>")
            if not _COUNT_RE.match(body):
                raise NotInvertible(i, "subscript is not a count")
            out.append(body)
            i = i2
            continue
        if fmt == "unicode" and c in SUB_U:
            j = i
            while j < n and s[j] in SUB_U:
                j += 1
            digits = "".join(str(SUB_U.index(x)) for x in s[i:j])
            if j + 1 < n and s[j] == "." and s[j + 1] in SUB_U:   # decimal point inside a subscript stays '.'
                k = j + 1
                while k < n and s[k] in SUB_U:
                    k += 1
                digits += "." + "".join(str(SUB_U.index(x)) for x in s[j + 1:k])
                j = k
            out.append(digits)
            i = j
            continue
        # -- superscript (the charge, magnitude then sign) ------------------------
        sup = None
        if fmt == "latex" and s.startswith("^{", i):
            sup, i2 = _delimited(s, i, "^{", "}")
        elif fmt == "html" and s.startswith("<sup>", i):
            sup, i2 = _delimited(s, i, "<sup>", "</sup>")
        elif fmt == "unicode" and (c in SUP_U or c in SUP_SIGN_U):
            j = i
            while j < n and s[j] in SUP_U:
                j += 1
            if j < n and s[j] in SUP_SIGN_U:
                sup, i2 = "".join(str(SUP_U.index(x)) for x in s[i:j]) + SUP_SIGN_U[s[j]], j + 1
            else:
                raise NotInvertible(i, "superscript without sign")
        if sup is not None:
            m = _CHARGE_RE.match(sup)
            if not m:
                raise NotInvertible(i, "superscript is not magnitude-then-sign")
            if charge_seen:
                raise NotInvertible(i, "second charge")
            charge_seen = True
            out.append(m.group(2) + m.group(1))
            i = i2
            continue
        # -- hydrate separator, followed by the (plain) multiplier ----------------
        if s.startswith(hyd, i):
            if i == body_start:
                raise NotInvertible(i, "separator without a first part")
            out.append("..")
            i += len(hyd)
            j = i
            while j < n and s[j] in "0123456789":
                j += 1
            out.append(s[i:j])
            i = j
            continue
        # -- verbatim text -------------------------------------------------------
        if fmt == "latex" and (s.startswith("\\{", i) or s.startswith("\\}", i)):
            out.append(s[i + 1])
            i += 2
            continue
        if fmt != "latex" and c in "{}":
            out.append(c)
            i += 1
            continue
        if c in _VERBATIM:
            out.append(c)
            i += 1
            continue
        raise NotInvertible(i, "unexpected %r" % s[i:i + 12])
    return "".join(out)


def _renderers():
    from chempy.util.parsing import formula_to_latex, formula_to_unicode, formula_to_html
    return {"latex": formula_to_latex, "unicode": formula_to_unicode, "html": formula_to_html}


def _excerpt(s, pos, width=60):
    """long strings (formulas with hundreds of terms) are shown as a window around the interesting position"""
    if len(s) <= 400:
        return s
    lo = max(0, pos - width)
    return ("..." if lo else "") + s[lo:pos + width] + ("..." if pos + width < len(s) else "")


def _first_difference(a, b):
    n = min(len(a), len(b))
    for i in range(n):
        if a[i] != b[i]:
            return i
    return n


def judge_name(ctx, fmt, rendered, canon, what, txt):
    """rendered must be a str that inverts to canon."""
    if not isinstance(rendered, str):
        ctx.fail("not_a_string:%s:%s" % (what, fmt), text=short(txt, 400), got=repr(rendered)[:200])
        return False
    try:
        back = invert(fmt, rendered)
    except NotInvertible as e:
        ctx.fail("not_invertible:%s:%s" % (what, fmt), text=short(txt, 400), rendered=_excerpt(rendered, e.pos), at=e.pos,
                 why=e.why)
        return False
    if back != canon:
        d = _first_difference(back, canon)
        ctx.fail("inverse_differs:%s:%s" % (what, fmt), text=short(txt, 400), rendered=short(rendered, 400),
                 recovered=_excerpt(back, d), canonical=_excerpt(canon, d))
        return False
    return True


def _formula_nontrivial(s):
    return bool((s["bigcount"] or s["decimal"]) and (s["charge"] >= 2 or s["hydrate"]))


def check_render(case, ctx):
    txt = G.text(case)
    canon = G.text(case, canonical=True)
    lbls, s = G.labels(case)
    ctx.label(*lbls)
    if s["prefix"] and s["prefix"] != ".":
        ctx.label("greek=" + s["prefix"].rstrip(".")[:-1])
    ctx.nontrivial(_formula_nontrivial(s))
    for fmt, fn in _renderers().items():
        got = sut(fn, txt)
        if is_err(got):
            ctx.fail("valid_formula_rejected:" + fmt, text=txt, error=repr(got))
            continue
        judge_name(ctx, fmt, got, canon, "formula", txt)


# -- enumerated prefixes -------------------------------------------------------------

def _el(sym, count=""):
    return {"el": sym, "count": count, "primes": ""}


_PREFIX_BODIES = [
    {"parts": [{"n": 1, "terms": [_el("Fe"), _el("O"), _el("O"), _el("H")]}], "charge": None, "suffix": "(s)"},
    {"parts": [{"n": 1, "terms": [_el("Al", "2"), _el("O", "3")]}], "charge": None, "suffix": ""},
    {"parts": [{"n": 1, "terms": [_el("N"), _el("H"), _el("O")]}], "charge": {"sign": "-", "mag": 1, "explicit1": False},
     "suffix": "(aq)"},
    {"parts": [{"n": 1, "terms": [{"br": "(", "terms": [_el("N"), _el("H", "4")], "count": "2", "primes": ""}, _el("S", "12")]},
               {"n": 12, "terms": [_el("H", "2"), _el("O")]}], "charge": {"sign": "+", "mag": 3, "explicit1": False},
     "suffix": ""},
]


def enum_prefixes(tier):
    for pre in [g + "-" for g in GREEK] + ["."] + [g + "-." for g in GREEK]:
        for b in _PREFIX_BODIES:
            f = {"prefix": pre, "hyd": "..", "electron": False}
            f.update(b)
            yield f


# -- long formulas (every count becomes a subscript, however many there are) ------------------------------

def _grp(br, terms, count):
    return {"br": br, "terms": terms, "count": count, "primes": ""}


# repeat unit -> (terms, numeric counts per unit)
_LONG_UNITS = {
    "C2H5": ([_el("C", "2"), _el("H", "5")], 2),
    "CH2": ([_el("C"), _el("H", "2")], 1),
    "(CH2)2": ([_grp("(", [_el("C"), _el("H", "2")], "2")], 2),
    "Si12O2.5": ([_el("Si", "12"), _el("O", "2.5")], 2),
}


def long_formula(case):
    """case: {"unit": key of _LONG_UNITS, "counts": number of numeric counts wanted in the long part,
    "where": "first" | "hydrate" | "both", "charge": None | {...}, "suffix": str} -> G1 AST.
    The long part is  CH3 + unit * n + CH3  (a chain written out structurally, two counts in the end groups)."""
    terms, per = _LONG_UNITS[case["unit"]]
    n = (case["counts"] - 2) // per
    chain = [_el("C"), _el("H", "3")] + [dict(t) for _ in range(n) for t in terms] + [_el("C"), _el("H", "3")]
    short_part = [_el("Na"), _el("Cl")]
    if case["where"] == "first":
        parts = [{"n": 1, "terms": chain}]
    elif case["where"] == "hydrate":
        parts = [{"n": 1, "terms": short_part}, {"n": 3, "terms": chain}]
    else:
        parts = [{"n": 1, "terms": chain}, {"n": 12, "terms": chain}]
    return {"prefix": "", "hyd": "..", "electron": False, "parts": parts, "charge": case["charge"],
            "suffix": case["suffix"]}


def enum_long(tier):
    i = 0
    for counts in (300, 600, 1200):
        for unit in sorted(_LONG_UNITS):
            for where in ("first", "hydrate", "both"):
                i += 1
                yield {"unit": unit, "counts": counts, "where": where,
                       "charge": {"sign": "-+"[i % 2], "mag": 1 + i % 3, "explicit1": False} if i % 2 else None,
                       "suffix": ["", "(s)", "(aq)"][i % 3]}


def check_render_long(case, ctx):
    f = long_formula(case)
    ctx.label("counts=%d" % case["counts"], "unit=" + case["unit"], "long_part=" + case["where"])
    check_render(f, ctx)
    ctx.nontrivial(True)


# -- the tokenizer itself: a plain digit behind an atom is not presentation --------------------------------------

_TOKENIZER_UNITS = [
    # (format, rendered, recovered text | None = must be refused)
    ("latex", "H_{2}O", "H2O"), ("unicode", u"H₂O", "H2O"), ("html", "H<sub>2</sub>O", "H2O"),
    ("latex", "CH_{2}CH3", None), ("unicode", u"CH₂CH3", None), ("html", "CH<sub>2</sub>CH3", None),
    ("latex", "H2O", None), ("unicode", "H2O", None), ("html", "H2O", None),
    ("latex", "(NH_{4})2SO_{4}", None), ("unicode", u"(NH₄)2SO₄", None), ("html", "(NH<sub>4</sub>)2SO<sub>4</sub>", None),
    ("latex", "Fe_{12}.5O", None), ("unicode", u"Fe₁₂.5O", None),
    ("latex", "CuSO_{4}\\cdot 5H_{2}O", "CuSO4..5H2O"), ("unicode", u"CuSO₄·5H₂O", "CuSO4..5H2O"),
    ("html", "CuSO<sub>4</sub>&sdot;5H<sub>2</sub>O", "CuSO4..5H2O"),
    ("latex", "CuSO_{4}\\cdot 5H2O", None), ("unicode", u"CuSO₄·5H2O", None),
    ("latex", "\\alpha-^\\bullet NO_{2}", "alpha-.NO2"), ("html", "&sdot;&alpha;-NO<sub>2</sub>", ".alpha-NO2"),
    ("latex", "Fe^{3+}", "Fe+3"), ("latex", "Fe^{+3}", None), ("unicode", u"Fe³⁺", "Fe+3"), ("unicode", u"Fe3⁺", None),
]


def enum_tokenizer(tier):
    for fmt, rendered, expect in _TOKENIZER_UNITS:
        yield {"fmt": fmt, "rendered": rendered, "expect": expect}


def check_tokenizer(case, ctx):
    """unit cases of the oracle's own tokenizer (no chempy involved): a wrong answer is an error of this module
    (harness error, exit 2), not a violation of the property."""
    ctx.label("fmt=" + case["fmt"], "expect=" + ("refuse" if case["expect"] is None else "recover"))
    ctx.nontrivial(case["expect"] is None)
    try:
        got = invert(case["fmt"], case["rendered"])
    except NotInvertible:
        got = None
    if got != case["expect"]:
        raise AssertionError("tokenizer unit case %r: got %r" % (case, got))


# -- Substance / Species ---------------------------------------------------------------

def compare_composition(ctx, got, expected, what, txt, exact):
    """got: chempy's mapping; expected {Z: Fraction} (key 0 = charge, only when written).  exact=False: a decimal
    subscript is written, chempy sums floats -> relative tolerance 1e-9 (float rounding of <= 10^2 terms of
    magnitude <= 10^8 is far below that); integer results are compared exactly."""
    if not isinstance(got, dict):
        ctx.fail("composition_not_a_mapping:" + what, text=txt, got=repr(got)[:200])
        return
    g = {k: v for k, v in got.items() if not (k == 0 and v == 0)}
    e = {k: v for k, v in expected.items() if not (k == 0 and v == 0)}
    if set(g) != set(e):
        ctx.fail("composition_keys:" + what, text=txt, got=sorted(map(repr, g)), expected=sorted(e))
        return
    for k, ev in e.items():
        gv = g[k]
        if isinstance(gv, bool) or not isinstance(gv, (int, float)):
            ctx.fail("composition_value_type:" + what, text=txt, key=k, got=repr(gv))
            return
        if ev.denominator == 1 and abs(ev) < 2 ** 53 and (exact or k == 0):
            ok = gv == int(ev)
        else:
            ok = abs(Fraction(gv) - ev) <= abs(ev) * Fraction(1, 10 ** 9)
        if not ok:
            ctx.fail("composition_value:" + what, text=txt, key=k, got=gv, expected=str(ev))
            return


def _judge_substance(ctx, obj, f, what, txt):
    canon = G.text(f, canonical=True)
    s = G.stats(f)
    if obj.name != txt:
        ctx.fail("name:" + what, text=txt, got=repr(obj.name)[:200])
    fns = _renderers()
    for fmt in FORMATS:
        got = getattr(obj, fmt + "_name")
        if judge_name(ctx, fmt, got, canon, what, txt):
            direct = sut(fns[fmt], txt)
            if not is_err(direct) and direct != got:
                ctx.fail("name_differs_from_function:%s:%s" % (what, fmt), text=txt, name=got, function=direct)
    compare_composition(ctx, obj.composition, G.composition(f), what, txt, exact=not s["decimal"])
    if obj.charge != G.charge_value(f):
        ctx.fail("charge:" + what, text=txt, got=repr(obj.charge), expected=G.charge_value(f))


def expected_phase_idx(suffix, phases, default):
    """Returns ("idx", n) or ("error",).  phases: None (library default) | {"kind": "list", "items": [...]}
    | {"kind": "dict", "items": [[suffix, idx], ...]}."""
    found = None
    if phases is None:
        found = {"(s)": 1, "(l)": 2, "(g)": 3}.get(suffix)
    elif phases["kind"] == "list":
        if suffix != "" and suffix in phases["items"]:
            found = phases["items"].index(suffix) + 1
    else:
        for k, v in phases["items"]:
            if suffix != "" and k == suffix:
                found = v
    if found is not None:
        return ("idx", found)
    if default is None:
        return ("error",)
    return ("idx", default)


def check_substance(case, ctx):
    """case: {"f": AST, "phases": None|{...}, "default": int|None}"""
    from chempy import Substance, Species
    f = case["f"]
    txt = G.text(f)
    lbls, s = G.labels(f)
    ctx.label("suffix=" + (f["suffix"] or "none"),
              "phases=" + ("default" if case["phases"] is None else case["phases"]["kind"]),
              "default=" + ("None" if case["default"] is None else "0" if case["default"] == 0 else "other"))
    if s["charge"]:
        ctx.label("charged")
    ctx.nontrivial(bool(f["suffix"]) and case["phases"] is not None)

    sub = sut(Substance.from_formula, txt)
    if is_err(sub):
        ctx.fail("valid_formula_rejected:Substance.from_formula", text=txt, error=repr(sub))
    else:
        _judge_substance(ctx, sub, f, "Substance", txt)

    kw = {}
    if case["phases"] is not None:
        ph = case["phases"]
        kw["phases"] = list(ph["items"]) if ph["kind"] == "list" else {k: v for k, v in ph["items"]}
    if case["default"] != 0:
        kw["default_phase_idx"] = case["default"]
    exp = expected_phase_idx(f["suffix"], case["phases"], case["default"])
    ctx.label("expect=" + exp[0])
    sp = sut(Species.from_formula, txt, **kw)
    if exp[0] == "error":
        if not is_err(sp):
            ctx.fail("phase_not_selected_but_accepted", text=txt, kw=short(repr(kw), 200), phase_idx=repr(sp.phase_idx))
        return
    if is_err(sp):
        ctx.fail("valid_formula_rejected:Species.from_formula", text=txt, kw=short(repr(kw), 200), error=repr(sp))
        return
    if isinstance(sp.phase_idx, bool) or sp.phase_idx != exp[1]:
        ctx.fail("phase_idx", text=txt, kw=short(repr(kw), 200), got=repr(sp.phase_idx), expected=exp[1])
    _judge_substance(ctx, sp, f, "Species", txt)


@st.composite
def substance_cases(draw):
    f = draw(G.formulas(max_depth=3, max_terms=5))
    k = draw(st.integers(0, 9))
    if k < 4:
        phases = None
    else:
        items = draw(st.permutations(list(G.SUFFIXES)))
        items = list(items[:draw(st.integers(1, 4))])
        if k < 7:
            phases = {"kind": "list", "items": items}
        else:
            phases = {"kind": "dict", "items": [[x, draw(st.integers(0, 5))] for x in items]}
    d = draw(st.integers(0, 9))
    default = 0 if d < 6 else (None if d < 8 else draw(st.integers(1, 7)))
    if draw(st.integers(0, 9)) >= 6 and not f["suffix"]:
        # the suffix is the interesting part here: put one on more often than G1 does (65% none)
        f = dict(f, suffix=draw(st.sampled_from(G.SUFFIXES)))
    return {"f": f, "phases": phases, "default": default}


# -- reactions -------------------------------------------------------------------------

_NUMBER_RE = re.compile(r"^(?:[0-9]+\.?[0-9]*|\.[0-9]+)(?:[eE][+-]?[0-9]+)?$")


def coef_value(c):
    """the coefficient of the description as a Python number: int, or the float of a decimal literal 'n.ddd'"""
    return float(c) if isinstance(c, str) else c


def same_coefficient(shown, c):
    """shown: Fraction read from the print-out; c: coefficient of the description.  An integer has to be shown
    exactly; a float has to be shown by a decimal text that denotes that float (float(text) == stored value: exact
    comparison, the shortest repr '0.1' and a longer '0.1000000000000000055' both qualify, '0.10001' does not)."""
    if isinstance(c, str):
        return float(shown) == float(c)
    return shown == c


def _has_count(f):
    return any(t["count"] for p in f["parts"] for t, _ in G._walk(p["terms"]))


SIDES = ("reac", "prod", "inact_reac", "inact_prod")


def _split_side(printed, n_active, n_inactive):
    """'A + 2 B + ( C + 3 D)' -> (['A', '2 B'], ['C', '3 D']) or (None, why).  The numbers of items come from the
    description (a rendered name never contains ' + '), so a name that itself begins with '(' is not mistaken for
    the group: the inactive items are the last n_inactive items, enclosed in one pair of parentheses (blanks inside
    the parentheses are presentation)."""
    toks = [] if printed == "" else printed.split(" + ")
    if len(toks) != n_active + n_inactive:
        return None, "number_of_terms"
    act, ina = toks[:n_active], toks[n_active:]
    if ina:
        if not (ina[0].startswith("(") and ina[-1].endswith(")")) or (len(ina) == 1 and len(ina[0]) < 2):
            return None, "inactive_group_not_parenthesised"
        ina[0] = ina[0][1:]
        ina[-1] = ina[-1][:-1]
        ina[0] = ina[0].lstrip(" ")
        ina[-1] = ina[-1].rstrip(" ")
    return (act, ina), None


def _parse_item(it):
    """'2 X' -> (Fraction(2), 'X'), '0.5 Y' -> (Fraction(1, 2), 'Y'), 'Z' -> (Fraction(1), 'Z'); the name stays
    rendered.  The coefficient is read as a number (exact value of the decimal text), whatever its spelling."""
    head, sep, rest = it.partition(" ")
    if sep and _NUMBER_RE.match(head):
        return Fraction(head), rest
    return Fraction(1), it


def check_reaction(case, ctx):
    """case: {"kind": "Reaction"|"Equilibrium", "ordered": bool, "reac": [[coef, AST], ...], "prod": [...],
    "inact_reac": [...], "inact_prod": [...] (optional)}
    coef: int, or a decimal literal "n.ddd" (str) for a fractional coefficient (stored as that float).
    keys within one side are distinct by construction (see reaction_cases); the active sides are not empty."""
    import chempy
    from collections import OrderedDict
    Cls = getattr(chempy, case["kind"])
    given = {name: case.get(name, []) for name in SIDES}
    everything = [it for name in SIDES for it in given[name]]
    expected = {}
    substances = {}
    interesting = False
    big = False
    for name in SIDES:
        lst = [(c, G.text(f), G.text(f, canonical=True)) for c, f in given[name]]
        for c, f in given[name]:
            if f["charge"] is not None or _has_count(f):
                interesting = True
            if coef_value(c) != 1:
                big = True
        if not case["ordered"]:
            lst.sort(key=lambda t: t[1])      # a plain dict is stored sorted by key
        expected[name] = lst
    ctx.label(case["kind"], "ordered" if case["ordered"] else "dict",
              "nreac=%d" % len(expected["reac"]), "nprod=%d" % len(expected["prod"]))
    if given["inact_reac"]:
        ctx.label("inactive_reactants=%d" % len(given["inact_reac"]))
    if given["inact_prod"]:
        ctx.label("inactive_products=%d" % len(given["inact_prod"]))
    ctx.nontrivial(interesting and big)
    fractional = [Fraction(c) for c, _ in everything if isinstance(c, str)]
    if fractional:
        ctx.label("fractional_coef")
        if any(v < 1 for v in fractional):
            ctx.label("fractional_coef<1")
        if any(1 < v < 2 for v in fractional):
            ctx.label("fractional_coef_between_1_and_2")
        if any(v > 100 for v in fractional):
            ctx.label("fractional_coef>100")
    for c, f in everything:
        k = G.text(f)
        if k not in substances:
            sub = sut(chempy.Substance.from_formula, k)
            if is_err(sub):
                ctx.fail("valid_formula_rejected:Substance.from_formula", text=k, error=repr(sub))
                return
            substances[k] = sub
    mk = OrderedDict if case["ordered"] else dict
    built = {name: mk((G.text(f), coef_value(c)) for c, f in given[name]) for name in SIDES}
    # checks=(): the default constructor checks refuse non-integral coefficients (and unbalanced generated keys)
    rxn = Cls(built["reac"], built["prod"], None, built["inact_reac"] or None, built["inact_prod"] or None, checks=())
    for fmt in FORMATS:
        out = getattr(rxn, fmt)(substances)
        arrow = " " + ARROWS[case["kind"]][fmt] + " "
        if not isinstance(out, str) or out.count(arrow) != 1:
            ctx.fail("arrow:" + fmt, printed=repr(out)[:400], arrow=arrow)
            continue
        lhs, rhs = out.split(arrow)
        ok = True
        for side_name, printed in (("reac", lhs), ("prod", rhs)):
            exp_act, exp_ina = expected[side_name], expected["inact_" + side_name]
            split, why = _split_side(printed, len(exp_act), len(exp_ina))
            if split is None:
                ctx.fail(why + ":" + fmt, printed=out, side=side_name, expected=[[c, k] for c, k, _ in exp_act],
                         expected_inactive=[[c, k] for c, k, _ in exp_ina])
                break
            for group, items, exp in (("", split[0], exp_act), ("inactive_", split[1], exp_ina)):
                for it, (ec, key, canon) in zip(items, exp):
                    gc, gname = _parse_item(it)
                    if not same_coefficient(gc, ec):
                        ctx.fail(group + "coefficient:" + fmt, printed=out, side=side_name, key=key, got=str(gc),
                                 expected=ec)
                        ok = False
                        break
                    if not judge_name(ctx, fmt, gname, canon, group + "reaction", key):
                        ok = False
                        break
                if not ok:
                    break
            if not ok:
                break


def _fractional_text(draw):
    """a non-integral decimal literal 'n.d' with 1-3 decimals: 0.5, 0.25, 1.5, 2.5, 12.25, 106.5, 999.975 ...
    (integer part 0 = a coefficient below one is the simplest and the most frequent)"""
    m = draw(st.integers(0, 7))
    if m < 3:
        ip = 0
    elif m < 5:
        ip = draw(st.integers(1, 2))
    elif m < 7:
        ip = draw(st.integers(3, 99))
    else:
        ip = draw(st.integers(100, 999))
    nd = draw(st.integers(1, 3))
    return "%d.%0*d" % (ip, nd, draw(st.integers(1, 10 ** nd - 1)))


def _coefficient(draw):
    c = draw(st.integers(0, 11))
    if c < 4:
        return 1
    if c < 9:
        return draw(st.integers(2, 12))
    if c == 9:
        return draw(st.integers(13, 1000))
    return _fractional_text(draw)


def _side(draw, n):
    side, seen = [], set()
    for _ in range(n):
        f = draw(G.formulas(max_depth=2, max_terms=4, max_hydrates=1))
        t = G.text(f)
        if t in seen:      # keys of one side are distinct: count the repeat on the existing (integer) entry instead
            for it in side:
                if G.text(it[1]) == t and isinstance(it[0], int):
                    it[0] += 1
            continue
        seen.add(t)
        side.append([_coefficient(draw), f])
    return side


@st.composite
def reaction_cases(draw):
    kind = draw(st.sampled_from(["Reaction", "Equilibrium"]))
    ordered = draw(st.booleans())
    nr = draw(st.integers(1, 3))
    np_ = draw(st.integers(1, 5 - nr))
    case = {"kind": kind, "ordered": ordered, "reac": _side(draw, nr), "prod": _side(draw, np_),
            "inact_reac": [], "inact_prod": []}
    # inactive species (shown in a parenthesised group behind the active ones): none (60 %), products only,
    # reactants only, both; an inactive key may also occur among the active ones (they are separate mappings)
    k = draw(st.integers(0, 9))
    if k in (6, 8, 9):
        case["inact_prod"] = _side(draw, draw(st.integers(1, 2)))
    if k in (7, 9):
        case["inact_reac"] = _side(draw, draw(st.integers(1, 2)))
    return case


SUBCHECKS = [
    SubCheck("render", check_render, strategy=G.formulas(max_depth=4, max_terms=6), quick=4000, thorough=300000,
             rule="G1 formulas, depth<=4, <=6 terms per level, x 3 formats"),
    SubCheck("render_deep", check_render, strategy=G.formulas(max_depth=8, max_terms=10, max_hydrates=3),
             quick=400, thorough=60000, rule="G1 formulas, depth<=8, <=10 terms per level, <=3 hydrate parts, x 3 formats"),
    SubCheck("prefixes", check_render, enumerate=enum_prefixes,
             rule="all 24 greek prefixes, the radical dot and the 24 'greek-.' double prefixes x 4 fixed bodies x 3 formats "
                  "(exhaustive)"),
    SubCheck("render_long", check_render_long, enumerate=enum_long, exhaustive=lambda tier: False,
             rule="chains CH3-(unit)n-CH3 with 300 / 600 / 1200 numeric counts in one part (first part, a hydrate part, "
                  "both), 4 repeat units (plain, bracketed, two-digit and decimal counts) x 3 formats: no count may stay "
                  "a plain digit"),
    SubCheck("tokenizer_unit", check_tokenizer, enumerate=enum_tokenizer,
             rule="unit cases of the inverse tokenizer: plain digits behind an atom / closing bracket / hydrate part are "
                  "refused, presentation tokens are undone (no chempy call)"),
    SubCheck("substance", check_substance, strategy=substance_cases(), quick=1500, thorough=100000,
             rule="Substance.from_formula / Species.from_formula (default, list and dict `phases`, default_phase_idx 0/n/None)"),
    SubCheck("reaction", check_reaction, strategy=reaction_cases(), quick=600, thorough=40000,
             rule="Reaction/Equilibrium over 2-5 G1 keys (dict = sorted, OrderedDict = given order), integer coefficients 1..1000 "
                  "and fractional ones (1-3 decimals, below and above 1, checks=()), optional inactive reactants/products "
                  "(parenthesised group behind the active items), x 3 formats"),
]

# -*- coding: utf-8 -*-
"""C20 - printed numbers and parameters denote the value they were given.

Every oracle parses the produced text back (own regular expressions / own unit-string reader) and compares with
exact Decimal/Fraction arithmetic on the binary value of the input float.  Nothing of chempy.printing is used by the
oracle.
"""
import re
from decimal import Decimal, Context, ROUND_HALF_EVEN
from fractions import Fraction

from hypothesis import strategies as st

from vlib import env  # noqa  (sys.path)
from vlib.harness import SubCheck, sut, is_err

PROPERTY = "C20"
LEVEL = "exploration"
RULE = ("Floats are built by construction as <integer mantissa of 1..17 digits> x 10^k, k in -300..300, both signs, plus "
        "boundary shapes (99..96 / 99..5 tails that round into a new decade, exact powers of ten, d x 10^k, dyadic ties "
        "such as 0.125); precision 1..10 or the default, or `fmt` a callable of the documented protocol (returns the text of the magnitude, "
        "an 'e' separates significand and exponent: '%.Ne' % x, '%.Ng' % x, '{:.Ne}'.format, '%.Nf' % x).  'sci': the "
        "three rich formats without unit; 'sci_unit': a "
        "quantity in a compound unit (1-4 unit families, exponents -3..3) optionally re-expressed in another unit of the "
        "same dimension; 'uncert': value with uncertainty 1e-8..0.5 relative, 1..3 uncertainty digits, optionally with "
        "units, the uncertainty given as the `uncertainty` argument or carried by the number itself "
        "(quantities.UncertainQuantity, with / without unit=) or both with different sizes (the argument counts), optionally a two-argument callable `fmt` printing "
        "'%.df(%.0f)'; 'roman': 1..3999 exhaustive; 'reaction': five reactions of order 1-3 with float / int / quantity "
        "parameters (unit consistent with the order; magnitude also exactly 0 / 0.0 / -0.0) or a rate expression holding "
        "the number (MassAction([k]), with unique_keys, MassAction([Arrhenius([A, Ea/R])]), with / without units) "
        "printed by string/latex/unicode/html with_param=True.  "
        "Non-trivial = exponent form, or rounding carried into a new decade, or an uncertainty, or a unit; roman: n>=4; "
        "distinct by case digest.")
ASSUMPTIONS = [
    "reading rules: plain S[e+-E]; LaTeX S\\cdot 10^{E} | 10^{E}; Unicode S·10^E with superscript digits; HTML "
    "S&sdot;10<sup>E</sup>; uncertainty form V(U): U counts units of the last written digit of V",
    "a unit string is read back with an own reader of the four syntaxes produced by the 'quantities' package "
    "(a*b**2/(c*d), \\mathrm{\\frac{..}{..}}, superscript digits, <sup>); the symbols/SI factors of the 24 units "
    "used are an own table",
    "without unit conversion the printed number must equal the half-even rounding of the exact binary value; with a "
    "conversion (float multiplication inside quantities) a relative slack of 1e-13 is allowed",
]

# ---------------------------------------------------------------------------------------------------------------
# exact helpers
# ---------------------------------------------------------------------------------------------------------------
BIG = Context(prec=1300, Emax=999999999, Emin=-999999999)


def round_sig(x, n):
    """float -> Decimal: the exact binary value rounded half-even to n significant digits."""
    c = Context(prec=n, rounding=ROUND_HALF_EVEN, Emax=999999999, Emin=-999999999)
    return c.create_decimal(Decimal(x))


def dec_value(sig, exp):
    """significand text (None = omitted = 1) and integer exponent -> exact Decimal."""
    d = Decimal(sig if sig is not None else "1")
    return BIG.scaleb(d, exp or 0)


def ilog10(fr):
    """floor(log10(fr)) for a positive Fraction, exactly."""
    k = len(str(fr.numerator)) - len(str(fr.denominator))
    while Fraction(10) ** k > fr:
        k -= 1
    while Fraction(10) ** (k + 1) <= fr:
        k += 1
    return k


def p10(k):
    return Fraction(10) ** k


# ---------------------------------------------------------------------------------------------------------------
# readers of the four number syntaxes
# ---------------------------------------------------------------------------------------------------------------
SIG = r"(-?\d+(?:\.\d+)?)(?:\((\d+)\))?"
EXPO = r"([+-]?\d+)"
SUP_DIGITS = {u"⁰": "0", u"¹": "1", u"²": "2", u"³": "3", u"⁴": "4", u"⁵": "5", u"⁶": "6", u"⁷": "7", u"⁸": "8",
              u"⁹": "9", u"⁻": "-", u"⁺": "+"}
SUP_CLASS = u"[⁰¹²³⁴⁵⁶⁷⁸⁹⁻⁺]"
RE_NUM = {
    "plain": re.compile(r"^" + SIG + r"(?:e" + EXPO + r")?$"),
    "latex": re.compile(r"^(?:" + SIG + r"\\cdot )?10\^\{" + EXPO + r"\}$"),
    "unicode": re.compile(u"^(?:" + SIG + u"·)?10(" + SUP_CLASS + u"+)$"),
    "html": re.compile(r"^(?:" + SIG + r"&sdot;)?10<sup>" + EXPO + r"</sup>$"),
}
RE_FIXED = re.compile(r"^" + SIG + r"$")
RE_CANON_INT = re.compile(r"^-?(?:0|[1-9]\d*)$")


def read_number(txt, fmt):
    """-> dict(sig, unc, exp, exp_text) or None when the text is not of the stated shape."""
    m = RE_FIXED.match(txt)
    if m:
        return {"sig": m.group(1), "unc": m.group(2), "exp": None, "exp_text": None}
    m = RE_NUM[fmt].match(txt)
    if not m:
        return None
    e = m.group(3)
    if fmt == "unicode":
        e = "".join(SUP_DIGITS[c] for c in e)
        if not re.match(r"^[+-]?\d+$", e):
            return None
    return {"sig": m.group(1), "unc": m.group(2), "exp": int(e), "exp_text": e}


def check_exponent_shape(ctx, rd, fmt, txt):
    """In the typeset forms the exponent is an integer literal (no '+', no leading zeros): '10^{+07}' is the raw
    artefact of %g which the formatter is there to remove."""
    if fmt != "plain" and rd["exp_text"] is not None and not RE_CANON_INT.match(rd["exp_text"]):
        ctx.fail("exponent_not_an_integer_literal", fmt=fmt, text=txt)


# ---------------------------------------------------------------------------------------------------------------
# own unit table and reader of unit strings
# ---------------------------------------------------------------------------------------------------------------
# name -> (family, symbol as printed, factor to the first member of the family)
UNIT_TABLE = {
    "m": ("L", "m", Fraction(1)), "cm": ("L", "cm", Fraction(1, 100)), "mm": ("L", "mm", Fraction(1, 1000)),
    "km": ("L", "km", Fraction(1000)), "nm": ("L", "nm", Fraction(1, 10 ** 9)),
    "kg": ("M", "kg", Fraction(1)), "g": ("M", "g", Fraction(1, 1000)), "mg": ("M", "mg", Fraction(1, 10 ** 6)),
    "s": ("T", "s", Fraction(1)), "ms": ("T", "ms", Fraction(1, 1000)), "min": ("T", "min", Fraction(60)),
    "h": ("T", "h", Fraction(3600)),
    "mol": ("N", "mol", Fraction(1)), "mmol": ("N", "mmol", Fraction(1, 1000)),
    "K": ("Th", "K", Fraction(1)),
    "A": ("I", "A", Fraction(1)), "mA": ("I", "mA", Fraction(1, 1000)),
    "molar": ("C", "M", Fraction(1)), "millimolar": ("C", "mM", Fraction(1, 1000)),
    "micromolar": ("C", "uM", Fraction(1, 10 ** 6)), "nanomolar": ("C", "nM", Fraction(1, 10 ** 9)),
    "J": ("E", "J", Fraction(1)), "Pa": ("P", "Pa", Fraction(1)), "kPa": ("P", "kPa", Fraction(1000)),
}
FAMILIES = {}
for _n, (_f, _s, _k) in UNIT_TABLE.items():
    FAMILIES.setdefault(_f, []).append(_n)
FAMILY_ORDER = ["L", "T", "M", "N", "C", "Th", "I", "E", "P"]
CHEMPY_UNITS = ("molar", "millimolar", "micromolar", "nanomolar")


def unit_object(spec):
    """[[name, exp], ...] -> quantities object of magnitude 1 (built by multiplication, no chempy logic)."""
    import quantities as pq
    from chempy.units import default_units as du
    out = None
    for name, e in spec:
        u = getattr(du, name) if name in CHEMPY_UNITS else getattr(pq, name)
        t = u ** e
        out = t if out is None else out * t
    return out


def unit_dict(spec):
    return {UNIT_TABLE[n][1]: e for n, e in spec}


def unit_factor(spec):
    f = Fraction(1)
    for n, e in spec:
        f *= UNIT_TABLE[n][2] ** e
    return f


RE_FACTOR = re.compile(r"^([A-Za-z]+)(?:\*\*(\d+))?$")


def _read_product(txt, sign, out):
    if txt == "1":
        return True
    for f in re.split(r"(?<!\*)\*(?!\*)", txt):
        m = RE_FACTOR.match(f)
        if not m or m.group(1) in out:
            return False
        out[m.group(1)] = sign * int(m.group(2) or 1)
    return True


def read_unit_plain(txt):
    """'m**2/(kg*s)' -> {'m': 2, 'kg': -1, 's': -1}; None when not of that shape."""
    out = {}
    if "/" in txt:
        num, den = txt.split("/", 1)
        if den.startswith("(") and den.endswith(")"):
            den = den[1:-1]
        if "(" in den or ")" in den or "/" in den:
            return None
        if not _read_product(den, -1, out):
            return None
    else:
        num = txt
    if "(" in num or ")" in num:
        return None
    if not _read_product(num, 1, out):
        return None
    return out or None


def _match_brace(s, i):
    """s[i] == '{' -> index of the matching '}'."""
    depth = 0
    for j in range(i, len(s)):
        if s[j] == "{":
            depth += 1
        elif s[j] == "}":
            depth -= 1
            if depth == 0:
                return j
    return -1


def normalise_unit(txt, fmt):
    """Translate the typeset unit string into the plain syntax (or None)."""
    if fmt == "plain":
        return txt
    if fmt == "html":
        return re.sub(r"<sup>(\d+)</sup>", r"**\1", txt).replace("&sdot;", "*")
    if fmt == "unicode":
        def sup(m):
            return "**" + "".join(SUP_DIGITS[c] for c in m.group(0))
        return re.sub(u"[⁰¹²³⁴⁵⁶⁷⁸⁹]+", sup, txt).replace(u"·", "*")
    # latex
    s = txt
    if s.startswith("$") and s.endswith("$") and len(s) >= 2:
        s = s[1:-1]
    if not (s.startswith("\\mathrm{") and s.endswith("}")):
        return None
    s = s[len("\\mathrm{"):-1]
    if s.startswith("\\frac{"):
        i = len("\\frac")
        j = _match_brace(s, i)
        if j < 0 or j + 1 >= len(s) or s[j + 1] != "{":
            return None
        k = _match_brace(s, j + 1)
        if k != len(s) - 1:
            return None
        s = s[i + 1:j] + "/" + s[j + 2:k]
    s = re.sub(r"\^\{(\d+)\}", r"**\1", s).replace("{\\cdot}", "*")
    if "{" in s or "}" in s or "\\" in s:
        return None
    return s


def read_unit(txt, fmt):
    s = normalise_unit(txt, fmt)
    return None if s is None else read_unit_plain(s)


# ---------------------------------------------------------------------------------------------------------------
# generators
# ---------------------------------------------------------------------------------------------------------------

@st.composite
def floats_g4(draw, kmin=-300, kmax=300):
    """{'m': mantissa digits, 'k': decimal exponent of the leading digit, 'neg': bool} -> float by float('<m>e<k'>')."""
    shape = draw(st.integers(0, 9))
    k = draw(st.integers(-6, 9)) if draw(st.integers(0, 3)) == 0 else draw(st.integers(kmin, kmax))
    if shape <= 4:
        nd = draw(st.integers(1, 17))
        m = draw(st.integers(10 ** (nd - 1), 10 ** nd - 1))
        digits = str(m)
    elif shape <= 6:     # rounds into a new decade at some precision
        digits = "9" * draw(st.integers(0, 10)) + draw(st.sampled_from(["96", "5", "49", "51", "4999999", "5000001", "95", "94"]))
    elif shape == 7:     # exact power of ten or one digit
        digits = draw(st.sampled_from(["1", "1", "1", "2", "5", "9", "10", "100"]))
    elif shape == 8:     # decimal tie after j digits (exact in binary only for small dyadic values; both occur)
        nd = draw(st.integers(1, 9))
        digits = str(draw(st.integers(10 ** (nd - 1), 10 ** nd - 1))) + "5"
    else:                # dyadic rationals: exact ties in binary
        num = draw(st.integers(1, 4095))
        j = draw(st.integers(1, 12))
        x = num / float(2 ** j)
        return -x if draw(st.booleans()) else x
    x = float("%se%d" % (digits, k - len(digits) + 1))
    return -x if draw(st.booleans()) else x


precisions = st.one_of(st.integers(1, 10), st.none(), st.sampled_from([3, 5]))

# `fmt` as a callable ("fmt : int or callable"): called with the magnitude in the printed unit, returns its text; the
# formatter splits that text at 'e' into significand and exponent.  Description: [kind, N].
CALLABLE_KINDS = ["%e", "%g", "format_e", "%f"]


@st.composite
def callable_fmts(draw):
    kind = draw(st.sampled_from(CALLABLE_KINDS))
    lo, hi = {"%e": (0, 9), "%g": (1, 10), "format_e": (0, 9), "%f": (0, 6)}[kind]
    return [kind, draw(st.integers(lo, hi))]


def make_callable(c):
    kind, N = c
    if kind == "%e":
        return lambda v: ("%%.%de" % N) % v
    if kind == "%g":
        return lambda v: ("%%.%dg" % N) % v
    if kind == "format_e":
        return ("{:.%de}" % N).format
    if kind == "%f":
        return lambda v: ("%%.%df" % N) % v
    raise ValueError(c)


def callable_want(c, x):
    """What the callable's own (correctly rounded, half-even on the binary value) text denotes for the float x."""
    kind, N = c
    if kind in ("%e", "format_e"):
        return round_sig(x, N + 1)
    if kind == "%g":
        return round_sig(x, N)
    return BIG.quantize(Decimal(x), Decimal(1).scaleb(-N))        # BIG rounds half-even (the Context default)


def callable_ulp(c, exact):
    """Unit of the last digit the callable prints for a value of the size of `exact` (Fraction)."""
    kind, N = c
    if kind == "%f":
        return p10(-N)
    sig = N + 1 if kind in ("%e", "format_e") else N
    return p10(ilog10(abs(exact)) - sig + 1)


@st.composite
def sci_item(draw):
    item = {"x": draw(floats_g4()), "n": draw(precisions)}
    if draw(st.integers(0, 4)) == 4:
        item["c"] = draw(callable_fmts())      # then "n" is not used
    return item


# several numbers per Hypothesis example: generating an example costs ~2 ms, judging a number ~0.1 ms
sci_cases = st.lists(sci_item(), min_size=1, max_size=12).map(lambda items: {"items": items})


@st.composite
def unit_specs(draw, with_target=True):
    nf = draw(st.integers(1, 4))
    fams = draw(st.permutations(FAMILY_ORDER))[:nf]
    spec, target = [], []
    for f in fams:
        names = FAMILIES[f]
        e = draw(st.sampled_from([1, -1, 2, -2, 3, -3]))
        a = draw(st.sampled_from(names))
        spec.append([a, e])
        target.append([draw(st.sampled_from(names)), e])
    use_target = with_target and draw(st.booleans())
    return spec, (target if use_target else None)


@st.composite
def sci_unit_cases(draw):
    spec, target = draw(unit_specs())
    # +-150 decades keeps the converted magnitude (factors up to 1e27) inside the float range and the stated domain
    case = {"x": draw(floats_g4(-150, 150)), "n": draw(precisions), "units": spec, "target": target}
    if draw(st.integers(0, 2)) == 2:
        case["c"] = draw(callable_fmts())      # then "n" is not used
    return case


@st.composite
def uncert_cases(draw):
    units = draw(st.integers(0, 3)) == 0
    x = draw(floats_g4(-150, 150) if units else floats_g4())
    # relative uncertainty 1e-8 .. 0.5, log-uniform: r = a * 10^-j
    j = draw(st.integers(1, 8))
    a = draw(st.integers(100, 999)) / 100.0 if draw(st.integers(0, 3)) else draw(st.sampled_from([1.0, 9.96, 9.5, 9.949, 9.951, 2.5, 5.0]))
    rel = min(0.5, max(1e-8, a * 10.0 ** (-j)))
    p = draw(st.sampled_from([1, 2, 2, 3, None]))
    if not units:
        case = {"x": x, "xe": abs(x) * rel, "p": p}
        _maybe_callable2(draw, case, Fraction(case["xe"]))
        return case
    spec, target = draw(unit_specs())
    espec = [[draw(st.sampled_from(FAMILIES[UNIT_TABLE[n][0]])), e] for n, e in spec] if draw(st.booleans()) else spec
    # the uncertainty is `rel` of the value as a physical quantity; its magnitude is then expressed in its own unit
    ratio = unit_factor(spec) / unit_factor(espec)
    xe = float(abs(Fraction(x)) * Fraction(rel) * ratio)
    if Fraction(xe) > abs(Fraction(x)) * ratio / 2:      # float rounding pushed it above one half: stay in the domain
        xe = float(abs(Fraction(x)) * ratio / 4)
    case = {"x": x, "xe": xe, "p": p, "units": spec, "eunits": espec, "target": target}
    # how the uncertainty reaches the formatter: the `uncertainty` argument, or the attribute of the number itself
    # or both: an UncertainQuantity with an own uncertainty of another size *and* an explicit argument (which is the one
    # to be printed); "own_factor" = own uncertainty / explicit uncertainty as physical quantities
    case["carrier"] = draw(st.sampled_from(["arg", "attr", "both"]))
    if case["carrier"] == "both":
        case["own_factor"] = draw(st.sampled_from([4.0, 0.25, 30.0, 0.01, 1.5]))
    shown = target if target is not None else spec
    _maybe_callable2(draw, case, Fraction(xe) * unit_factor(espec) / unit_factor(shown))
    return case


def _maybe_callable2(draw, case, XE):
    """Sometimes `fmt` is a two-argument callable printing '%.df(%.0f)' % (value, uncertainty * 10**d), with d chosen
    so that the uncertainty shows about p digits (only where that is a plain decimal layout: 0 <= d <= 12)."""
    if draw(st.integers(0, 7)) != 7 or XE <= 0:
        return
    d = (2 if case["p"] is None else case["p"]) - 1 - ilog10(XE)
    if 0 <= d <= 12:
        case["c2"] = d


def make_callable2(d):
    return lambda v, u: ("%%.%df(%%.0f)" % d) % (v, u * 10 ** d)


# ---------------------------------------------------------------------------------------------------------------
# sci: number without uncertainty
# ---------------------------------------------------------------------------------------------------------------

def _formatters():
    from chempy.printing import number_to_scientific_latex, number_to_scientific_unicode, number_to_scientific_html
    return (("latex", number_to_scientific_latex), ("unicode", number_to_scientific_unicode), ("html", number_to_scientific_html))


def _adjusted(d):
    return d.adjusted()


def check_sci(case, ctx):
    nontrivial = False
    for item in case["items"]:
        nontrivial = _check_sci_item(item, ctx) or nontrivial
    ctx.nontrivial(nontrivial)


def _check_sci_item(case, ctx):
    x, n = case["x"], case["n"]
    N = 5 if n is None else n
    c = case.get("c")
    if c:
        want = callable_want(c, x)
        n = "callable:" + c[0]
        call = make_callable(c)
    else:
        want = round_sig(x, N)
    carry = want != 0 and _adjusted(want) != _adjusted(Decimal(x))
    seen_exp = False
    for fmt, fn in _formatters():
        out = fn(x, fmt=call) if c else (fn(x) if n is None else fn(x, fmt=n))
        rd = read_number(out, fmt) if isinstance(out, str) else None
        if rd is None or rd["unc"] is not None:
            ctx.fail("not_of_the_stated_shape", fmt=fmt, x=x, n=n, text=repr(out), callable=c)
            continue
        check_exponent_shape(ctx, rd, fmt, out)
        if rd["exp"] is not None:
            seen_exp = True
            if rd["sig"] is None:
                ctx.label("significand_omitted")
        got = dec_value(rd["sig"], rd["exp"])
        if got != want:
            clause = "significand_omitted_but_not_one" if (rd["exp"] is not None and rd["sig"] is None) else "value_read_back"
            ctx.fail(clause, fmt=fmt, x=x, n=n, text=out, read=str(got), expected=str(want), callable=c)
    ctx.label("exponent_form" if seen_exp else "fixed_form", "n=%s" % n)
    if carry:
        ctx.label("carry_into_new_decade")
    if x < 0:
        ctx.label("negative")
    return seen_exp or carry


# ---------------------------------------------------------------------------------------------------------------
# sci_unit: quantity in a compound unit, optionally re-expressed
# ---------------------------------------------------------------------------------------------------------------
SEP = {"latex": "\\,", "unicode": " ", "html": " "}
CONV_SLACK = Fraction(1, 10 ** 13)   # <= ~12 float multiplications/powers inside quantities.rescale, each <= 1 ulp
                                     # (1.1e-16): 1e-13 is generous and 2.5 orders below half a unit of the 10th digit


def judge_rounded(ctx, got, exact, N, slack_rel, ulp=None, **detail):
    """got (Fraction read back) must be a rounding to N significant digits (or to the given unit of the last digit) of a
    number within slack_rel of `exact`."""
    if ulp is None:
        e = ilog10(abs(exact))
        ulp = p10(e - N + 1)
    if (got / ulp).denominator != 1:
        # (a value rounded up into the next decade lies on the coarser grid of that decade, hence also on this one)
        ctx.fail("more_digits_than_requested", **detail)
        return
    if abs(got - exact) > ulp / 2 + slack_rel * abs(exact):
        ctx.fail("value_read_back", **detail)


def check_sci_unit(case, ctx):
    import quantities as pq
    x, n = case["x"], case["n"]
    N = 5 if n is None else n
    spec, target = case["units"], case["target"]
    q = pq.Quantity(x, unit_object(spec))
    shown = target if target is not None else spec
    converted = target is not None and target != spec
    exact = Fraction(x) * unit_factor(spec) / unit_factor(shown)
    want_units = unit_dict(shown)
    ctx.label("converted" if converted else ("target_same" if target is not None else "own_unit"), "nunits=%d" % len(spec))
    ctx.nontrivial(True)
    kw = {}
    c = case.get("c")
    if c:
        kw["fmt"] = make_callable(c)
        n = "callable:" + c[0]
        ctx.label("fmt:" + n, ("fmt:callable:converted" if converted else "fmt:callable:unconverted"))
    elif n is not None:
        kw["fmt"] = n
    if target is not None:
        kw["unit"] = unit_object(target)
    for fmt, fn in _formatters():
        out = fn(q, **kw)
        if not isinstance(out, str) or SEP[fmt] not in out:
            ctx.fail("no_unit_after_number", fmt=fmt, text=repr(out), case_units=shown, callable=c)
            continue
        i = out.index(SEP[fmt])
        num_txt, unit_txt = out[:i], out[i + len(SEP[fmt]):]
        got_units = read_unit(unit_txt, fmt)
        if got_units != want_units:
            ctx.fail("unit_text", fmt=fmt, text=out, read=got_units, expected=want_units)
        rd = read_number(num_txt, fmt)
        if rd is None or rd["unc"] is not None:
            ctx.fail("not_of_the_stated_shape", fmt=fmt, text=out)
            continue
        check_exponent_shape(ctx, rd, fmt, out)
        got = dec_value(rd["sig"], rd["exp"])
        if not converted:
            # conversion factor is exactly 1: the magnitude is the float itself
            want = callable_want(c, x) if c else round_sig(x, N)
            if got != want:
                ctx.fail("value_read_back", fmt=fmt, x=x, n=n, text=out, read=str(got), expected=str(want), callable=c)
        else:
            judge_rounded(ctx, Fraction(got), exact, N, CONV_SLACK, ulp=(callable_ulp(c, exact) if c else None),
                          fmt=fmt, x=x, n=n, text=out, units=spec, target=target, expected=float(exact), callable=c)


# ---------------------------------------------------------------------------------------------------------------
# uncert: V(U)[eE]
# ---------------------------------------------------------------------------------------------------------------
FLOAT_SLACK = Fraction(4, 2 ** 52)   # x*10**k: one int->float conversion or pow() (<= 1 ulp) and one product (<= 1/2 ulp)
NEAR = Fraction(1, 10 ** 12)         # 'within 1e-12 of a power of ten': math.log10 may round to the integer there


def own_layouts(V, U, qe, x_exp):
    """The two layouts of value V and uncertainty U (Fractions, multiples of 10^qe), own Decimal formatter."""
    def fixed(fr, decimals):
        n = fr * p10(decimals)
        if n.denominator != 1:
            raise ValueError("not on the grid")
        digits = str(abs(n.numerator)).rjust(decimals + 1, "0")
        sign = "-" if n < 0 else ""
        return sign + (digits[:-decimals] + "." + digits[-decimals:] if decimals > 0 else digits)
    q = p10(qe)
    if qe < 0:
        plain = "%s(%d)" % (fixed(V, -qe), int(U / q))
    else:
        plain = "%d(%d)" % (int(V), int(U))
    fw = max(0, x_exp - qe)
    expo = "%s(%d)e%d" % (fixed(V / p10(x_exp), fw), int(U / q), x_exp)
    return plain, expo


def judge_uncert(ctx, fmt, out, rd, X, XE, p, slack_x, slack_e, converted, detail):
    V_txt, U_txt, E = rd["sig"], rd["unc"], rd["exp"] or 0
    decimals = len(V_txt.split(".")[1]) if "." in V_txt else 0
    V = Fraction(Decimal(V_txt)) * p10(E)
    U = int(U_txt) * p10(E - decimals)
    ke = ilog10(XE)
    qe0 = ke - p + 1
    cands = [qe0]
    corner = []
    if XE * (1 + NEAR) >= p10(ke + 1):
        # just below a power of ten: floor(log10(.)) evaluated in floating point may give the next integer
        cands.append(qe0 + 1)
        corner.append("xe_near_power_of_ten")
    if converted and XE * (1 - NEAR) < p10(ke):
        # exactly on / just above a power of ten, but the converted float may have landed below it
        cands.append(qe0 - 1)
        corner.append("xe_near_power_of_ten")
    if XE / p10(qe0) + Fraction(1, 2) + slack_e / p10(qe0) >= p10(p):
        # the uncertainty itself rounds up to 10^p units: '(100)' at 10^qe0 or '(10)' at 10^(qe0+1) are both
        # "the uncertainty to p digits"
        cands.append(qe0 + 1)
        corner.append("uncertainty_carry")
    first = None
    ok_qe = None
    for qe in cands:
        q = p10(qe)
        why = None
        if (U / q).denominator != 1 or abs(U - XE) > q / 2 + slack_e:
            why = "uncertainty_not_rounded_to_requested_digits"
        elif (V / q).denominator != 1:
            why = "value_not_rounded_at_last_digit_of_uncertainty"
        elif abs(V - X) > q / 2 + slack_x:
            why = "value_read_back"
        if why is None:
            ok_qe = qe
            break
        first = first or why
    if ok_qe is None:
        ctx.fail(first, fmt=fmt, text=out, read_value=float(V), read_uncertainty=float(U), unit_of_last_digit="1e%d" % qe0,
                 **detail)
        return
    # whichever layout is shorter
    x_exp = ilog10(abs(X))
    if ilog10(abs(V)) != x_exp:
        corner.append("value_carry")
    if abs(X) * (1 + NEAR) >= p10(x_exp + 1) or (converted and abs(X) * (1 - NEAR) < p10(x_exp)):
        corner.append("x_near_power_of_ten")
    if corner:
        ctx.label("carry_corner", *["corner:" + c for c in corner])
        return
    plain, expo = own_layouts(V, U, ok_qe, x_exp)
    canon = "%s(%s)" % (V_txt, U_txt) + ("e%d" % rd["exp"] if rd["exp"] is not None else "")
    other = plain if rd["exp"] is not None else expo
    ctx.label("layout_exponent" if rd["exp"] is not None else "layout_plain")
    if len(canon) == len(other):
        ctx.label("layout_tie")
    if len(canon) > len(other):
        ctx.fail("not_the_shorter_layout", fmt=fmt, text=out, as_plain_text=canon, other_layout=other, **detail)


def judge_callable2(ctx, fmt, out, rd, X, XE, d, slack_x, slack_e, detail):
    """fmt = two-argument callable '%.df(%.0f)' % (v, u * 10**d): the text is the callable's own, so it must denote the
    value and the uncertainty (in the printed unit) to the d decimals it prints."""
    V_txt, U_txt = rd["sig"], rd["unc"]
    decimals = len(V_txt.split(".")[1]) if "." in V_txt else 0
    if rd["exp"] is not None or decimals != d:
        ctx.fail("callable_text_altered", fmt=fmt, text=out, **detail)
        return
    q = p10(-d)
    V, U = Fraction(Decimal(V_txt)), int(U_txt) * q
    if abs(V - X) > q / 2 + slack_x:
        ctx.fail("value_read_back", fmt=fmt, text=out, read_value=float(V), **detail)
    elif abs(U - XE) > q / 2 + 2 * slack_e:        # one more float product (u * 10**d) inside the callable
        ctx.fail("uncertainty_read_back", fmt=fmt, text=out, read_uncertainty=float(U), **detail)


def check_uncert(case, ctx):
    x, xe, p = case["x"], case["xe"], case["p"]
    P = 2 if p is None else p
    kw = {} if p is None else {"fmt": p}
    detail = {"x": x, "xe": xe, "p": p}
    ctx.nontrivial(True)
    if "units" in case:
        import quantities as pq
        spec, espec, target = case["units"], case["eunits"], case["target"]
        shown = target if target is not None else spec
        num = pq.Quantity(x, unit_object(spec))
        unc = pq.Quantity(xe, unit_object(espec))
        if target is not None:
            kw["unit"] = unit_object(target)
        X = Fraction(x) * unit_factor(spec) / unit_factor(shown)
        XE = Fraction(xe) * unit_factor(espec) / unit_factor(shown)
        conv_x = CONV_SLACK if shown != spec else Fraction(0)
        conv_e = CONV_SLACK if shown != espec else Fraction(0)
        carrier = case.get("carrier", "arg")
        if carrier == "attr":
            # the number carries its own uncertainty (quantities.UncertainQuantity keeps it in the number's unit: one
            # conversion when it was given in another unit, one more when another unit is printed)
            num = pq.UncertainQuantity(x, unit_object(spec), unc if espec != spec else xe)
            conv_e = CONV_SLACK * (int(espec != spec) + int(shown != spec))
            ctx.label("carrier:attribute:" + ("own_unit" if target is None else
                                              "unit_same" if shown == spec else "unit_converted"))
        elif carrier == "both":
            # the explicit argument wins: X, XE and the slacks are those of the argument; the number's own uncertainty
            # (another size, in the number's unit) must not show
            own = float(Fraction(xe) * unit_factor(espec) / unit_factor(spec) * Fraction(case["own_factor"]))
            num = pq.UncertainQuantity(x, unit_object(spec), own)
            detail["own_uncertainty"] = own
            ctx.label("carrier:attribute_and_argument", "carrier:both:" + ("eunit_same" if espec == spec else "eunit_other"))
        else:
            ctx.label("carrier:argument")
        want_units = unit_dict(shown)
        detail.update({"units": spec, "eunits": espec, "target": target, "carrier": carrier})
        ctx.label("with_units", "converted" if (conv_x or conv_e) else "unconverted")
    else:
        num, unc = x, xe
        X, XE = Fraction(x), Fraction(xe)
        conv_x = conv_e = Fraction(0)
        want_units = None
        carrier = "arg"
        ctx.label("no_units")
    slack_x = (FLOAT_SLACK + conv_x) * abs(X)
    slack_e = (FLOAT_SLACK + conv_e) * XE
    ctx.label("p=%s" % p, "rel=1e%d" % ilog10(XE / abs(X)))
    c2 = case.get("c2")
    if c2 is not None:
        kw["fmt"] = make_callable2(c2)
        detail["callable_decimals"] = c2
        ctx.label("fmt:callable2")
    for fmt, fn in _formatters():
        out = fn(num, **kw) if carrier == "attr" else fn(num, unc, **kw)
        if not isinstance(out, str):
            ctx.fail("not_of_the_stated_shape", fmt=fmt, text=repr(out), **detail)
            continue
        num_txt = out
        if want_units is not None:
            if SEP[fmt] not in out:
                ctx.fail("no_unit_after_number", fmt=fmt, text=out, **detail)
                continue
            i = out.index(SEP[fmt])
            num_txt, unit_txt = out[:i], out[i + len(SEP[fmt]):]
            got_units = read_unit(unit_txt, fmt)
            if got_units != want_units:
                ctx.fail("unit_text", fmt=fmt, text=out, read=got_units, expected=want_units)
        rd = read_number(num_txt, fmt)
        if rd is None or rd["unc"] is None or rd["sig"] is None:
            ctx.fail("not_of_the_stated_shape", fmt=fmt, text=out, **detail)
            continue
        check_exponent_shape(ctx, rd, fmt, out)
        if c2 is not None:
            judge_callable2(ctx, fmt, out, rd, X, XE, c2, slack_x, slack_e, detail)
            continue
        judge_uncert(ctx, fmt, out, rd, X, XE, P, slack_x, slack_e, bool(conv_x or conv_e), detail)


# ---------------------------------------------------------------------------------------------------------------
# roman
# ---------------------------------------------------------------------------------------------------------------
RE_ROMAN = re.compile(r"^M{0,3}(CM|CD|D?C{0,3})(XC|XL|L?X{0,3})(IX|IV|V?I{0,3})$")
ROMAN_VAL = {"I": 1, "V": 5, "X": 10, "L": 50, "C": 100, "D": 500, "M": 1000}


def roman_decode(s):
    tot = 0
    for i, c in enumerate(s):
        v = ROMAN_VAL[c]
        if i + 1 < len(s) and ROMAN_VAL[s[i + 1]] > v:
            tot -= v
        else:
            tot += v
    return tot


def enum_roman(tier):
    for n in range(1, 4000):
        yield {"n": n}


def check_roman(case, ctx):
    from chempy.printing.numbers import roman
    n = case["n"]
    ctx.nontrivial(n >= 4)
    out = roman(n)
    if not isinstance(out, str) or not out or any(c not in ROMAN_VAL for c in out):
        ctx.fail("not_a_roman_numeral", n=n, text=repr(out))
        return
    ctx.label("subtractive" if any(t in out for t in ("IV", "IX", "XL", "XC", "CD", "CM")) else "additive")
    ctx.require(roman_decode(out) == n, "roman_value", n=n, text=out, read=roman_decode(out))
    ctx.require(RE_ROMAN.match(out) is not None, "roman_not_canonical", n=n, text=out)


# ---------------------------------------------------------------------------------------------------------------
# reaction printed with its parameter
# ---------------------------------------------------------------------------------------------------------------
REACTIONS = [
    ({"N2O5": 1}, {"NO2": 2, "O": 1}),                 # order 1
    ({"H+": 1, "OH-": 1}, {"H2O": 1}),                 # order 2
    ({"NO2": 2}, {"N2O4": 1}),                         # order 2
    ({"Fe+3": 1, "SCN-": 1}, {"FeSCN+2": 1}),          # order 2
    ({"NO": 2, "O2": 1}, {"NO2": 2}),                  # order 3
]
CONC_UNITS = [
    [["molar", 1]], [["millimolar", 1]], [["mol", 1], ["m", -3]], [["mol", 1], ["cm", -3]], [["mmol", 1], ["m", -3]],
    [["micromolar", 1]],
]
TIME_UNITS = ["s", "min", "h", "ms"]
RXN_SEP = {"string": "; ", "latex": "; ", "unicode": "; ", "html": "&#59; "}
RXN_NUMFMT = {"string": "plain", "latex": "latex", "unicode": "unicode", "html": "html"}
RXN_UNITFMT = {"string": "plain", "latex": "latex", "unicode": "unicode", "html": "html"}
RXN_DIGITS = {"string": 3, "latex": 5, "unicode": 5, "html": 5}     # '%.3g' / default fmt=5 of number_to_scientific_*


@st.composite
def reaction_cases(draw):
    ri = draw(st.integers(0, len(REACTIONS) - 1))
    kind = draw(st.sampled_from(["float", "quantity", "quantity", "int", "expr", "quantity"]))
    case = {"rxn": ri, "kind": kind}
    zero = draw(st.integers(0, 5)) == 5         # a parameter of magnitude exactly zero (a switched-off reaction)
    if kind == "int":
        case["param"] = 0 if zero else (draw(st.integers(1, 10 ** 9)) if draw(st.booleans()) else draw(st.integers(1, 20)))
        return case
    x = draw(floats_g4(-150, 150) if kind in ("quantity", "expr") else floats_g4())
    case["param"] = draw(st.sampled_from([0.0, 0, -0.0] if kind == "quantity" else [0.0, -0.0])) if zero else abs(x)
    if kind == "expr":
        # a rate expression holding the number: MassAction([k]) / with unique_keys / MassAction([Arrhenius([A, Ea_over_R])])
        case["form"] = draw(st.sampled_from(["ma", "ma_keys", "ma_arrhenius", "ma_keys_only"]))
        if case["form"] == "ma_arrhenius":
            case["Ea_over_R"] = draw(st.sampled_from([5100.0, 0.0, 12345.678, 250.5]))
        if draw(st.booleans()):
            kind = "quantity"                       # the number inside the expression carries a unit
    if kind == "quantity":
        order = sum(REACTIONS[ri][0].values())
        conc = draw(st.sampled_from(CONC_UNITS))
        t = draw(st.sampled_from(TIME_UNITS))
        spec = [[n, e * (1 - order)] for n, e in conc if e * (1 - order) != 0] + [[t, -1]]
        case["units"] = spec
    return case


RE_ANY_NUMBER = re.compile(r"(?<![A-Za-z_\d.])[-+]?(?:\d+\.?\d*|\.\d+)(?:[eE][-+]?\d+)?")


def number_shown(text, m):
    """Is the number m readable in `text`: some numeric token t that is correct to the digits it prints (|t - m| <= half
    a unit of t's last printed digit) and agrees with m to three significant digits (|t - m| <= 5e-3 |m|, which is at
    least half a unit of m's third digit; printers that trim trailing zeros - numpy's 'array(1.)' for
    1.000000000000001 - show fewer characters than digits); a zero m: a token of value zero."""
    M = Fraction(m)
    for tok in RE_ANY_NUMBER.findall(text):
        try:
            t = Decimal(tok)
        except Exception:  # noqa
            continue
        if M == 0:
            if t == 0:
                return True
            continue
        diff = abs(Fraction(t) - M)
        if diff <= p10(t.as_tuple().exponent) / 2 and diff <= abs(M) * Fraction(5, 1000):
            return True
    return False


def _expr_param(case, value, unit):
    from chempy.kinetics.rates import MassAction, Arrhenius
    import quantities as pq
    k = value if unit is None else pq.Quantity(value, unit)
    form = case["form"]
    if form == "ma":
        return MassAction([k]), [value]
    if form == "ma_keys":
        return MassAction([k], unique_keys=("k_fw",)), [value]
    if form == "ma_keys_only":
        return MassAction(unique_keys=("k_fw",)), []          # no number to show
    if form == "ma_arrhenius":
        ea = case["Ea_over_R"]
        return MassAction([Arrhenius([k, ea if unit is None else pq.Quantity(ea, pq.K)])]), [value, ea]
    raise ValueError(form)


def check_reaction(case, ctx):
    from chempy import Reaction, Substance
    reac, prod = REACTIONS[case["rxn"]]
    kind = case["kind"]
    ctx.label(kind, "order=%d" % sum(reac.values()))
    ctx.nontrivial(True)
    value = case["param"]
    if value == 0:
        ctx.label("zero_magnitude:" + kind)
    want_units = None
    shown_numbers = None
    if kind == "expr":
        unit = unit_object(case["units"]) if "units" in case else None
        param, shown_numbers = _expr_param(case, value, unit)
        ctx.label("expr:" + case["form"], "expr:with_units" if unit is not None else "expr:plain")
    elif kind == "quantity":
        import quantities as pq
        param = pq.Quantity(value, unit_object(case["units"]))
        want_units = unit_dict(case["units"])
    else:
        param = value
    rxn = Reaction(dict(reac), dict(prod), param)
    subst = {k: Substance.from_formula(k) for k in list(reac) + list(prod)}
    for meth in ("string", "latex", "unicode", "html"):
        fn = getattr(rxn, meth)
        args = () if meth == "string" else (subst,)
        body = fn(*args, with_param=False)
        out = sut(lambda: fn(*args, with_param=True))
        if is_err(out):
            ctx.fail("printing_with_param_raises", method=meth, error=repr(out), kind=kind, form=case.get("form"))
            continue
        head = body + RXN_SEP[meth]
        if not isinstance(out, str) or not out.startswith(head) or len(out) == len(head):
            ctx.fail("parameter_not_appended", method=meth, text=repr(out), without_param=repr(body))
            continue
        ptxt = out[len(head):]
        if shown_numbers is not None:
            # an expression object as parameter: its own text follows; every number it holds must be readable there
            for m in shown_numbers:
                if not number_shown(ptxt, m):
                    ctx.fail("expression_parameter_magnitude_not_shown", method=meth, text=out, number=m,
                             form=case.get("form"))
                    break
            continue
        num_txt, unit_txt = ptxt, None
        if want_units is not None:
            cut = " $" if meth == "latex" else " "
            if cut not in ptxt:
                ctx.fail("parameter_unit_missing", method=meth, text=out, units=case["units"])
                continue
            i = ptxt.rindex(cut)
            num_txt, unit_txt = ptxt[:i], ptxt[i + 1:]
            got_units = read_unit(unit_txt, RXN_UNITFMT[meth])
            if got_units is None and meth == "html":
                got_units = read_unit(unit_txt, "plain")
            if got_units != want_units:
                ctx.fail("parameter_unit", method=meth, text=out, read=got_units, expected=want_units)
        rd = read_number(num_txt, RXN_NUMFMT[meth])
        if rd is None or rd["unc"] is not None:
            ctx.fail("parameter_magnitude_not_a_number", method=meth, text=out)
            continue
        check_exponent_shape(ctx, rd, RXN_NUMFMT[meth], out)
        got = dec_value(rd["sig"], rd["exp"])
        exact = Decimal(value)
        if got != exact and got != round_sig(value, RXN_DIGITS[meth]):
            ctx.fail("parameter_magnitude", method=meth, text=out, read=str(got), param=value,
                     expected=str(round_sig(value, RXN_DIGITS[meth])))


SUBCHECKS = [
    SubCheck("sci", check_sci, strategy=sci_cases, quick=3000, thorough=200000,
             rule="1-12 numbers per case: G4 floats x precision 1..10/default or a callable fmt ('%.Ne', '%.Ng', "
                  "'{:.Ne}'.format, '%.Nf'), latex+unicode+html: read back == half-even rounding of the exact binary "
                  "value to the digits requested / printed by the callable"),
    SubCheck("sci_unit", check_sci_unit, strategy=sci_unit_cases(), quick=1500, thorough=60000,
             rule="quantity in 1-4 unit families (exponents -3..3), optional unit= of the same dimension; unit text read "
                  "back to {symbol: exponent}; magnitude as in 'sci', int or callable fmt (converted: to 1e-13 relative)",
             tolerances={"conversion_rel": float(CONV_SLACK)}),
    SubCheck("uncert", check_uncert, strategy=uncert_cases(), quick=6000, thorough=300000,
             rule="x(G4), xe = r|x| with r in [1e-8, 0.5], p in 1..3/default, every 4th case with units (uncertainty as "
                  "argument, as attribute of an UncertainQuantity, or both - then the argument is the one printed), every 8th with a two-argument callable fmt",
             tolerances={"float_rounding_rel": float(FLOAT_SLACK), "conversion_rel": float(CONV_SLACK),
                         "near_power_of_ten_rel": float(NEAR)}),
    SubCheck("roman", check_roman, enumerate=enum_roman, rule="1..3999 exhaustive: own decoder and canonical-numeral regex"),
    SubCheck("reaction", check_reaction, strategy=reaction_cases(), quick=900, thorough=30000,
             rule="5 reactions (order 1-3) x float/int/quantity parameter (unit = conc^(1-order)/time in 6x4 spellings; "
                  "also magnitude zero) or an expression parameter (MassAction / unique_keys / Arrhenius inside, with or "
                  "without units: no exception, parameter text appended, every held number readable to the digits printed and >= 3 digits) "
                  "x string/latex/unicode/html"),
]

# -*- coding: utf-8 -*-
"""C04 - the generated ODE system is exactly net-stoichiometry^T times the reaction rates, in every build configuration.

Translation validation: every generated reaction system (the "program") is compiled by chempy.kinetics.ode.get_odesys /
_create_odesys in up to eight configurations; each resulting right-hand side is compared (a) as a symbolic identity with
a reference model written down from the JSON description and (b) numerically, after binding the free symbols, with the
reference and with the other configurations ("cmp:" labels).
"""
from collections import OrderedDict
from fractions import Fraction

from vlib import env  # noqa  (sys.path)
from vlib.harness import SubCheck, sut, is_err, short
from vlib import gen_c04 as G

PROPERTY = "C04"
LEVEL = "translation_validation"
RULE = ("Programs: 1-6 (thorough 1-8) reactions over 1-6 (1-8) substances in a permuted substance order, built by "
        "construction (every substance occurs, no duplicate stoichiometry, net effect non-zero), with catalysts, inactive "
        "coefficients, zeroth-order steps; rate laws mass-action / Arrhenius / Eyring with int, Fraction or float "
        "constants, about one in nine rate constants / pre-exponential factors exactly zero (0, Fraction(0), 0.0: a "
        "switched-off reaction at any position); in about a fifth of the reactions after the first the rate expression is "
        "the very same object (MassAction / MassAction(Arrhenius|Eyring)) as that of an earlier reaction with another "
        "stoichiometry; in a third of the programs some or all Substance objects carry a name that differs from their "
        "key (descriptive names, aliases, no name, a permutation of the keys).  Each program is built as: inline (include_params=True), unique (MassAction([k], unique_keys), "
        "include_params=False, bound through extra['unique']), named ('k_j'), passive/active substitutions "
        "(temperature value, RampedTemp with/without unique keys, a rate key replaced by a number or by a polynomial in "
        "temperature), cstr=True / explicit feed map, and _create_odesys (plain; with cstr_fr_fc and "
        "parameter_expressions overriding a string-named rate key or a unique key that has a default - and, with the "
        "caller's parameter_symbols, a key that may keep a symbol of its own - by a number, by a0 + a1*temperature or "
        "by a0 + a1*<another rate key>; both with the optional symbol arguments left out or given by the caller: "
        "substance_symbols as a plain dict in a permuted or in substance order or as an OrderedDict, with the caller's "
        "own symbol names and assumptions, parameter_symbols as an OrderedDict in its own key order, time_symbol).  "
        "Non-trivial = at least two reactions share a substance (every program has free "
        "parameters in the unique/named configurations); distinct by case digest.")
ASSUMPTIONS = [
    "reference semantics (vlib/gen_c04.py + ref_eval here): rate_j = k_j(T) * prod c^reac (active reactants only), "
    "dc_i/dt = sum_j net_ij rate_j (+ fr*(fc_i - c_i) for fed substances); Arrhenius k = A exp(-E/T); "
    "Eyring k = c0 T exp(-dH/T) conc0^(1-order)",
    "sympy is trusted to expand a polynomial into monomials (Poly.terms) and to evaluate an expression at rational "
    "points to 45 digits; mpmath (60 digits) evaluates the reference",
    "pyodesys SymbolicSys is trusted to lambdify the expressions it was given (f_cb evaluates odesys.exprs)",
    "symbols handed to _create_odesys by the caller are identified by the key they were given for (dependent variable i "
    "must be the symbol given for substance i, parameter named k the symbol given for key k, the independent variable "
    "the given time symbol); their names carry no meaning",
    "a builder that raises is taken to refuse the program only for the stated reasons (bare-number right-hand side: "
    "AttributeError from pyodesys; a shared key with "
    "_create_odesys' default parameter symbols: ValueError 'Duplicates in keys'); any other exception is a violation",
]

TOL_FLOAT_POLY = 1e-12    # float constants: a handful of roundings (<= ~10 ulp = 2e-15) per coefficient; mutants are O(1)
TOL_FLOAT_EVAL = 1e-10    # double evaluation of exp(-E/T) with E/T <= 40 amplifies ulp errors by <= 40: ~1e-14
TOL_EXACT_EVAL = 1e-30    # exact constants evaluated at 45 digits


def _mp():
    """One 60-digit mpmath context for every high-precision number of this module."""
    global _MP
    if _MP is None:
        import mpmath
        _MP = mpmath.mp.clone()
        _MP.dps = 60
    return _MP


_MP = None


def _mods():
    from chempy import Reaction, ReactionSystem, Substance
    from chempy.kinetics.ode import get_odesys, _create_odesys
    from chempy.kinetics.rates import MassAction, Arrhenius, Eyring, RampedTemp
    from chempy.util._expr import create_Poly
    return locals()


# ---------------------------------------------------------------------------------------------------
# building the chempy objects from the description
# ---------------------------------------------------------------------------------------------------

KEYNAMES = {"ma": ("k",), "arr": ("A", "E"), "eyr": ("c0", "dH")}


def rate_keys(j, rx):
    return ["%s_%d" % (n, j) for n in KEYNAMES[rx["kind"]]]


def dress(M, j, rx, style, shared=False):
    """The `param` object of reaction j (j = index of the group's leader when the object is shared: the keys are the
    leader's).  style: numeric | unique | named.  shared: the result must be one rate-expression *object* that can be
    handed to several reactions (a plain number or a key string is wrapped in MassAction)."""
    par = [G.num(x) for x in rx["par"]]
    kind = rx["kind"]
    uk = tuple(rate_keys(j, rx))
    if kind == "ma":
        if style == "numeric":
            return M["MassAction"]([par[0]]) if shared else par[0]
        if style == "unique":
            return M["MassAction"]([par[0]], unique_keys=uk)
        return M["MassAction"].fk(uk[0]) if shared else uk[0]
    cls = M["Arrhenius"] if kind == "arr" else M["Eyring"]
    if style == "numeric":
        return M["MassAction"](cls(par))
    if style == "named" and kind == "arr":
        return M["MassAction"](cls(unique_keys=uk))
    return M["MassAction"](cls(par, unique_keys=uk))


def build_rsys(M, case, style, override=None):
    names = (case.get("subnames") or {}).get("names") or {}
    subs = OrderedDict((k, M["Substance"](names.get(k, k))) for k in case["subs"])
    rxns = []
    groups = set(rx["share"] for rx in case["rxns"] if "share" in rx)      # leaders whose object is used more than once
    objects = {}
    for j, rx in enumerate(case["rxns"]):
        lead = G.leader(case["rxns"], j)
        if lead in groups:
            if lead not in objects:
                objects[lead] = dress(M, lead, case["rxns"][lead], style, shared=True)
            p = objects[lead]           # the very same object for every member of the group
        else:
            p = dress(M, j, rx, style)
        if override and j in override:
            p = override[j]
        rxns.append(M["Reaction"](dict(rx["reac"]), dict(rx["prod"]), p,
                                  inact_reac=dict(rx["ireac"]) or None, inact_prod=dict(rx["iprod"]) or None))
    return M["ReactionSystem"](rxns, subs)


# ---------------------------------------------------------------------------------------------------
# configurations
# ---------------------------------------------------------------------------------------------------

def configurations(case):
    """List of configuration descriptions.

    free   : {param name: slot}   the parameters the configuration must expose (slot says what the symbol means)
    tmode  : None | 'T' (temperature symbol or value) | 'ramp' (T = T0 + dTdt*time)
    kpoly  : {j: (a0, a1, slot)}  rate constant j replaced by a0 + a1*<value of slot> (slot ('T',) = temperature,
             ('par', m, 0) = the rate constant of reaction m) or, with slot None, by the plain number a0
    """
    rx = case["rxns"]
    thermal = any(r["kind"] != "ma" for r in rx)
    allkeys = {}
    for j, r in enumerate(rx):
        if G.leader(rx, j) == j:
            for i, name in enumerate(rate_keys(j, r)):
                allkeys[name] = ("par", j, i)

    def group(j):
        return [m for m in range(len(rx)) if G.leader(rx, m) == G.leader(rx, j)]
    Tfree = {"temperature": ("T",)} if thermal else {}
    out = []

    def cfg(name, **kw):
        d = {"name": name, "builder": "get", "style": "numeric", "include_params": True, "free": {}, "tmode": "T" if thermal else None,
             "subst": None, "cstr": None, "kpoly": {}, "from_unique": False, "pexpr": False}
        d.update(kw)
        out.append(d)

    # (a) constants inlined; temperature substituted passively
    cfg("inline", subst="passiveT" if thermal else None)
    # (b) unique keys, kept free, bound through extra['unique']; temperature stays a free parameter
    cfg("unique", style="unique", include_params=False, free=dict(allkeys, **Tfree), from_unique=True)
    # (b') unique keys but include_params=True: nothing free
    cfg("unique_inlined", style="unique", include_params=True, free=dict(Tfree))
    # (c) named parameters
    cfg("named", style="named", include_params=False, free=dict(allkeys), subst="passiveT" if thermal else None)
    # (d) substitutions
    if thermal:
        inline = case["ramp_inline"]
        free = {} if inline else dict(allkeys)
        if case["ramp_unique"] and not inline:
            free.update({"T0": ("T0",), "dTdt": ("dTdt",)})
        cfg("ramp", style="numeric" if inline else "unique", include_params=inline, free=free, tmode="ramp",
            subst="rampU" if case["ramp_unique"] else "ramp", from_unique=not inline)
    j = G.leader(rx, case["subst_idx"])
    first = rate_keys(j, rx[j])[0]
    free = {k: v for k, v in allkeys.items() if k != first}
    cfg("subst_key", style="named", include_params=False, free=dict(free, **Tfree), subst=("key", first, j))
    if rx[j]["kind"] == "ma":
        cfg("subst_expr", style="named", include_params=False, free=dict(free, temperature=("T",)), subst=("expr", first, j),
            kpoly={m: tuple(case["pexpr_coef"]) + (("T",),) for m in group(j)}, tmode="T")
        # (d') a unique-key constant with a stored default, passively substituted by exactly zero: the bound value, not
        # the default, must reach the right-hand side (seeded/C04_8)
        cfg("subst_zero", style="unique", include_params=False, free=dict(free, **Tfree), subst=("zero", first, j),
            kpoly={m: (0, 0, None) for m in group(j)}, from_unique=True)
    # (e) CSTR
    style = "numeric" if case["cstr_inline"] else "named"
    free = {} if case["cstr_inline"] else dict(allkeys)
    if case["cstr_true"]:
        fc = OrderedDict((k, "fc_" + k) for k in case["subs"])
        frk = "feedratio"
        arg = True
    else:
        fc = OrderedDict((k, "feed_%d" % case["subs"].index(k)) for k in case["feed_keys"])
        frk = "flow"
        arg = (frk, fc)
    free[frk] = ("fr",)
    for k, n in fc.items():
        free[n] = ("fc", k)
    cfg("cstr", style=style, include_params=case["cstr_inline"], free=free, cstr=(frk, fc), cstr_arg=arg,
        subst="passiveT" if thermal else None)
    # (f) the explicit builder (mass-action only: it evaluates rates with the `math` backend)
    if not thermal:
        cfg("create", builder="create", style="named" if case["cstr_true"] else "unique", include_params=False, free=dict(allkeys))
        jp = G.leader(rx, case["pexpr_idx"])
        kp = rate_keys(jp, rx[jp])[0]
        # parameter_expressions overrides the rate key kp by a number, by a0 + a1*temperature or by a0 + a1*<another rate
        # key>; the overridden key is a string-named parameter or a unique key with a default, and - with the caller's own
        # parameter_symbols - may or may not have a symbol of its own.  With the default symbols _create_odesys refuses
        # string + number (AttributeError), string + other key ("Duplicates in keys") and unique key + temperature
        # (KeyError: no symbol is made for it): there the way the constant is written follows the kind of override.
        px = case.get("pexpr") or {"style": "named", "kind": "polyT", "other": 0, "keep_key": False}
        kind, pstyle = px["kind"], px["style"]
        others = [m for m in range(len(rx)) if G.leader(rx, m) == m and m != jp]
        if kind == "polyK" and not others:
            kind = "polyT"
        own_symbols = (case.get("sym") or {}).get("params") is not None
        if not own_symbols:
            pstyle = "named" if kind == "polyT" else "unique"
        keep = px["keep_key"] if own_symbols else pstyle == "unique"      # kp stays a declared (unused) parameter
        free = {k: v for k, v in allkeys.items() if k != kp or keep}
        slot = None
        if kind == "polyT":
            free["temperature"] = slot = ("T",)
        elif kind == "polyK":
            slot = ("par", others[px["other"] % len(others)], 0)
        coef = (case["pexpr_coef"][0], case["pexpr_coef"][1] if slot else 0, slot)
        fc = OrderedDict((k, "feed_%d" % case["subs"].index(k)) for k in case["feed_keys"])
        free["flow"] = ("fr",)
        for k, n in fc.items():
            free[n] = ("fc", k)
        cfg("create_x", builder="create", style=pstyle, include_params=False, free=free, cstr=("flow", fc), pexpr=True,
            kpoly={m: coef for m in group(jp)}, tmode="T" if kind == "polyT" else None, pexpr_key=kp,
            pexpr_var=None if slot is None else "temperature" if slot == ("T",) else rate_keys(slot[1], rx[slot[1]])[0],
            pexpr_kind="%s:%s:%s" % (pstyle, kind, "own_symbols_with_key" if own_symbols and keep else
                                     "own_symbols_without_key" if own_symbols else "default_symbols"))
    return out


# SymbolicSys options handed through the builders' documented pass-through (**kwargs / symbolic_kw): skip the eager
# symbolic Jacobian (half of the build time); the 'inline' and 'create' configurations use the builders' defaults.
LEAN = {"jac": False, "dfdx": False}


def build(M, case, c):
    """Runs the builder of configuration c.  Returns (odesys, extra)."""
    T = temperature(case)
    if c["builder"] == "create":
        rsys = build_rsys(M, case, c["style"])
        kw = {}
        if c["name"] != "create":
            kw["symbolic_kw"] = dict(LEAN)
        c["given"] = given_symbols(case, c)
        for arg in ("substance_symbols", "parameter_symbols", "time_symbol"):
            if c["given"][arg] is not None:
                kw[arg] = c["given"][arg]
        if c["cstr"]:
            kw["rates_kw"] = dict(cstr_fr_fc=c["cstr"])
        if c["pexpr"]:
            a0, a1, _ = c["kpoly"][G.leader(case["rxns"], case["pexpr_idx"])]
            if c["pexpr_var"] is None:
                kw["parameter_expressions"] = {c["pexpr_key"]: G.num(a0)}
            else:
                kw["parameter_expressions"] = {c["pexpr_key"]: M["create_Poly"](c["pexpr_var"])([G.num(a0), G.num(a1)])}
        return M["_create_odesys"](rsys, **kw)
    rsys = build_rsys(M, case, c["style"])
    kw = {"include_params": c["include_params"]}
    if c["name"] != "inline":
        kw.update(LEAN)
    s = c["subst"]
    if s == "passiveT":
        kw["substitutions"] = {"temperature": G.num(T)}
    elif s == "ramp":
        kw["substitutions"] = {"temperature": M["RampedTemp"]([G.num(case["T0"]), G.num(case["dTdt"])])}
    elif s == "rampU":
        kw["substitutions"] = {"temperature": M["RampedTemp"]([G.num(case["T0"]), G.num(case["dTdt"])], ("T0", "dTdt"))}
    elif isinstance(s, tuple) and s[0] == "key":
        kw["substitutions"] = {s[1]: G.num(case["rxns"][s[2]]["par"][0])}
    elif isinstance(s, tuple) and s[0] == "zero":
        kw["substitutions"] = {s[1]: 0}
    elif isinstance(s, tuple) and s[0] == "expr":
        Poly = M["create_Poly"]("temperature")
        kw["substitutions"] = {s[1]: Poly([G.num(x) for x in case["pexpr_coef"]])}
    if c["cstr"]:
        kw["cstr"] = c["cstr_arg"]
    return M["get_odesys"](rsys, **kw)


def given_symbols(case, c):
    """The caller's own symbols for the optional arguments of _create_odesys, built from case['sym'].

    {"substance_symbols": None | dict | OrderedDict (substance key -> Symbol), "parameter_symbols": None | OrderedDict
    (parameter key -> Symbol), "time_symbol": None | Symbol}.  All names are distinct (c_/y prefixes or substance keys for
    substances, q<i> for parameters, tau/x/t_ for time; parameter keys are k_j, flow, feed_i, temperature)."""
    import sympy
    sym = case.get("sym") or {"subst": "default", "params": None, "time": None}
    out = {"substance_symbols": None, "parameter_symbols": None, "time_symbol": None}
    if sym["subst"] != "default":
        order = list(sym["order"]) if sym["subst"] == "dict_perm" else list(case["subs"])

        def name(k):
            if sym["names"] == "prefix":
                return "c_" + k
            if sym["names"] == "index":
                return "y%d" % order.index(k)
            return order[(order.index(k) + 1) % len(order)]
        pairs = [(k, sympy.Symbol(name(k), **sym["assume"])) for k in order]
        out["substance_symbols"] = OrderedDict(pairs) if sym["subst"] == "odict" else dict(pairs)
    if sym["params"] is not None:
        keys = sorted(c["free"])
        r = sym["params"]["rot"] % len(keys) if keys else 0
        keys = keys[r:] + keys[:r]
        if sym["params"]["rev"]:
            keys.reverse()
        out["parameter_symbols"] = OrderedDict((k, sympy.Symbol("q%d" % i)) for i, k in enumerate(keys))
    if sym["time"] is not None:
        out["time_symbol"] = sympy.Symbol(sym["time"])
    return out


def constant_rhs(case, c):
    """True when, in configuration c, some substance's right-hand side contains no symbol at all: it is not fed and
    every reaction it occurs in is of order zero with an inlined plain number as rate constant."""
    inlined_all = c["include_params"] or c["style"] == "numeric"

    def bare_number(j, rx):
        if rx["reac"] or rx["kind"] != "ma":
            return False
        if j in c["kpoly"]:
            return c["kpoly"][j][2] is None         # replaced by a plain number
        return inlined_all or (isinstance(c["subst"], tuple) and c["subst"][0] == "key"
                               and c["subst"][2] == G.leader(case["rxns"], j))
    for s in case["subs"]:
        if c["cstr"] and s in c["cstr"][1]:
            continue
        # every reaction in which s occurs contributes a term rate*net (also when net == 0); the sum is a bare Python
        # number exactly when every such rate is one
        occurs = [(j, rx) for j, rx in enumerate(case["rxns"]) if s in G.rx_keys(rx)]
        if occurs and all(bare_number(j, rx) for j, rx in occurs):
            return True
    return False


def valid_feed_map(got, subs, other_names):
    """extra['cstr_fr_fc'] for cstr=True: (flow key, {substance: feed key}) covering every substance with distinct
    string keys that collide neither with substances nor with the other parameter names."""
    if not (isinstance(got, tuple) and len(got) == 2 and isinstance(got[0], str) and hasattr(got[1], "items")):
        return False
    names = list(got[1].values()) + [got[0]]
    return (sorted(got[1]) == sorted(subs) and all(isinstance(v, str) for v in names)
            and len(set(names)) == len(subs) + 1 and not set(names) & (set(subs) | set(other_names)))


def temperature(case):
    """T at the evaluation point (JSON number in the case's mode): T0 + dTdt*t."""
    v = G.frac(case["T0"]) + G.frac(case["dTdt"]) * G.frac(case["t"])
    if case["mode"] == "float":
        return float(v)
    if v.denominator == 1:
        return int(v)
    return "%d/%d" % (v.numerator, v.denominator)


# ---------------------------------------------------------------------------------------------------
# reference model
# ---------------------------------------------------------------------------------------------------

def base_values(case):
    """slot -> Fraction at the evaluation point of the case."""
    v = {("t",): G.frac(case["t"]), ("T0",): G.frac(case["T0"]), ("dTdt",): G.frac(case["dTdt"]), ("fr",): G.frac(case["fr"])}
    v[("T",)] = G.frac(temperature(case))
    for k in case["subs"]:
        v[("c", k)] = G.frac(case["conc"][k])
        v[("fc", k)] = G.frac(case["fc"][k])
    for j, rx in enumerate(case["rxns"]):
        for i, x in enumerate(rx["par"]):
            v[("par", j, i)] = G.frac(x)
    return v


def perturb(values, free_slots, p):
    """Point number p (0 = the case's own point): the free symbols get other (non-zero) rational values."""
    if p == 0:
        return dict(values)
    out = dict(values)
    for idx, slot in enumerate(sorted(free_slots, key=repr)):
        v = values[slot]
        if slot in (("T",), ("T0",)):
            out[slot] = v * (1 + Fraction(1, 9 + p))
        elif v == 0:
            out[slot] = Fraction(idx + 1, 3 + p)
        else:
            out[slot] = v * (1 + Fraction(idx % 5 + 1, 4 + p))
    return out


def ref_eval(case, c, values):
    """Reference right-hand side at `values` (slot -> Fraction), 60-digit mpmath.

    Returns (f, fabs, rates): per substance value, per substance sum of |terms|, per reaction rate."""
    mp = _mp()

    def m(fr):
        return mp.mpf(fr.numerator) / mp.mpf(fr.denominator)
    if c["tmode"] == "ramp":
        T = m(values[("T0",)]) + m(values[("dTdt",)]) * m(values[("t",)])
    else:
        T = m(values[("T",)])
    conc = {k: m(values[("c", k)]) for k in case["subs"]}
    rates = []
    for j, rx in enumerate(case["rxns"]):
        par = [m(values[("par", G.leader(case["rxns"], j), i)]) for i in range(len(rx["par"]))]
        if j in c["kpoly"]:
            a0, a1 = [m(G.frac(x)) for x in c["kpoly"][j][:2]]
            slot = c["kpoly"][j][2]
            k = a0 if slot is None else a0 + a1 * (T if slot == ("T",) else m(values[slot]))
        elif rx["kind"] == "ma":
            k = par[0]
        elif rx["kind"] == "arr":
            k = par[0] * mp.exp(-par[1] / T)
        else:
            order = sum(rx["reac"].values())
            k = par[0] * T * mp.exp(-par[1] / T) * par[2] ** (1 - order)
        r = k
        for s, n in rx["reac"].items():
            r = r * conc[s] ** n
        rates.append(r)
    f, fabs = [], []
    for s in case["subs"]:
        tot = mp.mpf(0)
        tab = mp.mpf(0)
        for j, rx in enumerate(case["rxns"]):
            n = G.net(rx, s)
            if n:
                tot += n * rates[j]
                tab += abs(n * rates[j])
        if c["cstr"] and s in c["cstr"][1]:
            fr = m(values[("fr",)])
            fc = m(values[("fc", s)])
            tot += fr * (fc - conc[s])
            tab += abs(fr * fc) + abs(fr * conc[s])
        f.append(tot)
        fabs.append(tab)
    return f, fabs, rates


def ref_polys(case, c, inv_free):
    """Reference polynomials (one per substance) for a mass-action configuration.

    Generators: 'c:<substance>' and 'p:<parameter name>'.  inv_free: slot -> parameter name for the free symbols."""
    polys = [G.RefPoly() for _ in case["subs"]]
    for j, rx in enumerate(case["rxns"]):
        if j in c["kpoly"]:
            a0, a1 = [G.frac(x) for x in c["kpoly"][j][:2]]
            slot = c["kpoly"][j][2]
            kterms = [(a0, [])]
            if slot is not None:
                kterms.append((a1, [("p:" + ("temperature" if slot == ("T",) else inv_free[slot]), 1)]))
        elif ("par", G.leader(case["rxns"], j), 0) in inv_free:
            kterms = [(Fraction(1), [("p:" + inv_free[("par", G.leader(case["rxns"], j), 0)], 1)])]
        else:
            kterms = [(G.frac(rx["par"][0]), [])]
        cpow = [("c:" + s, n) for s, n in rx["reac"].items()]
        for i, s in enumerate(case["subs"]):
            n = G.net(rx, s)
            if n:
                for coef, pw in kterms:
                    polys[i].add_term(n * coef, pw + cpow)
    if c["cstr"]:
        frk, fc = c["cstr"]
        for i, s in enumerate(case["subs"]):
            if s in fc:
                polys[i].add_term(1, [("p:" + frk, 1), ("p:" + fc[s], 1)])
                polys[i].add_term(-1, [("p:" + frk, 1), ("c:" + s, 1)])
    return polys


# ---------------------------------------------------------------------------------------------------
# the check
# ---------------------------------------------------------------------------------------------------

def _to_fraction(x):
    import sympy
    if isinstance(x, sympy.Rational):
        return Fraction(int(x.p), int(x.q))
    return Fraction(float(x))


def check_program(case, ctx):
    import sympy
    mpmath = _mp()
    M = _mods()
    rxns = case["rxns"]
    subs = case["subs"]
    thermal = any(r["kind"] != "ma" for r in rxns)
    exact = case["mode"] != "float"
    shared = False
    seen = set()
    for rx in rxns:
        ks = set(G.rx_keys(rx))
        if ks & seen:
            shared = True
        seen |= ks
    ctx.nontrivial(len(rxns) >= 2 and shared)
    ctx.label("mode=" + case["mode"], "thermal" if thermal else "mass_action", "nr=%d" % min(len(rxns), 5),
              "ns=%d" % min(len(subs), 5))
    if subs != sorted(subs):
        ctx.label("order_not_sorted")
    if any(rx["ireac"] or rx["iprod"] for rx in rxns):
        ctx.label("inactive_coeff")
    if any(set(rx["reac"]) & set(rx["prod"]) for rx in rxns):
        ctx.label("both_sides")
    if any(not rx["reac"] for rx in rxns):
        ctx.label("zeroth_order")
    shared = any("share" in rx for rx in rxns)
    if shared:
        ctx.label("shared_rate_object", "shared_rate_object:" + ("thermal" if any(
            rx["kind"] != "ma" for rx in rxns if "share" in rx) else "mass_action"))
    renamed = (case.get("subnames") or {}).get("names") or {}
    if renamed:
        ctx.label("substance_name_differs_from_key", "substance_names=" + case["subnames"]["style"])
    zeros = [j for j, rx in enumerate(rxns) if G.frac(rx["par"][0]) == 0]
    if zeros:
        ctx.label("zero_rate_constant", "zero_rate_constant:%s" % ("all" if len(zeros) == len(rxns) else
                                                                     "not_last" if zeros[0] < len(rxns) - 1 else "last"))

    base = base_values(case)
    numeric_results = {}
    for c in configurations(case):
        name = c["name"]
        # Programs a builder is known to refuse loudly: the program is not "accepted by the builder" in this configuration;
        # if it is accepted it is checked like any other.  (label, exception types, message part)
        refusals = []
        if constant_rhs(case, c):
            # some right-hand side is a bare Python number: pyodesys cannot take it and the builder raises
            # (AttributeError: 'int' object has no attribute 'free_symbols' / 'has')
            refusals.append(("constant_rhs", ("AttributeError",), "object has no attribute"))
        if shared and c["builder"] == "create" and (case.get("sym") or {}).get("params") is None:
            # _create_odesys derives its default parameter symbols per reaction and refuses a key met twice
            refusals.append(("shared_key_with_default_parameter_symbols", ("ValueError",), "Duplicates in keys"))
        if refusals:
            built = sut(build, M, case, c)
            if is_err(built):
                why = [r[0] for r in refusals if built.type in r[1] and r[2] in built.msg]
                if not why:
                    ctx.fail("builder_raises", cfg=name, error=repr(built))
                ctx.label(*("rejected:" + w for w in (why or ["unexpected"])))
                continue
        else:
            built = build(M, case, c)
        od, extra = built
        ctx.label("cfg:" + name)
        if c["pexpr"]:
            ctx.label("parameter_expressions=" + c["pexpr_kind"])
        # ---- shape and names ---------------------------------------------------------------------------
        if list(od.names) != list(subs):
            ctx.fail("names_order", cfg=name, got=list(od.names), expected=list(subs))
            continue
        if len(od.exprs) != len(subs) or len(od.dep) != len(subs):
            ctx.fail("number_of_equations", cfg=name, got=len(od.exprs), expected=len(subs))
            continue
        pn = list(od.param_names)
        if c["builder"] == "get":
            if c["cstr"]:
                got_cstr = extra.get("cstr_fr_fc")
                if c["cstr_arg"] is True:
                    # cstr=True: chempy chooses the feed keys and reports them; any one-to-one naming is acceptable
                    placeholders = set(c["cstr"][1].values()) | {c["cstr"][0]}
                    okmap = valid_feed_map(got_cstr, subs, set(c["free"]) - placeholders)
                    if not okmap:
                        ctx.fail("cstr_fr_fc_reported", cfg=name, got=short(repr(got_cstr), 200))
                        continue
                    for nm in list(c["cstr"][1].values()) + [c["cstr"][0]]:
                        c["free"].pop(nm)
                    c["cstr"] = (got_cstr[0], OrderedDict(got_cstr[1]))
                    c["free"][got_cstr[0]] = ("fr",)
                    for k, nm in got_cstr[1].items():
                        c["free"][nm] = ("fc", k)
                elif not got_cstr or got_cstr[0] != c["cstr"][0] or dict(got_cstr[1]) != dict(c["cstr"][1]):
                    ctx.fail("cstr_fr_fc_reported", cfg=name, got=short(repr(got_cstr), 200))
                    continue
            if c["from_unique"]:
                uq = extra["unique"]
                for k, slot in c["free"].items():
                    if slot[0] == "par" and c["style"] == "unique":
                        want = G.num(rxns[slot[1]]["par"][slot[2]])
                        if k not in uq or uq[k] != want or type(uq[k]) is not type(want):
                            ctx.fail("unique_default_value", cfg=name, key=k, got=repr(uq.get(k)), expected=repr(want))
                            break
        if sorted(pn) != sorted(c["free"]) or len(od.params) != len(pn):
            ctx.fail("param_names", cfg=name, got=sorted(pn), expected=sorted(c["free"]))
            continue
        # ---- symbol table --------------------------------------------------------------------------------
        given = c.get("given") or {}
        if given.get("substance_symbols") is not None:
            # the caller's own symbols: equation i must belong to the symbol given for substance i (looked up by key)
            ctx.label("create:substance_symbols=" + case["sym"]["subst"])
            if case["sym"]["subst"] == "dict_perm" and list(case["sym"]["order"]) != list(subs):
                ctx.label("create:substance_symbols_in_other_order")
            want = [given["substance_symbols"][s] for s in subs]
            if list(od.dep) != want:
                ctx.fail("dependent_variable_is_not_the_given_symbol", cfg=name, got=[str(d) for d in od.dep],
                         expected=[str(d) for d in want], substances=list(subs))
                continue
        if given.get("parameter_symbols") is not None:
            ctx.label("create:parameter_symbols_given")
            want = [given["parameter_symbols"][k] for k in pn]
            if list(od.params) != want:
                ctx.fail("parameter_is_not_the_given_symbol", cfg=name, got=[str(d) for d in od.params],
                         expected=[str(d) for d in want], param_names=pn)
                continue
        if given.get("time_symbol") is not None:
            ctx.label("create:time_symbol_given")
            if od.indep != given["time_symbol"]:
                ctx.fail("independent_variable_is_not_the_given_symbol", cfg=name, got=str(od.indep),
                         expected=str(given["time_symbol"]))
                continue
        sym_slot = {}
        for s, d in zip(subs, od.dep):
            sym_slot[d] = ("c", s)
        for k, p in zip(pn, od.params):
            sym_slot[p] = c["free"][k]
        sym_slot[od.indep] = ("t",)
        if len(sym_slot) != len(subs) + len(pn) + 1:
            ctx.fail("symbols_not_distinct", cfg=name)
            continue
        inv_free = {slot: k for k, slot in c["free"].items()}
        stray = None
        for e in od.exprs:
            for fs in sympy.sympify(e).free_symbols:
                if fs not in sym_slot:
                    stray = str(fs)
        if stray is not None:
            ctx.fail("unbound_symbol_in_rhs", cfg=name, symbol=stray)
            continue
        # ---- (1) symbolic identity -------------------------------------------------------------------------
        polynomial = not thermal and c["tmode"] != "ramp"
        if polynomial:
            ctx.label("cmp:%s~refpoly" % name)
            gens, gnames = [], []
            for s, d in zip(subs, od.dep):
                gens.append(d)
                gnames.append("c:" + s)
            for k, p in zip(pn, od.params):
                gens.append(p)
                gnames.append("p:" + k)
            ref = ref_polys(case, c, inv_free)
            bad = False
            for i, s in enumerate(subs):
                e = sympy.sympify(od.exprs[i])
                if od.indep in e.free_symbols:
                    ctx.fail("time_in_autonomous_rhs", cfg=name, substance=s)
                    bad = True
                    break
                try:
                    terms = sympy.Poly(sympy.expand(e), *gens).terms()
                except sympy.PolynomialError:
                    ctx.fail("rhs_not_polynomial", cfg=name, substance=s, expr=str(e)[:200])
                    bad = True
                    break
                got = {}
                for mono, coef in terms:
                    key = tuple(sorted((g, int(p)) for g, p in zip(gnames, mono) if p))
                    got[key] = got.get(key, Fraction(0)) + _to_fraction(coef)
                want, wabs = ref[i].c, ref[i].a
                for key in set(got) | set(want):
                    g = got.get(key, Fraction(0))
                    w = want.get(key, Fraction(0))
                    # exact constants: exact identity.  float constants: relative to the sum of |contributions|
                    tol = Fraction(0) if exact else Fraction(TOL_FLOAT_POLY) * wabs.get(key, Fraction(0))
                    if abs(g - w) > tol:
                        ctx.fail("rhs_symbolic_mismatch", cfg=name, substance=s, monomial=list(map(list, key)),
                                 got=str(g), expected=str(w), expr=str(e)[:300])
                        bad = True
                        break
                if bad:
                    break
            if bad:
                continue
        else:
            ctx.label("cmp:%s~refpoints" % name)
            free_slots = list(sym_slot.values())
            bad = False
            for p in range(3):
                vals = perturb(base, free_slots, p)
                f, fabs, _ = ref_eval(case, c, vals)
                sub_map = {sy: sympy.Rational(vals[sl].numerator, vals[sl].denominator) for sy, sl in sym_slot.items()}
                for i, s in enumerate(subs):
                    e = sympy.sympify(od.exprs[i]).xreplace(sub_map)
                    got = mpmath.mpf(str(sympy.N(e, 45)))
                    # chempy's expression is exact only when no Float entered it (float constants, or int/int
                    # division inside Arrhenius/Eyring with a passive temperature): double-precision tolerance then
                    is_exact = exact and not sympy.sympify(od.exprs[i]).atoms(sympy.Float)
                    tol = (TOL_EXACT_EVAL if is_exact else TOL_FLOAT_EVAL) * fabs[i]
                    if abs(got - f[i]) > tol:
                        ctx.fail("rhs_point_mismatch", cfg=name, substance=s, point=p, got=str(got)[:40],
                                 expected=mpmath.nstr(f[i], 30), scale=mpmath.nstr(fabs[i], 6),
                                 expr=str(od.exprs[i])[:300])
                        bad = True
                        break
                if bad:
                    break
            if bad:
                continue
        # ---- (2) numeric evaluation after binding every free symbol ------------------------------------------
        f, fabs, rates = ref_eval(case, c, base)
        pvals = []
        for k in pn:
            v = base[c["free"][k]]
            if c["from_unique"] and c["builder"] == "get" and extra["unique"].get(k) is not None:
                v = Fraction(extra["unique"][k])      # bind through the defaults chempy reports
            pvals.append(float(v))
        yvals = [float(base[("c", s)]) for s in subs]
        tval = float(base[("t",)])
        res = sut(od.f_cb, tval, yvals, pvals)
        if is_err(res):
            ctx.fail("f_cb_raises", cfg=name, error=repr(res))
            continue
        res = [float(x) for x in res]
        ctx.label("cmp:%s~ref" % name)
        ok = len(res) == len(subs)
        for i in range(len(subs)):
            # doubles: relative to the sum of |terms| (cancellation between reactions)
            if not ok or not abs(res[i] - float(f[i])) <= TOL_FLOAT_EVAL * float(fabs[i]):
                ctx.fail("f_cb_value", cfg=name, substance=subs[i] if ok else None, got=res, expected=[float(x) for x in f],
                         scale=[float(x) for x in fabs])
                ok = False
                break
        if not ok:
            continue
        numeric_results[name] = (res, [float(x) for x in fabs], c)
        if c["builder"] == "get":
            rr = sut(extra["rate_exprs_cb"], tval, yvals, pvals)
            if is_err(rr):
                ctx.fail("rate_exprs_cb_raises", cfg=name, error=repr(rr))
                continue
            rr = [float(x) for x in rr]
            ctx.label("cmp:%s.rates~ref" % name)
            if len(rr) != len(rxns) or any(not abs(a - float(b)) <= TOL_FLOAT_EVAL * abs(float(b)) for a, b in zip(rr, rates)):
                ctx.fail("rate_exprs_cb_value", cfg=name, got=rr, expected=[float(x) for x in rates])
                continue
    # ---- (3) differential: all configurations agree after binding --------------------------------------------
    if "inline" in numeric_results:
        r0, a0, _ = numeric_results["inline"]
        for name, (res, fabs, c) in sorted(numeric_results.items()):
            if name == "inline":
                continue
            adj = list(res)
            scale = list(fabs)
            if c["cstr"]:       # remove the feed term (written down from the description) before comparing
                fr = float(base[("fr",)])
                for i, s in enumerate(subs):
                    if s in c["cstr"][1]:
                        adj[i] -= fr * (float(base[("fc", s)]) - float(base[("c", s)]))
            if c["kpoly"]:
                continue        # a rate constant was replaced by another function: not the same right-hand side
            ctx.label("cmp:%s~inline" % name)
            for i in range(len(subs)):
                if not abs(adj[i] - r0[i]) <= 2 * TOL_FLOAT_EVAL * max(scale[i], a0[i]):
                    ctx.fail("configurations_disagree", cfg=name, substance=subs[i], got=adj, inline=r0)
                    break


SUBCHECKS = [
    SubCheck("programs", check_program, strategy=G.programs(max_sub=6, max_rxn=6), quick=400, thorough=0,
             rule="1-6 reactions, 1-6 substances, all configurations per program",
             tolerances={"float_poly_coeff_rel": TOL_FLOAT_POLY, "float_eval_rel_sum_abs_terms": TOL_FLOAT_EVAL,
                         "exact_eval_rel": TOL_EXACT_EVAL}),
    SubCheck("programs_large", check_program, strategy=G.programs(max_sub=8, max_rxn=8), quick=60, thorough=4000,
             rule="1-8 reactions, 1-8 substances, all configurations per program",
             tolerances={"float_poly_coeff_rel": TOL_FLOAT_POLY, "float_eval_rel_sum_abs_terms": TOL_FLOAT_EVAL,
                         "exact_eval_rel": TOL_EXACT_EVAL}),
]
SUBCHECKS[0].thorough = 4000

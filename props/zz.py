"""Demo/self-test of the stateful path of the harness (not a property; not registered)."""
from hypothesis import strategies as st
from hypothesis.stateful import RuleBasedStateMachine, rule, invariant, initialize
from vlib.harness import SubCheck, machine_guard

PROPERTY = "ZZ"
RULE = "demo"


def apply_op(state, op, ctx):
    if op[0] == "add":
        state["x"] += op[1]
    elif op[0] == "neg":
        state["x"] = -state["x"]
    ctx.require(state["x"] < 40, "too_big", x=state["x"])


def machine(ctx):
    class M(RuleBasedStateMachine):
        def __init__(self):
            super().__init__()
            self.history = []
            self.state = {"x": 0}
            ctx.begin_case(None)

        def _do(self, op):
            self.history.append(op)
            ctx._cur_case = {"history": self.history}
            machine_guard(ctx, self.history, lambda: apply_op(self.state, op, ctx))

        @rule(n=st.integers(1, 9))
        def add(self, n):
            self._do(["add", n])

        @rule()
        def neg(self):
            self._do(["neg"])

        def teardown(self):
            ctx.nontrivial(len(self.history) >= 3)
            ctx.end_case({"history": self.history})
    return M


def replay_history(sub_name, case, ctx):
    ctx.begin_case(case)
    state = {"x": 0}
    for op in case["history"]:
        apply_op(state, op, ctx)
    ctx.end_case(case)


SUBCHECKS = [SubCheck("m", machine=machine, quick=200, thorough=2000, steps=(20, 40), rule="demo")]

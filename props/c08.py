# -*- coding: utf-8 -*-
"""C08 - equilibrium compositions reported with `success and sane` are genuine; the default chain does succeed on the
well-conditioned homogeneous domain; single equilibria agree with the bracketing scalar solver."""
import math
import warnings

from vlib import env  # noqa  (sys.path)
from vlib.harness import SubCheck, sut, is_err, short, canon
from vlib import gen_c07 as G

PROPERTY = "C08"
LEVEL = "exploration"
RULE = ("Homogeneous domain: 1-4 distinct equilibria of a pool of 17 acid/base/complexation equilibria (water, NH4+, "
        "HOAc, H2CO3, HCO3-, H3PO4 series, HF, HCN, Cu-NH3 1-4, Fe-SCN, Ag-NH3 1-2), log10 K = textbook value + U(-2, 2) "
        "(1/1000-decade grid), every species of the chosen reactions starts at 10^U(-6, 0) (H2O: 55.5); solver chains "
        "root() default (NumSysLog), (NumSysLog, NumSysLin), (NumSysLin,) and EqSystem.solve().  Every result flagged "
        "`success and sane` is judged against x >= 0, element/charge totals of the initial state and Q = K, all "
        "computed from the case description; anything else is inconclusive.  'success_rate' runs the default chain on "
        "batches of 200 cases of the same domain and requires >= 190 successes per batch; 'success_rate_solve' / "
        "'success_rate_loglin' do the same for EqSystem.solve(init_concs) (whose default chain is (NumSysLog, NumSysLin)) "
        "and for root(NumSys=(NumSysLog, NumSysLin)) on the 200 generated cases plus their 200 mirror images (K shift "
        "d -> -d, log10 c0 -> -6 - log10 c0, both maps of the domain onto itself): >= 380 of 400.  Structural clause of "
        "'under each solver chain' (homogeneous, lin_chain, root_x0, root_options): the stages recorded in root()'s info "
        "are of the requested formulations in the requested order (Log stage: x_vecs[k] = exp(stage x); Lin: equal).  "
        "'single' compares "
        "one-equilibrium systems with chempy._equilibrium.solve_equilibrium.  'precipitation': one salt "
        "MX(s) = M + X (NaCl, AgCl, BaSO4, KNO3; CaF2 in 'precipitation_1_2'), Ksp = 10^U(-4, 0), initial amounts "
        "10^U(-3, 1) or zero in five shapes, chains (Lin,), (Log,), (Log, Lin) with rref_preserv=True, tol=1e-12 as in "
        "the repository's test, the reaction written as dissolution (K = Ksp) or as precipitation (K = 1/Ksp).  "
        "'precipitation_near*': the same systems started *near saturation*: total cation C = 10^U(-3, 1), total anion "
        "A = (Ksp (1 + delta) / C)^(1/n) (inside [1e-3, 10] as well), so that the ion product of the all-dissolved state "
        "is Ksp (1 + delta), delta of either sign with |delta| log-uniform in [1e-9, 1e-2]; none or 0.1-99.9 % of the "
        "largest possible amount of solid present initially; same chains, same oracle.  'series': the homogeneous "
        "domain (1-3 equilibria) through EqSystem.roots (one varied substance; chains default, (Log, Lin), (Lin,)) and "
        "EqSystem.solve(init_concs, varied) (one or two varied substances), 2-4 values 10^U(-6, 0) per varied substance "
        "in arbitrary (unsorted) order, two varied keys handed over in substance order or reversed; every grid point "
        "flagged success-and-sane is judged like a single solve against its own initial state (base state with the "
        "varied entries replaced), the axes being the ones chempy names (result.varied_keys), and the result arrays "
        "must have one entry per grid point.  'root_x0': root(init_concs, x0=ndarray in substance order) on the "
        "homogeneous domain (1-3 equilibria; chains (Lin,), default, (Log, Lin)) with a guess whose element/charge totals "
        "differ from those of init_concs - init_concs scaled by 10^+-[0.1, 1], a random positive vector 10^U(-6, 0), the "
        "default-chain solution of another random initial state - or the solution itself; 'root_options': root() with "
        "rref_equil, rref_preserv, neqsys_type (chained_conditional, conditional_chained, static_conditions), tol (1e-8, "
        "1e-10, 1e-12) and method (default, lm), a third of the cases also with a scaled / random x0; both judged against "
        "init_concs exactly like a plain solve (a guess that does not converge is inconclusive).  'linrel_chains': the "
        "homogeneous domain through (NumSysLinRel,) and (NumSysLog, NumSysLinRel) (also offered to 'series' roots); "
        "'reuse': one get_neqsys() object of any of the five root chains passed as neqsys= to root() for 2-3 random "
        "initial states of the same system, each result judged against the initial state of its own call.  "
        "Non-trivial = at least two equilibria sharing a species and success reported; a precipitation case that "
        "ends with solid present, or a near-saturation case that starts supersaturated and ends without solid; a "
        "series with at least two judged grid points; a root() success with a non-default option or with a guess whose "
        "totals differ from the initial state's; distinct by case digest.")
ASSUMPTIONS = ["vlib/gen_c07.py COMP table and pool reactions (asserted balanced at import)",
               "the oracle evaluates Q and the totals of the returned float64 vector with mpmath (30 digits), so the "
               "judgement itself adds no rounding",
               "numerical work is delegated to pyneqsys/scipy (MINPACK); a run without `success and sane`, or an "
               "exception from the solver stack, is inconclusive (counted), never a violation (in 'series' an exception "
               "with no pyneqsys/scipy/numpy frame in its traceback is chempy's own and is reported)",
               "the known-finding signature fields (solver_own_residual, own_over_oracle, last_stage_success, "
               "lsq_stationarity) only classify a failure the oracle has already established; they never excuse one "
               "unless an open entry of known_findings.d/C08.json names that exact signature"]

Q_RTOL = 1e-6        # |Q/K - 1|.  The solvers are run with their default tol=1e-8 (1e-12 for precipitation), a *step*
#                      criterion on the internal variables (ln c for NumSysLog: |ln c| <= 37, so an accepted step can move a
#                      concentration by ~1e-6 relative in the worst case); converged runs on the pinned tree show
#                      |Q/K - 1| <= 5e-10 and conservation errors <= 1.2e-8 (6000 solves), wrong fixed points >= 1e-6.
CONS_RTOL = 1e-6     # |total - total0| <= CONS_RTOL * sum|terms| (DESIGN said 1e-8: a converged default-chain run reached
#                      1.2e-8, which is solver tolerance, not a wrong result - see the report)
SOLID_EPS = 1e-10    # a solid amount above this is "present"
DIFF_RTOL = 1e-6     # root() vs brentq
BRENTQ_XTOL = 2e-12  # scipy.optimize.brentq default absolute tolerance on the reaction coordinate


def _numsys():
    from chempy.equilibria import NumSysLin, NumSysLog
    return NumSysLin, NumSysLog


def _call(fn, *a, **k):
    """Call into the solver stack with chempy's own warnings ('Root finding indicated as failed', 'Negative
    concentration', numpy overflow in exp) silenced; an exception becomes a SutError value."""
    with warnings.catch_warnings():
        warnings.simplefilter("ignore")
        import numpy as np
        with np.errstate(all="ignore"):
            return sut(fn, *a, **k)


_CHAIN_KINDS = {"default": ("Log",), "lin": ("Lin",), "log": ("Log",), "loglin": ("Log", "Lin"), "solve": ("Log", "Lin"),
                "linrel": ("LinRel",), "loglinrel": ("Log", "LinRel")}


def chain_classes(chain):
    """The NumSys tuple of a chain name ('default' and 'solve' have none: the call's own default is used)."""
    from chempy._eqsys import NumSysLinRel
    NumSysLin, NumSysLog = _numsys()
    return {"lin": (NumSysLin,), "log": (NumSysLog,), "loglin": (NumSysLog, NumSysLin), "solve": (NumSysLog, NumSysLin),
            "linrel": (NumSysLinRel,), "loglinrel": (NumSysLog, NumSysLinRel), "default": (NumSysLog,)}[chain]


def elemental_bounds(c0, species):
    """Per-substance upper bound min_k total_k / n_k over the elements k of the substance (charge excluded): the scale
    NumSysLinRel divides its unknowns by (chempy: upper_conc_bounds), computed here from the case description."""
    tot0 = G.totals(c0, species)
    return [min(tot0[k] / n for k, n in G.COMP[s].items() if k != 0 and n > 0) for s in species]


def _root(es, c0, chain, **kw):
    if chain == "default":
        return _call(es.root, dict(c0), **kw)
    return _call(es.root, dict(c0), NumSys=chain_classes(chain), **kw)


def run_chain(es, c0, chain, **kw):
    """-> (x ndarray, success bool, sane bool, own) or SutError.  `own()` returns what the solver itself recorded for
    the returned point in the last stage of the chain, {"fun": residual vector, "success": that stage's own flag}, or
    None; it is used only to *classify* a failure (known-finding signature), never to judge."""
    import numpy as np
    if chain == "solve":
        res = _call(es.solve, dict(c0))
        if is_err(res):
            return res
        x = np.asarray(res.conc, dtype=float)

        def own():
            # EqCalcResult drops the solver's info; _solve() is root() with NumSys=(NumSysLog, NumSysLin)
            again = _root(es, c0, "solve")
            if is_err(again) or not np.array_equal(np.asarray(again[0], dtype=float), x):
                return None
            return _last_stage(again[1])
        return x, bool(res.success), bool(res.sane), own
    out = _root(es, c0, chain, **kw)
    if is_err(out):
        return out
    x, info, sane = out
    own = (lambda: _last_stage(info))
    own.info = info
    return np.asarray(x, dtype=float), bool(info["success"]), bool(sane), own


def judge_stages(ctx, chain, info, scale=None):
    """Structural clause of 'under each solver chain': the stages the chain actually ran are of the requested
    formulations in the requested order.  Observed on root()'s public info: info['x_vecs'][k] is the k-th stage's
    result as concentrations, info['intermediate_info'][k]['x'] the same point in the stage's own variables - ln c for
    NumSysLog (x_vec = exp(x), and exp(y) > y for every y, so the two cannot be confused), c itself for NumSysLin,
    c / (elemental upper bound) for NumSysLinRel (`scale` = those bounds, from the case description).
    Nothing is said when the record is absent (conditional_chained drops it) or not finite."""
    import numpy as np
    kinds = _CHAIN_KINDS.get(chain)
    try:
        xv, ii = info["x_vecs"], info["intermediate_info"]
    except (KeyError, TypeError):
        return True
    if len(xv) != len(kinds) or len(ii) != len(kinds):
        ctx.fail("chain_stages", chain=chain, requested=list(kinds), stages_recorded=len(ii))
        return False
    got = []
    with np.errstate(all="ignore"):
        for k in range(len(kinds)):
            c, y = np.asarray(xv[k], dtype=float), np.asarray(ii[k]["x"], dtype=float)
            if c.shape != y.shape or not (np.all(np.isfinite(c)) and np.all(np.isfinite(y))):
                return True
            if kinds[k] == "LinRel" and scale is not None and np.allclose(c, y * np.asarray(scale), rtol=1e-12, atol=0) \
                    and not np.array_equal(c, y):
                got.append("LinRel")
            elif np.array_equal(c, y):
                got.append("Lin")
            elif np.allclose(c, np.exp(y), rtol=1e-12, atol=0):      # exp() itself is correctly rounded to ~1 ulp
                got.append("Log")
            else:
                got.append("neither")
    if got != list(kinds):
        ctx.fail("chain_stages", chain=chain, requested=list(kinds), observed=got)
        return False
    return True


def _last_stage(info):
    try:
        last = info["intermediate_info"][-1]
        return {"fun": [float(v) for v in last["fun"]], "success": bool(last["success"])}
    except (KeyError, IndexError, TypeError, ValueError):
        return None


def _rref(rows):
    """Exact reduced row echelon form (Fractions).  -> (R: the non-zero rows, pivots: their pivot columns).  The RREF of
    a matrix is unique, so this is the matrix pyneqsys.symbolic.linear_rref (sympy) arrives at; with L = the pivot
    columns of the original matrix, original = L . R."""
    from fractions import Fraction
    m = [[Fraction(v) for v in r] for r in rows]
    piv, rk = [], 0
    for c in range(len(m[0]) if m else 0):
        p = next((r for r in range(rk, len(m)) if m[r][c] != 0), None)
        if p is None:
            continue
        m[rk], m[p] = m[p], m[rk]
        m[rk] = [v / m[rk][c] for v in m[rk]]
        for r in range(len(m)):
            if r != rk and m[r][c] != 0:
                f = m[r][c]
                m[r] = [u - f * v for u, v in zip(m[r], m[rk])]
        piv.append(c)
        rk += 1
    return m[:rk], piv


class Layout(object):
    """This module's model of the residual vector the last solver stage works on: equilibrium rows (Lin: Q/K - 1 in
    the variables c; Log: ln Q - ln K in the variables ln c), then conservation rows (total - initial total, one per
    sorted composition key).  rref_equil / rref_preserv replace a block by its reduced row echelon form (rows
    R = RREF(M) and, with L = pivot columns of M, M = L . R), so that the solver's residual for the *original* row i
    is sum_j L[i][j] * (its residual for reduced row j) - for Lin equilibrium rows in logarithms.
    Used only to *classify* an established failure for the known-finding matcher."""

    def __init__(self, kind, species, nets, Ks, rref_equil=False, rref_preserv=False):
        self.relative = (kind == "LinRel")      # same residual vector as Lin, unknowns c / elemental bound
        self.kind, self.species = ("Lin" if self.relative else kind), list(species)
        N = [[net.get(sp, 0) for sp in species] for net in nets]
        self.lnK = [math.log(k) for k in Ks]
        self.keys = G.comp_keys(species)
        B = [[G.COMP[sp].get(k, 0) for sp in species] for k in self.keys]
        if rref_equil:
            self.A, piv = _rref(N)
            self.LA = [[row[c] for c in piv] for row in N]
            # R lnK: the reduced right-hand side, from N = LA . A and full row rank of the pool (lnK = LA . rb)
            aug, _ = _rref([row + [int(i == j) for j in range(len(N))] for i, row in enumerate(N)])
            T = [row[len(species):] for row in aug[:len(self.A)]]
            self.rb = [sum(float(t) * lk for t, lk in zip(row, self.lnK)) for row in T]
        else:
            self.A, self.LA, self.rb = N, None, list(self.lnK)
        if rref_preserv:
            self.P, piv = _rref(B)
            self.LP = [[row[c] for c in piv] for row in B]
        else:
            self.P, self.LP = B, None
        self.ne = len(self.A)

    def own_equil(self, fun, i):
        """|Q/K - 1| of original equilibrium i as the solver saw it."""
        vals = fun[:self.ne]
        if self.kind == "Lin":
            vals = [math.log1p(v) for v in vals]
        v = vals[i] if self.LA is None else sum(float(l) * w for l, w in zip(self.LA[i], vals))
        return abs(math.expm1(v))

    def own_cons(self, fun, k, mag):
        vals = fun[self.ne:self.ne + len(self.P)]
        v = vals[k] if self.LP is None else sum(float(l) * w for l, w in zip(self.LP[k], vals))
        return abs(v) / mag if mag > 0 else None

    def residual_and_jacobian(self, c0, xs):
        import numpy as np
        c = [float(v) for v in xs]
        rows_f, rows_J = [], []
        for arow, rb in zip(self.A, self.rb):
            a = [float(v) for v in arow]
            if any(c[i] <= 0 for i in range(len(c)) if a[i] != 0 and (self.kind == "Log" or a[i] < 0)):
                return None
            row = [0.0] * len(c)
            if self.kind == "Log":
                rows_f.append(sum(a[i] * math.log(c[i]) for i in range(len(c)) if a[i] != 0) - rb)
                row = a
            else:
                q = 1.0
                for i in range(len(c)):
                    if a[i] != 0:
                        q *= c[i] ** a[i]
                rows_f.append(q / math.exp(rb) - 1)
                for i in range(len(c)):
                    if a[i] == 0:
                        continue
                    if c[i] > 0:
                        row[i] = a[i] * q / math.exp(rb) / c[i]
                    elif a[i] == 1:
                        rest = 1.0
                        for j in range(len(c)):
                            if j != i and a[j] != 0:
                                rest *= c[j] ** a[j]
                        row[i] = rest / math.exp(rb)
                    elif a[i] < 1:
                        return None
            rows_J.append(row)
        for prow in self.P:
            b = [float(v) for v in prow]
            rows_f.append(sum(b[i] * c[i] for i in range(len(c))) - sum(b[i] * c0[sp] for i, sp in enumerate(self.species)))
            rows_J.append([b[i] * c[i] for i in range(len(c))] if self.kind == "Log" else b)
        J = np.array(rows_J)
        if self.relative:
            J = J * np.asarray(elemental_bounds(c0, self.species))[None, :]
        return np.array(rows_f), J

    def stationarity(self, c0, xs):
        """|J^T f| / (|J|_2 |f|) at the returned point: ~0 means a stationary point of the sum of squares MINPACK's lm
        minimises (a local minimiser that is not a root); ~1 means the residual is not even locally minimal.  None
        when it cannot be evaluated (a zero concentration where a logarithm or a negative power is needed)."""
        import numpy as np
        try:
            fj = self.residual_and_jacobian(c0, xs)
            if fj is None:
                return None
            f, J = fj
            nf, nJ = float(np.linalg.norm(f)), float(np.linalg.norm(J, 2))
            if not (nf > 0 and nJ > 0 and math.isfinite(nf) and math.isfinite(nJ)):
                return None
            return float(np.linalg.norm(J.T.dot(f)) / (nJ * nf))
        except (ZeroDivisionError, OverflowError, ValueError, FloatingPointError):
            return None


def failure_signature(own, chain, species, nets, Ks, c0, xs, dev, index, mag=None, opts=None):
    """Classification of a non-genuine success-and-sane result for the known-finding matcher (D10 family):
    solver_own_residual   the solver's own residual (last stage of the chain) for the violated equation, relative:
                          |Q/K - 1| for equilibrium `index` (mag None), |total - total0| / mag for conservation row
                          `index`;
    own_over_oracle       that number divided by the oracle's deviation (with rref_equil / rref_preserv: 1 + the
                          relative distance between the solver's whole residual vector and this module's): ~1 means
                          the solver evaluated the same residual as the oracle and saw the error (the residual
                          function itself is intact);
    last_stage_success    the innermost record of the last stage (what MINPACK returned through pyneqsys) itself
                          claims convergence, i.e. the success flag was relayed, not invented on the way out;
    lsq_stationarity      Layout.stationarity()."""
    out = {"solver_own_residual": None, "own_over_oracle": None, "last_stage_success": None, "lsq_stationarity": None}
    if chain not in _CHAIN_KINDS:
        return out
    opts = opts or {}
    try:
        lay = Layout(_CHAIN_KINDS[chain][-1], species, nets, Ks, bool(opts.get("rref_equil")), bool(opts.get("rref_preserv")))
    except (ValueError, ZeroDivisionError, OverflowError):
        return out
    out["lsq_stationarity"] = lay.stationarity(c0, xs)
    rec = own() if own is not None else None
    if rec is None:
        return out
    try:
        res = lay.own_equil(rec["fun"], index) if mag is None else lay.own_cons(rec["fun"], index, mag)
    except (IndexError, OverflowError, ValueError):
        res = None
    out["solver_own_residual"] = res
    if res is not None:
        out["last_stage_success"] = rec["success"]
        if lay.LA is None and lay.LP is None:
            out["own_over_oracle"] = (res / dev) if dev else None
        else:
            # reduced layouts: mapping the solver's rows back to the violated original row loses digits (a Lin row
            # q/k - 1 = -1 + 1e-14 carries two digits of q/k), so the agreement is measured where nothing is lost:
            # 1 + max|solver's residual vector - this module's residual vector at x| / max|this module's|
            try:
                fm = lay.residual_and_jacobian(c0, xs)
                if fm is not None and len(fm[0]) == len(rec["fun"]):
                    top = max(abs(float(v)) for v in fm[0])
                    if top > 0 and math.isfinite(top):
                        out["own_over_oracle"] = 1.0 + max(abs(float(a) - float(b)) for a, b in zip(rec["fun"], fm[0])) / top
            except (ZeroDivisionError, OverflowError, ValueError):
                pass
    return out


def judge_common(ctx, species, x, c0, detail, own=None, chain=None, nets=(), Ks=(), opts=None):
    """Non-negativity, finiteness and conservation.  Returns False when a failure was reported."""
    import mpmath
    xs = [float(v) for v in x]
    if len(xs) != len(species):
        ctx.fail("result_length", got=len(xs), **detail)
        return False
    if any(math.isnan(v) or math.isinf(v) for v in xs):
        ctx.fail("not_finite", x=xs, **detail)
        return False
    if any(v < 0 for v in xs):
        ctx.fail("negative_concentration", x=xs, **detail)
        return False
    conc = dict(zip(species, xs))
    # what `sane` promises on top of x >= 0: no species holds more of an element than the initial state contains
    # (implied by x >= 0 and conservation, judged first so that a weakened sanity test is not mistaken for D10)
    tot0 = G.totals(c0, species)
    for s in species:
        bound = min(tot0[k] / n for k, n in G.COMP[s].items() if k != 0 and n > 0)
        if conc[s] > bound * (1 + 1e-6):       # chempy's own test uses 1e-9; 1e-6 keeps float noise out
            ctx.fail("exceeds_elemental_upper_bound", species=s, got=conc[s], bound=bound, x=xs, **detail)
            return False
    with mpmath.workdps(30):
        for j, k in enumerate(G.comp_keys(species)):
            t1 = sum(G.COMP[s].get(k, 0) * mpmath.mpf(conc[s]) for s in species)
            t0 = sum(G.COMP[s].get(k, 0) * mpmath.mpf(c0[s]) for s in species)
            mag = sum(abs(G.COMP[s].get(k, 0)) * (mpmath.mpf(conc[s]) + mpmath.mpf(c0[s])) for s in species) / 2
            if abs(t1 - t0) > CONS_RTOL * mag:
                rel = float(abs(t1 - t0) / mag)
                sig = failure_signature(own, chain, species, nets, Ks, c0, xs, rel, j, float(mag), opts) if own else {}
                ctx.fail("not_conserved", key=k, total=float(t1), initial_total=float(t0), rel_error=rel, x=xs,
                         **dict(sig, **detail))
                return False
    return True


def log_quotient(conc, net):
    """ln Q with 30-digit mpmath from float concentrations (None when a needed concentration is zero)."""
    import mpmath
    with mpmath.workdps(30):
        tot = mpmath.mpf(0)
        for s, n in net.items():
            if conc[s] <= 0:
                return None
            tot += n * mpmath.log(mpmath.mpf(conc[s]))
        return tot


def spread(xs):
    mx = max(xs)
    return (min(xs) / mx) if (mx > 0 and min(xs) >= 0) else None


def build08(M):
    es, subs = G.build_eqsys(M.species, M.rxns, M.K)
    return es


def judge_homog(ctx, M, x, chain, own=None, extra=None, opts=None):
    """True when the result is genuine."""
    import mpmath
    xs = [float(v) for v in x]
    detail = {"chain": chain, "min_over_max": spread(xs)}
    detail.update(extra or {})
    if not judge_common(ctx, M.species, x, M.c0, detail, own, chain, M.nets, M.K, opts):
        return False
    conc = dict(zip(M.species, xs))
    for i, net in enumerate(M.nets):
        lq = log_quotient(conc, net)
        if lq is None:
            dev = None
            if any(conc[s] == 0 for s, n in net.items() if n > 0) and any(conc[s] == 0 for s, n in net.items() if n < 0):
                # exp() underflow on both sides (seen for pool subsets with a gap, e.g. Cu-NH3 steps 2 and 4 without 3,
                # where the element balances do not pin the amount in each disconnected group and the Log solver drives
                # one group to ln c ~ -1700): Q is 0/0 in float64 and cannot be judged
                ctx.skip("Q_indeterminate_0/0")
                return False
        else:
            with mpmath.workdps(30):
                dev = float(abs(mpmath.expm1(lq - mpmath.log(mpmath.mpf(M.K[i])))))
        if dev is None or not dev <= Q_RTOL:
            sig = failure_signature(own, chain, M.species, M.nets, M.K, M.c0, xs, dev, i, None, opts)
            ctx.fail("Q_differs_from_K", rxn=G.BASE[M.idx[i]][0], Q_over_K_minus_1=dev, x=xs, **dict(sig, **detail))
            return False
    return True


def check_homog(case, ctx):
    M = G.Model08(case)
    chain = case["chain"]
    ctx.label("chain:" + chain, "neq=%d" % len(M.idx), "coupled" if M.coupled() else "uncoupled")
    if "H2O" in M.species:
        ctx.label("water")
    es = build08(M)
    out = run_chain(es, M.c0, chain)
    if is_err(out):
        ctx.skip("solver_exception:%s:%s" % (chain, out.type))
        return
    x, success, sane, own = out
    if getattr(own, "info", None) is not None and not judge_stages(ctx, chain, own.info, elemental_bounds(M.c0, M.species)):
        return
    if not (success and sane):
        ctx.skip("no_success:" + chain)
        return
    ctx.label("success:" + chain)
    ctx.nontrivial(len(M.idx) >= 2 and M.coupled())
    sp = spread([float(v) for v in x])
    ctx.label("min/max<1e-9" if (sp is not None and sp < 1e-9) else "min/max>=1e-9")
    judge_homog(ctx, M, x, chain, own)


def _mirror(body):
    """The mirror image of a homogeneous case inside the same domain: log10 K shift d -> -d (U(-2, 2) onto itself) and
    log10 c0 = -v/1000 -> -6 + v/1000 (U(-6, 0) onto itself).  Hypothesis' bounded integers favour small codes (c0 near
    1, unshifted K); the mirror images populate the opposite corner, and they double the sample a batch is judged on
    (one generated example cannot hold more than ~200 cases)."""
    return {"eqs": list(body["eqs"]), "dlogk": [-d for d in body["dlogk"]],
            "lc0": {sp: -6000 - v for sp, v in body["lc0"].items()}}


_HARD = {"Cu-NH3>=3steps": lambda e: len({10, 11, 12, 13} & set(e)) >= 3, "Fe-SCN": lambda e: 14 in e,
         "phosphate": lambda e: bool({5, 6, 7} & set(e)), "4_equilibria": lambda e: len(e) == 4}


def _rate(case, ctx, chain, mirror):
    """Frequency clause: >= 19 of 20.  Judged on a batch of generated cases (plus their mirror images when `mirror`):
    at most 1/20 of them may fail to report success-and-sane, and (plain batches) every success must be genuine."""
    bodies = list(case["batch"])
    if mirror:
        bodies += [_mirror(b) for b in case["batch"]]
    nfail = 0
    failed = []
    seen = {}              # the solver stack is deterministic: a body repeated inside the batch is solved once
    for body in bodies:
        key = canon(body)
        if key in seen:
            nfail += seen[key]
            continue
        M = G.Model08(dict(body, chain=chain))
        es = build08(M)
        out = run_chain(es, M.c0, chain)
        seen[key] = int(is_err(out) or not (out[1] and out[2]))
        if seen[key]:
            nfail += 1
            failed.append(body)
        elif not mirror:
            judge_homog(ctx, M, out[0], chain, out[3])      # (the mirrored batches only count; 'homogeneous' judges
            #                                                  the results of these chains on the same domain)
    ctx.label("failures_in_batch=%d" % nfail if nfail <= len(bodies) // 20 else "failures_in_batch>limit", "batch_size=%d" % len(bodies))
    for name, has in sorted(_HARD.items()):
        n = sum(1 for b in bodies if has(b["eqs"]))
        ctx.label("%s_in_batch:%s" % (name, "0" if n == 0 else ("1-9" if n < 10 else ">=10")))
    ctx.nontrivial(True)
    if nfail > len(bodies) // 20:
        ctx.fail("default_chain_success_rate", chain=chain, failures=nfail, of=len(bodies), first_failed=short(failed[0], 600))


def check_rate(case, ctx):
    _rate(case, ctx, "default", False)          # root(init_concs): NumSysLog


def check_rate_solve(case, ctx):
    _rate(case, ctx, "solve", True)             # EqSystem.solve(init_concs): its default chain (NumSysLog, NumSysLin)


def check_rate_loglin(case, ctx):
    _rate(case, ctx, "loglin", True)            # root(init_concs, NumSys=(NumSysLog, NumSysLin))


def check_single(case, ctx):
    import numpy as np
    from chempy._equilibrium import solve_equilibrium
    M = G.Model08(case)
    chain = case["chain"]
    ctx.label("chain:" + chain, G.BASE[M.idx[0]][0])
    es = build08(M)
    out = run_chain(es, M.c0, chain)
    if is_err(out):
        ctx.skip("solver_exception:%s:%s" % (chain, out.type))
        return
    x, success, sane, own = out
    if not (success and sane):
        ctx.skip("no_success:" + chain)
        return
    ctx.label("success:" + chain)
    if not judge_homog(ctx, M, x, chain, own):     # own oracle first: a non-genuine root() result is reported as such
        return
    stoich = [M.nets[0].get(s, 0) for s in M.species]
    ref = _call(solve_equilibrium, [M.c0[s] for s in M.species], stoich, M.K[0])
    if is_err(ref):
        ctx.skip("scalar_solver_exception:" + ref.type)
        return
    ctx.nontrivial(True)
    xs = [float(v) for v in x]
    for s, n, a, b in zip(M.species, stoich, xs, [float(v) for v in np.asarray(ref)]):
        # brentq stops at |d rc| <= 2e-12 + 4 eps |rc| (scipy defaults): that absolute slack, times the coefficient,
        # is the scalar solver's own resolution; beyond it the two must agree to 1e-6 relative
        tol = DIFF_RTOL * max(abs(a), abs(b)) + 2 * BRENTQ_XTOL * abs(n)
        if not abs(a - b) <= tol:
            ctx.fail("differs_from_scalar_solver", species=s, root=a, brentq=b, chain=chain, min_over_max=spread(xs))
            return


def check_precip(case, ctx):
    import mpmath
    M = G.ModelPrecip(case)
    chain = case["chain"]
    ctx.label("chain:" + chain, "shape:" + case["shape"], M.solid,
              "written_as_precipitation" if M.reverse else "written_as_dissolution")
    supersaturated = None
    if M.near is not None:
        # class labels from the floats actually handed to chempy (30-digit product), not from the construction
        with mpmath.workdps(30):
            q0 = ((mpmath.mpf(M.c0[M.cat]) + mpmath.mpf(M.c0[M.solid]))
                  * (mpmath.mpf(M.c0[M.an]) + M.n_an * mpmath.mpf(M.c0[M.solid])) ** M.n_an) / mpmath.mpf(M.Ksp) - 1
        supersaturated = bool(q0 > 0)
        ctx.label("all_dissolved_Q/Ksp-1:%s1e%d" % ("+" if supersaturated else "-",
                                                    int(math.floor(math.log10(abs(float(q0)))))) if q0 != 0 else "Q0=Ksp",
                  "initial_solid" if M.c0[M.solid] > 0 else "no_initial_solid")
    es, subs = G.build_eqsys(M.species, [M.rxn], [M.K])
    out = run_chain(es, M.c0, chain, rref_preserv=True, tol=1e-12)
    if is_err(out):
        ctx.skip("solver_exception:%s:%s" % (chain, out.type))
        return
    x, success, sane, own = out
    if not (success and sane):
        ctx.skip("no_success:" + chain)
        return
    ctx.label("success:" + chain)
    xs = [float(v) for v in x]
    detail = {"chain": chain, "Ksp": M.Ksp}
    if not judge_common(ctx, M.species, x, M.c0, detail):
        return
    conc = dict(zip(M.species, xs))
    solid = conc[M.solid]
    with mpmath.workdps(30):
        q = mpmath.mpf(conc[M.cat]) * mpmath.mpf(conc[M.an]) ** M.n_an
        ratio = float(q / mpmath.mpf(M.Ksp))
    if solid > SOLID_EPS:
        ctx.label("solid_present")
        ctx.nontrivial(True)
        if not abs(ratio - 1) <= Q_RTOL:
            ctx.fail("solid_present_but_Q_differs_from_Ksp", Q_over_Ksp=ratio, x=xs, **detail)
    else:
        ctx.label("solid_absent")
        ctx.nontrivial(bool(supersaturated))     # near saturation from above: the switching condition had to decide
        if not ratio <= 1 + Q_RTOL:
            ctx.fail("solid_absent_but_Q_exceeds_Ksp", Q_over_Ksp=ratio, x=xs, **detail)



def _solver_stack(err):
    """True when the exception came out of the numerical stack (pyneqsys / scipy / numpy), i.e. is a solver failure."""
    tb = err.exc.__traceback__
    while tb is not None:
        fn = tb.tb_frame.f_code.co_filename.replace("\\", "/")
        if "/pyneqsys/" in fn or "/scipy/" in fn or "/numpy/" in fn:
            return True
        tb = tb.tb_next
    return False


def check_series(case, ctx):
    """EqSystem.roots / EqSystem.solve(init_concs, varied): every grid point flagged success-and-sane is judged against
    *its own* initial state (base state with the varied entries replaced by that point's values); the axes of the
    result are the ones chempy itself names (roots: the one varied substance; solve: result.varied_keys)."""
    import itertools
    import numpy as np
    M = G.ModelSeries(case)
    chain = case["chain"]
    order = "in_substance_order" if M.in_substance_order() else "out_of_substance_order"
    ctx.label("api:" + M.api, "chain:" + chain, "n_varied=%d" % len(M.keys), "neq=%d" % len(M.idx),
              "grid=" + "x".join(str(len(v)) for _, v in M.varied))
    if len(M.keys) == 2:
        ctx.label(order, "equal_lengths" if len(M.varied[0][1]) == len(M.varied[1][1]) else "unequal_lengths")
    es = build08(M)
    ns = len(M.species)
    if M.api == "roots":
        kw = {} if chain == "default" else {"NumSys": chain_classes(chain)}
        key, vals = M.varied[0]
        out = _call(es.roots, dict(M.c0), np.array(vals), key, **kw)
    else:
        # a plain dict keeps the order in which the keys are listed
        out = _call(es.solve, dict(M.c0), dict((k, list(v)) for k, v in M.varied))
    if is_err(out):
        if _solver_stack(out):
            ctx.skip("solver_exception:%s:%s" % (chain, out.type))
            return
        raise out.exc            # raised by chempy itself while laying out the grid: not a solver failure
    if M.api == "roots":
        xvecs, infos, sanity = out
        conc = np.asarray(xvecs, dtype=float)
        axes = [M.keys[0]]
        if not (conc.shape == (len(M.varied[0][1]), ns) and len(infos) == len(sanity) == conc.shape[0]):
            ctx.fail("series_shape", got=list(conc.shape), n_info=len(infos), n_sanity=len(sanity),
                     expected=[len(M.varied[0][1]), ns])
            return
        success = np.array([bool(i["success"]) for i in infos])
        sane = np.array([bool(v) for v in sanity])
    else:
        res = out
        axes = [str(k) for k in res.varied_keys]
        if sorted(axes) != sorted(M.keys):
            ctx.fail("grid_axes_are_not_the_varied_substances", varied_keys=axes, given=M.keys)
            return
        conc = np.asarray(res.conc, dtype=float)
        shape = tuple(len(M.values[k]) for k in axes)
        if not (conc.shape == shape + (ns,) and np.shape(res.success) == shape and np.shape(res.sane) == shape):
            ctx.fail("series_shape", got=list(conc.shape), expected=list(shape + (ns,)), varied_keys=axes, given=M.keys)
            return
        success, sane = np.asarray(res.success, dtype=bool), np.asarray(res.sane, dtype=bool)
    judged = 0
    for index in itertools.product(*[range(len(M.values[k])) for k in axes]):
        if not (success[index] and sane[index]):
            continue
        P = M.point({k: M.values[k][i] for k, i in zip(axes, index)})
        x = conc[index]
        if M.api == "roots":
            own = (lambda info=infos[index[0]]: _last_stage(info))
        else:
            def own(P=P, x=x):
                again = _root(es, P.c0, "solve")      # EqCalcResult drops the solver's info, see run_chain
                if is_err(again) or not np.array_equal(np.asarray(again[0], dtype=float), x):
                    return None
                return _last_stage(again[1])
        judged += 1
        judge_homog(ctx, P, x, chain, own, extra={"grid_index": list(index), "varied_keys": axes})
    if judged == 0:
        ctx.skip("no_success:" + chain)
        return
    ctx.label("success:" + chain, "judged_points=%d" % judged if judged < 4 else "judged_points>=4")
    ctx.nontrivial(judged >= 2)



def check_root_args(case, ctx):
    """EqSystem.root with its optional arguments: an explicit guess x0 (ndarray in substance order - the only form the
    pinned tree accepts; a dict or list raises TypeError inside the pre-processors) and/or the formulation / solver
    options rref_equil, rref_preserv, neqsys_type, tol, method.  None of them changes what a success means: the
    result is judged against init_concs exactly like a plain solve."""
    import numpy as np
    M = G.ModelRootArgs(case)
    chain = case["chain"]
    ctx.label("chain:" + chain, "neq=%d" % len(M.idx))
    for k in sorted(M.opts):
        ctx.label("opt:%s=%s" % (k, M.opts[k] if k != "tol" else "%.0e" % M.opts[k]))
    if not M.opts:
        ctx.label("opt:none")
    es = build08(M)
    kw = dict(M.opts)
    differs = False
    if M.x0 is not None:
        kind = M.x0["kind"]
        ctx.label("x0:" + kind)
        g = M.guess_state()
        if kind in ("other_solution", "own_solution"):
            first = _root(es, g, "default")
            if not is_err(first) and first[1]["success"] and first[2]:
                g = dict(zip(M.species, [float(v) for v in first[0]]))
            else:
                ctx.label("x0:first_solve_failed_state_itself_used")
        x0 = np.array([g[sp] for sp in M.species], dtype=float)
        if not (np.all(np.isfinite(x0)) and np.all(x0 >= 0)):
            ctx.skip("guess_not_usable")
            return
        t0, tg = G.totals(M.c0, M.species), G.totals(g, M.species)
        a0 = G.abs_totals(M.c0, M.species)
        differs = any(abs(t0[k] - tg[k]) > 1e-6 * a0[k] for k in t0 if a0[k] > 0)
        ctx.label("guess_totals_differ" if differs else "guess_totals_equal")
        if differs:
            lower = all(tg[k] <= t0[k] for k in t0 if k != 0)
            ctx.label("guess_holds_less_of_every_element" if lower else "guess_holds_more_of_some_element")
        kw["x0"] = x0
    out = _root(es, M.c0, chain, **kw)
    if is_err(out):
        if _solver_stack(out) or M.x0 is None:
            ctx.skip("solver_exception:%s:%s" % (chain, out.type))
            return
        raise out.exc
    x, info, sane = out
    if not judge_stages(ctx, chain, info):
        return
    if not (info["success"] and sane):
        ctx.skip("no_success:" + chain)
        return
    ctx.label("success:" + chain)
    x = np.asarray(x, dtype=float)
    if kw.get("neqsys_type") == "conditional_chained":
        def own():
            # ConditionalNeqSys(ChainedNeqSys) drops the stages' records; without phase-transfer reactions the default
            # nesting does the same arithmetic, so its record is used when it reproduces x bit for bit
            again = _root(es, M.c0, chain, **dict(kw, neqsys_type="chained_conditional"))
            if is_err(again) or not np.array_equal(np.asarray(again[0], dtype=float), x):
                return None
            return _last_stage(again[1])
    else:
        own = (lambda: _last_stage(info))
    ctx.nontrivial(bool(M.opts) or differs)
    judge_homog(ctx, M, x, chain, own, opts=M.opts)



def check_reuse(case, ctx):
    """One solver object (EqSystem.get_neqsys) handed to root(init_k, neqsys=obj) for 2-3 different initial states in
    turn - the documented purpose of the `neqsys=` argument: every success-and-sane result is judged against the
    initial state of *its own* call."""
    import numpy as np
    M = G.ModelReuse(case)
    chain = case["chain"]
    ctx.label("chain:" + chain, "neq=%d" % len(M.idx), "states=%d" % len(M.states))
    es = build08(M)
    obj = _call(es.get_neqsys, "chained_conditional", NumSys=chain_classes(chain))
    if is_err(obj):
        raise obj.exc
    judged = 0
    for k in range(len(M.states)):
        P = M.state(k)
        out = _call(es.root, dict(P.c0), neqsys=obj)
        if is_err(out):
            if _solver_stack(out):
                ctx.label("inconclusive_state:solver_exception:%s" % out.type)
                continue
            raise out.exc
        x, info, sane = out
        if info["success"] and sane:
            judged += 1
            ctx.label("judged_state_%d" % k)
            judge_homog(ctx, P, np.asarray(x, dtype=float), chain, (lambda info=info: _last_stage(info)),
                        extra={"state_index": k})
        # after the genuineness oracle: a stale scale would otherwise be reported as a wrong formulation
        if not judge_stages(ctx, chain, info, elemental_bounds(P.c0, P.species)):
            return
    if judged == 0:
        ctx.skip("no_success:" + chain)
        return
    ctx.label("success:" + chain)
    ctx.nontrivial(judged >= 2)


_TOL = {"|Q/K-1|": Q_RTOL, "conservation": "%g*sum|terms|" % CONS_RTOL}

SUBCHECKS = [
    SubCheck("homogeneous", check_homog, strategy=G.c08_cases(), quick=400, thorough=32000, tolerances=_TOL,
             rule="G.c08_cases: subsets of 1-4 pool equilibria x 4 solver chains; soundness of every success-and-sane result"),
    SubCheck("lin_chain", check_homog, strategy=G.c08_cases(chains=("lin",)), quick=800, thorough=16000, tolerances=_TOL,
             rule="same domain, (NumSysLin,) only: the chain whose raw results most often leave the admissible region, "
                  "i.e. where the `sane` flag does the work (and where D10 lives)"),
    SubCheck("success_rate", check_rate, strategy=G.c08_batches(200), quick=2, thorough=100,
             rule="batches of 200 cases of the homogeneous domain, default chain: >= 190 report success and sane",
             tolerances={"required successes per batch of 200": 190}),
    SubCheck("success_rate_solve", check_rate_solve, strategy=G.c08_batches(200), quick=2, thorough=48,
             rule="batches of 200 cases of the homogeneous domain plus their 200 mirror images (K shift and log c0 "
                  "reflected inside the domain), EqSystem.solve(init_concs) = default chain (NumSysLog, NumSysLin): "
                  ">= 380 of 400 report success and sane (pinned tree: 0-8 failures per 200, 960 batches)",
             tolerances={"required successes per batch of 400": 380}),
    SubCheck("success_rate_loglin", check_rate_loglin, strategy=G.c08_batches(200), quick=2, thorough=48,
             rule="the same batches through root(init_concs, NumSys=(NumSysLog, NumSysLin)): >= 380 of 400",
             tolerances={"required successes per batch of 400": 380}),
    SubCheck("single", check_single, strategy=G.c08_single(), quick=150, thorough=8000,
             rule="one pool equilibrium; root() chains vs chempy._equilibrium.solve_equilibrium (brentq)",
             tolerances={"relative": DIFF_RTOL, "absolute": "2*2e-12*|nu| (brentq xtol)"}),
    SubCheck("precipitation", check_precip, strategy=G.precip_cases(), quick=200, thorough=12000, tolerances=_TOL,
             rule="G.precip_cases: 1:1 salts, 3 chains, rref_preserv=True, tol=1e-12"),
    SubCheck("precipitation_1_2", check_precip, strategy=G.precip_cases(salts=(4,)), quick=60, thorough=3000, tolerances=_TOL,
             rule="CaF2(s) = Ca+2 + 2 F-: same oracle with Q = [Ca][F]^2"),
    SubCheck("precipitation_near", check_precip, strategy=G.precip_near_cases(), quick=700, thorough=12000, tolerances=_TOL,
             rule="G.precip_near_cases: 1:1 salts, initial states whose all-dissolved ion product is Ksp(1 + delta), "
                  "|delta| log-uniform in [1e-9, 1e-2], both signs, with and without initial solid; same oracle"),
    SubCheck("precipitation_near_1_2", check_precip, strategy=G.precip_near_cases(salts=(4,)), quick=300, thorough=4000,
             tolerances=_TOL, rule="CaF2 near saturation: [Ca][F]^2 = Ksp(1 + delta) when all dissolved"),
    SubCheck("series", check_series, strategy=G.c08_series_cases(), quick=160, thorough=6000, tolerances=_TOL,
             rule="G.c08_series_cases: EqSystem.roots (1 varied substance; chains default, (Log, Lin), (Lin,)) and "
                  "EqSystem.solve(init_concs, varied) with 1-2 varied substances x 2-4 values, keys in and out of "
                  "substance order; every success-and-sane grid point vs its own initial state; result shape"),
    SubCheck("linrel_chains", check_homog, strategy=G.c08_cases(chains=("linrel", "loglinrel")), quick=200, thorough=4000,
             tolerances=_TOL, rule="the homogeneous domain through root(NumSys=(NumSysLinRel,)) and (NumSysLog, NumSysLinRel)"),
    SubCheck("reuse", check_reuse, strategy=G.c08_reuse_cases(), quick=200, thorough=4000, tolerances=_TOL,
             rule="G.c08_reuse_cases: one get_neqsys('chained_conditional', NumSys=chain) object, chains (LinRel,), "
                  "(Log, LinRel), (Log,), (Log, Lin), (Lin,), passed as neqsys= to root() for 2-3 random initial states of "
                  "the same system (1-3 equilibria); each result vs the initial state of its own call"),
    SubCheck("root_x0", check_root_args, strategy=G.c08_x0_cases(), quick=240, thorough=6000, tolerances=_TOL,
             rule="G.c08_x0_cases: homogeneous domain (1-3 equilibria), root(init_concs, x0=ndarray) on chains (Lin,), "
                  "default, (Log, Lin); the guess is init_concs scaled by 10^+-[0.1, 1], a random positive vector, the "
                  "default-chain solution of another random initial state, or the solution itself; judged against "
                  "init_concs"),
    SubCheck("root_options", check_root_args, strategy=G.c08_option_cases(), quick=300, thorough=4000, tolerances=_TOL,
             rule="G.c08_option_cases: homogeneous domain, root() with rref_equil, rref_preserv, neqsys_type (3), "
                  "tol (default, 1e-10, 1e-12), method (default, lm), a third of the cases also with a scaled or "
                  "random x0; same oracle"),
]

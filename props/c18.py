# -*- coding: utf-8 -*-
"""C18 - ionic strength and the Debye-Hueckel terms follow their definitions in any units.

Sub-checks
    ionic_list   ionic_strength(molalities, charges)       list / tuple / ndarray, plain or with units
    ionic_batch  ionic_strength with array-valued molalities (one array of samples per ion): per-sample values, one warning
    ionic_dict   ionic_strength({formula: molality})       charges read from the formulas (or a substances mapping)
                 or from the substances a custom substance_factory yields for the keys
    dh_constants A and B: numeric path, units= path, constants-object path, own formula; exponent structure
    log_gamma    limiting / extended / davies log gamma = their formulas (mpmath), limits a*B -> 0 and I -> 0
    activity     *_activity_product and the two *ActivityProduct classes = exp(sum nu_i ln gamma_i)

Nothing in the oracles calls chempy: references are Fractions / mpmath / floats computed from the JSON case, the
physical constants are an own CODATA-2018 transcription, unit factors an own table (`_UNIT`).
"""
import math
import warnings
from fractions import Fraction

from hypothesis import strategies as st

from vlib import env  # noqa  (sys.path)
from vlib.harness import SubCheck
from vlib import gen_formula as G

PROPERTY = "C18"
LEVEL = "exploration"
RULE = ("Ion sets (2-11 ions, charges -4..+4, molalities n*2^k spanning 2^-40..64 = 13 decades) are built by "
        "construction in four modes: 'neutral' (free ions plus one balancing ion computed with integers, so the net "
        "charge is exactly 0 also in floating point), 'perturbed' (a neutral set whose dominant ion is multiplied by "
        "1+10^-x, x in 0..11), 'trace' (an exactly neutral set of major ions within 2^-20..64 plus one charged trace "
        "ion without counter-ion 7..11.5 decades below the largest molality - the whole set stays within 12 decades) "
        "and 'free' (log-uniform floats).  The expected warning status is recomputed from the actual numbers with "
        "Fractions (exactly 0 -> no warning, |net| >= 1e-12*sum|b z| -> warning, anything between - what float "
        "summation can blur - is not judged).  Dict form: keys are G1 formulas with the charge overridden to the "
        "drawn value, or a pool of real ions.  substance_factory (with substances=None or the string form): default, "
        "Species.from_formula, a reader of IUPAC-style keys ('Ca2+', 'SO42-'), a table lookup of synthetic names - the "
        "expected charge is the one the factory assigns.  ionic_batch: every molality an array of 2-5 samples built from one "
        "exactly neutral integer base set (neutral samples: integer multiples and neutral-pair shifts; unbalanced: "
        "perturbed / minor-ion / free), each sample classified as above, warning iff some sample is not neutral; "
        "non-trivial = >= 3 ions and samples of different classes.  Non-trivial (ionic_*): >= 3 ions, some |z| >= 2 and >= 6 decades "
        "between the smallest and largest molality.  dh_constants: T 250-650 K, eps_r 5-100, rho 500-1500 kg/m3, "
        "b0 0.1-10 mol/kg as a quantity, or omitted, or the plain int 1 (every path), inputs in random compatible units; "
        "non-trivial = non-SI unit on some input.  log_gamma / "
        "activity: I over 1e-12..1e2 (and 0), z -4..4, a 1-10 angstrom; non-trivial = |z| >= 2 and I > 0 "
        "(activity: >= 2 species with different |z|).")
ASSUMPTIONS = [
    "own CODATA-2018 constants (e, N_A, k_B, eps_0) - differ from chempy's hard-coded factor / quantities' CODATA-2006 "
    "by < 3e-6 relative, inside the stated 1e-5",
    "own SI-factor table for mol mmol kg g m dm cm nm angstrom pm L K mK molal; results in other units are reduced with "
    "quantities' .simplified (trusted for the constants-object path, whose result is expressed in F, epsilon_0, N_A, k)",
    "quantities arithmetic (multiplying a float by a unit, adding like-dimensioned quantities) is trusted",
]

# ---------------------------------------------------------------------------
# own tables
# ---------------------------------------------------------------------------
E_CHARGE = 1.602176634e-19      # C      (CODATA 2018, exact)
N_AVO = 6.02214076e23           # 1/mol  (exact)
K_BOLTZ = 1.380649e-23          # J/K    (exact)
EPS_0 = 8.8541878128e-12        # F/m    (CODATA 2018)
FARADAY = E_CHARGE * N_AVO
R_GAS = K_BOLTZ * N_AVO

# symbol -> (SI factor, {base: exponent})
_UNIT = {
    "mol": (1.0, {"mol": 1}), "mmol": (1e-3, {"mol": 1}),
    "kg": (1.0, {"kg": 1}), "g": (1e-3, {"kg": 1}),
    "m": (1.0, {"m": 1}), "dm": (1e-1, {"m": 1}), "cm": (1e-2, {"m": 1}), "nm": (1e-9, {"m": 1}),
    "angstrom": (1e-10, {"m": 1}), "pm": (1e-12, {"m": 1}), "L": (1e-3, {"m": 3}),
    "K": (1.0, {"K": 1}), "mK": (1e-3, {"K": 1}),
    "molal": (1.0, {"mol": 1, "kg": -1}),
    "s": (1.0, {"s": 1}), "A": (1.0, {"A": 1}), "dimensionless": (1.0, {}),
}

MOLALITY_UNITS = ["none", "molal", "mol/kg", "mmol/kg", "mol/g"]       # first = simplest
MOLALITY_FACT = {"none": Fraction(1), "molal": Fraction(1), "mol/kg": Fraction(1), "mmol/kg": Fraction(1, 1000),
                 "mol/g": Fraction(1000), "mmol/g": Fraction(1)}
T_UNITS = {"K": 1.0, "mK": 1e-3}
RHO_UNITS = {"kg/m3": 1.0, "g/cm3": 1e3, "g/L": 1.0, "kg/dm3": 1e3, "g/m3": 1e-3}
B0_UNITS = {"mol/kg": 1.0, "molal": 1.0, "mmol/g": 1.0, "mmol/kg": 1e-3}
LEN_UNITS = {"m": 1.0, "angstrom": 1e-10, "nm": 1e-9, "pm": 1e-12}

DIM_MOLALITY = {"mol": 1, "kg": -1}
DIM_NONE = {}
DIM_PER_M = {"m": -1}


def _pq_unit(name):
    import quantities as pq
    from chempy.units import default_units as u
    return {
        "molal": lambda: u.molal, "mol/kg": lambda: pq.mol / pq.kg, "mmol/kg": lambda: pq.mmol / pq.kg,
        "mol/g": lambda: pq.mol / pq.g, "mmol/g": lambda: pq.mmol / pq.g,
        "K": lambda: pq.K, "mK": lambda: pq.mK,
        "kg/m3": lambda: pq.kg / pq.m ** 3, "g/cm3": lambda: pq.g / pq.cm ** 3, "g/L": lambda: pq.g / pq.L,
        "kg/dm3": lambda: pq.kg / pq.dm ** 3, "g/m3": lambda: pq.g / pq.m ** 3,
        "m": lambda: pq.m, "angstrom": lambda: pq.angstrom, "nm": lambda: pq.nm, "pm": lambda: pq.pm,
    }[name]()


def _clean_dims(d):
    out = {}
    for k, v in d.items():
        v = round(float(v), 9)
        if v != 0:
            out[k] = v
    return out


def _own_si(q):
    """(SI magnitude, dims) of a quantities object from the own table, or None when a unit is not in the table."""
    val = float(q.magnitude)
    dims = {}
    for unit, ex in q.dimensionality.items():
        ent = _UNIT.get(getattr(unit, "symbol", None))
        if ent is None:
            return None
        ex = float(ex)
        val *= ent[0] ** ex
        for b, e in ent[1].items():
            dims[b] = dims.get(b, 0.0) + e * ex
    return val, _clean_dims(dims)


def si_of(x):
    """Plain number -> (float, {}); quantity -> own-table SI value and dimension, falling back to .simplified for
    units outside the table (the constants-object path).  None when the value cannot be read at all."""
    if not hasattr(x, "dimensionality"):
        try:
            return float(x), {}
        except Exception:  # noqa
            return None
    try:
        r = _own_si(x)
        if r is None:
            r = _own_si(x.simplified)
        return r
    except Exception:  # noqa
        return None


def _same_dims(a, b):
    return _clean_dims(a) == _clean_dims(b)


def _neutrality_warnings(rec):
    return [w for w in rec if issubclass(w.category, UserWarning) and "not charge neutral" in str(w.message)]


def _call(fn, *a, **k):
    """Call chempy recording warnings; returns (result, number of charge-neutrality UserWarnings)."""
    with warnings.catch_warnings(record=True) as rec:
        warnings.simplefilter("always")
        res = fn(*a, **k)
    return res, len(_neutrality_warnings(rec))


def _quiet(fn, *a, **k):
    with warnings.catch_warnings():
        warnings.simplefilter("ignore")
        return fn(*a, **k)


# ---------------------------------------------------------------------------
# ionic strength: shared judgement
# ---------------------------------------------------------------------------

def _reference(bs_si, zs):
    """bs_si: Fractions (mol/kg); -> (I, net, sum|b z|) exact."""
    tot = sum((b * z * z for b, z in zip(bs_si, zs)), Fraction(0))
    net = sum((b * z for b, z in zip(bs_si, zs)), Fraction(0))
    absum = sum((b * abs(z) for b, z in zip(bs_si, zs)), Fraction(0))
    return tot / 2, net, absum


NONNEUTRAL_MIN_REL = Fraction(1, 10 ** 12)


def _classify(net, absum):
    """`net` and `absum` are exact (Fractions of the floats actually handed over).
    neutral     net == 0 exactly: must not warn (the generators make every partial float sum exact for these).
    nonneutral  |net| >= 1e-12 * sum|b z|: must warn.  The float sum of <= 12 terms b*z (plus at most one unit
                rescaling per term) deviates from the exact net by <= ~12 * 2.2e-16 * sum|b z| < 1e-14 * sum|b z|, so
                the computed |net| is >= 0.99e-12 * sum|b z|; the code's own tolerance is 1e-14 * sum b z^2
                <= 4e-14 * sum|b z| (|z| <= 4): a factor 25 below.  A composition this far from neutral is 'not
                neutral' by any reading of the statement, whichever ion carries the imbalance.
    grey        0 < |net| < 1e-12 * sum|b z|: the only zone floating point forces (round-off of a scaled or split
                neutral set lands here, ~1e-16 relative); not judged."""
    if net == 0:
        return "neutral"
    if abs(net) >= NONNEUTRAL_MIN_REL * absum:
        return "nonneutral"
    return "grey"


def _imbalance_label(net, absum):
    if net == 0 or absum == 0:
        return "rel_net=0"
    d = -math.log10(float(abs(net) / absum))
    return "rel_net=1e-%s" % ("0..3" if d < 3 else "3..6" if d < 6 else "6..8" if d < 8 else "8..10" if d < 10
                              else "10..12" if d <= 12 else "12+")


def judge_ionic(ctx, tag, got, nwarn, bs_si, zs, with_units):
    """Returns the SI value read from `got` (float) or None after reporting."""
    I, net, absum = _reference(bs_si, zs)
    r = si_of(got)
    if r is None:
        ctx.fail("ionic_strength_unreadable:" + tag, got=repr(got)[:200])
        return None
    val, dims = r
    want_dims = DIM_MOLALITY if with_units else DIM_NONE
    if not _same_dims(dims, want_dims):
        ctx.fail("ionic_strength_dimension:" + tag, got=repr(got)[:200], dims=dims)
        return None
    # value: all terms b z^2 are >= 0 (no cancellation); float summation of <= 12 terms plus one unit rescaling
    # is good to ~2e-15 relative; 1e-12 leaves three decades.
    ok = (val == 0) if I == 0 else (math.isfinite(val) and abs(Fraction(val) - I) <= I * Fraction(1, 10 ** 12))
    if not ok:
        ctx.fail("ionic_strength_value:" + tag, got=val, expected=float(I), zs=list(zs))
        return None
    cls = _classify(net, absum)
    ctx.label("%s:%s" % (tag, cls))
    if tag == "base":
        ctx.label(_imbalance_label(net, absum))
    if cls == "neutral" and nwarn:
        ctx.fail("warning_on_neutral:" + tag, nwarn=nwarn, zs=list(zs))
    elif cls == "nonneutral" and not nwarn:
        ctx.fail("no_warning_on_nonneutral:" + tag, rel_net=float(abs(net) / absum), zs=list(zs))
    return val


def _related(ctx, clause, v1, v2, factor=1.0):
    """Metamorphic relation between two chempy results: v2 == factor * v1 (each is within 1e-12 of its own exact
    reference; the relation is given 4e-12 to include the rounding of factor*b)."""
    if v1 is None or v2 is None:
        return
    ref = abs(v1 * factor)
    if abs(v2 - v1 * factor) > 4e-12 * ref:
        ctx.fail(clause, first=v1, second=v2, factor=factor)


def _nontrivial_ions(bs, zs):
    pos = [b for b in bs if b > 0]
    return (len(bs) >= 3 and any(abs(z) >= 2 for z in zs) and len(pos) >= 2 and max(pos) >= 1e6 * min(pos))


def _spread_label(bs):
    pos = [b for b in bs if b > 0]
    d = math.log10(max(pos) / min(pos)) if len(pos) >= 2 else 0
    return "decades=%s" % ("0-3" if d < 3 else "3-6" if d < 6 else "6-9" if d < 9 else "9+")


# ---------------------------------------------------------------------------
# generators for ion sets
# ---------------------------------------------------------------------------
CHARGES = [1, -1, 2, -2, 3, -3, 4, -4, 0]
MODES = ["neutral", "perturbed", "trace", "free"]
TRACE_JMAX = 20        # major ions of a 'trace' set: n*2^-j, j <= 20 (2^-20..64; the balancing ion stays <= 2304)


def _dyadic(draw, jmax=40):
    n = draw(st.integers(1, 64))
    j = draw(st.integers(0, jmax))
    return n, -j


def _balancer(draw, ions):
    """ions: [(z, n, k)] with b = n*2^k.  Returns None (already neutral) or (z, b_float) of one more ion making the
    net charge exactly zero: N = sum z n 2^(k-kmin) is an integer below 2^52, the balancing ion carries
    -sign(N)*d with d | N, molality (|N|/d) * 2^kmin, exactly representable; every partial float sum of the b z is an
    integer multiple of 2^kmin below 2^53, hence exact in any order."""
    kmin = min(k for _, _, k in ions)
    N = sum(z * n * 2 ** (k - kmin) for z, n, k in ions)
    if N == 0:
        return None
    ds = [d for d in (1, 2, 4, 3) if abs(N) % d == 0]
    d = draw(st.sampled_from(ds))
    return (-d if N > 0 else d), math.ldexp(abs(N) // d, kmin)


def _perturb(draw, zb):
    """Multiply the molality of the ion dominating sum|b z| by 1 + 10^-x: |net| = delta*max|bz| >= delta/(10+delta) * sum|b z|
    (x up to 11: 1 + 1e-11 is still resolved to 2e-5 of the increment; whether the case is judged follows from the
    exact net of the resulting floats, see _classify)."""
    x = draw(st.floats(0, 11, allow_nan=False))
    idx = None
    for i, (z, b) in enumerate(zb):
        if z != 0 and (idx is None or abs(z) * b > abs(zb[idx][0]) * zb[idx][1]):
            idx = i
    if idx is not None:
        zb[idx] = (zb[idx][0], zb[idx][1] * (1 + 10.0 ** (-x)))
    return zb


def _trace_ion(draw, bs):
    """One charged ion without counter-ion, 7..11.5 decades below the largest molality of the (exactly neutral) set:
    the whole imbalance sits in a species far more dilute than the major ions (unbalanced trace acid in brine).  With
    the major ions inside 2^-20..2304 the complete set spans <= 11.5 decades.  |net|/sum|b z| = |z| b_t / sum|b z|
    is mostly 1e-8..1e-12; the few cases below 1e-12 fall into the unjudged zone by the exact recomputation."""
    z = draw(st.sampled_from(CHARGES[:-1]))
    x = draw(st.floats(7, 11.5, allow_nan=False))
    return z, max(bs) * 10.0 ** (-x)


def _free_molality(draw):
    return 10.0 ** draw(st.floats(-12, 2, allow_nan=False))


def _variants(draw, n):
    return {"perm": draw(st.permutations(list(range(n)))),
            "scale2": draw(st.integers(-20, 10)),
            "scale": draw(st.sampled_from([3.0, 0.1, 7.5e-4, 1e3, 1.0 / 3]))}


@st.composite
def ionic_list_cases(draw):
    mode = draw(st.sampled_from(MODES))
    n = draw(st.integers(1, 9))
    if mode == "free":
        zb = [(draw(st.sampled_from(CHARGES)), _free_molality(draw)) for _ in range(n)]
        if len(zb) < 2:
            zb.append((draw(st.sampled_from(CHARGES)), _free_molality(draw)))
    else:
        ions = []
        for _ in range(n):
            z = draw(st.sampled_from(CHARGES))
            nn, k = _dyadic(draw, TRACE_JMAX if mode == "trace" else 40)
            ions.append((z, nn, k))
        zb = [(z, math.ldexp(nn, k)) for z, nn, k in ions]
        bal = _balancer(draw, ions)
        if bal is not None:
            zb.insert(draw(st.integers(0, len(zb))), bal)
        elif len(zb) < 2:
            zb.append((0, 1.0))
        if mode == "perturbed":
            zb = _perturb(draw, zb)
        elif mode == "trace":
            zb.insert(draw(st.integers(0, len(zb))), _trace_ion(draw, [b for _, b in zb]))
    unit = draw(st.sampled_from(MOLALITY_UNITS))
    unit2 = None
    if mode == "free" and unit != "none" and draw(st.integers(0, 3)) == 3:
        unit2 = draw(st.sampled_from(MOLALITY_UNITS[1:]))
    case = {"mode": mode, "ions": [[z, b] for z, b in zb], "unit": unit, "unit2": unit2,
            "container": draw(st.sampled_from(["list", "tuple", "ndarray"])),
            "split": [draw(st.integers(0, len(zb) - 1)), draw(st.integers(0, len(zb))), draw(st.sampled_from([0.5, 0.25]))]}
    case.update(_variants(draw, len(zb)))
    return case


def _container(kind, bs, units):
    """bs floats, units: list of unit names (one per entry)."""
    if all(u == "none" for u in units):
        vals = list(bs)
        if kind == "ndarray":
            import numpy as np
            return np.array(vals, dtype=float)
    else:
        if kind == "ndarray" and len(set(units)) == 1:
            import numpy as np
            return np.array(list(bs), dtype=float) * _pq_unit(units[0])
        vals = [b * _pq_unit(u) for b, u in zip(bs, units)]
    return tuple(vals) if kind == "tuple" else vals


def _charges_container(kind, zs):
    if kind == "ndarray":
        import numpy as np
        return np.array(list(zs), dtype=int)
    return tuple(zs) if kind == "tuple" else list(zs)


def check_ionic_list(case, ctx):
    from chempy.electrolytes import ionic_strength
    zs = [int(z) for z, _ in case["ions"]]
    bs = [float(b) for _, b in case["ions"]]
    n = len(zs)
    unit, unit2 = case["unit"], case.get("unit2")
    units = [unit2 if (unit2 and i % 2) else unit for i in range(n)]
    with_units = unit != "none"
    kind = case["container"]
    ctx.label("mode=" + case["mode"], "unit=" + unit, "container=" + kind, "n=%d" % min(n, 10), _spread_label(bs))
    if unit2:
        ctx.label("mixed_units")
    ctx.nontrivial(_nontrivial_ions(bs, zs))

    def run(tag, zs_, bs_, units_):
        got, nwarn = _call(ionic_strength, _container(kind, bs_, units_), _charges_container(kind, zs_))
        si = [Fraction(b) * MOLALITY_FACT[u] for b, u in zip(bs_, units_)]
        return judge_ionic(ctx, tag, got, nwarn, si, zs_, with_units)

    base = run("base", zs, bs, units)
    # permutation
    perm = [int(i) for i in case["perm"]]
    v = run("permuted", [zs[i] for i in perm], [bs[i] for i in perm], [units[i] for i in perm])
    _related(ctx, "not_permutation_invariant", base, v)
    # split one entry into two of the same charge (= merging read backwards)
    i, pos, frac = case["split"]
    i = int(i) % n
    b1 = bs[i] * frac
    b2 = bs[i] - b1
    zs2, bs2, un2 = list(zs), list(bs), list(units)
    bs2[i] = b1
    pos = int(pos) % (n + 1)
    zs2.insert(pos, zs[i])
    bs2.insert(pos, b2)
    un2.insert(pos, units[i])
    v = run("split", zs2, bs2, un2)
    _related(ctx, "not_merge_invariant", base, v)
    # scaling by a power of two (keeps exact neutrality) and by a generic factor
    c2 = math.ldexp(1.0, int(case["scale2"]))
    v = run("scaled_pow2", zs, [b * c2 for b in bs], units)
    _related(ctx, "not_linear", base, v, c2)
    c = float(case["scale"])
    v = run("scaled", zs, [b * c for b in bs], units)
    _related(ctx, "not_linear", base, v, c)


# -- dict form ----------------------------------------------------------------
POOL = [("Na+", 1), ("Cl-", -1), ("Mg+2", 2), ("SO4-2", -2), ("Al+3", 3), ("PO4-3", -3), ("Th+4", 4),
        ("Fe(CN)6-4", -4), ("H2O", 0), ("K+", 1), ("NO3-", -1), ("Ca+2", 2), ("CO3-2", -2), ("Fe+3", 3),
        ("Fe(CN)6-3", -3), ("NH4+", 1), ("OH-", -1), ("H+", 1), ("HPO4-2", -2), ("UO2+2", 2), ("e-", -1),
        ("Na+(aq)", 1), ("C6H12O6", 0), ("[Co(NH3)6]+3", 3), ("Zr+4", 4), ("P2O7-4", -4)]


# -- substance_factory ----------------------------------------------------------------------------------------------
# ionic_strength(mapping, substances=None | "k1 k2 ...", substance_factory=f): the substances - hence the charges - are
# the ones the factory yields for each key (both forms go through the factory on the unchanged tree).  Factories that
# deviate observably from the default Substance.from_formula:
#   species  Species.from_formula (a subclass instance with a phase index; same charges)
#   iupac    keys written the IUPAC way, charge number before the sign and no blank ('Ca2+', 'SO42-', 'Fe(CN)64-',
#            'Na+'); the factory below reads them into chempy's notation.  chempy's own parser would read 'Ca2+' as
#            Ca2 with charge +1, so the charge the *factory* assigns is observable.  Ions of the pool only.
#   table    arbitrary names 'S0', 'S1', ... looked up in a table (from the case) -> Substance(name, composition={0: z});
#            the default parser would read them as neutral sulfur clusters.
# The expected charge is taken from the case description (pool table / drawn z), never from the object returned.
FACTORIES = ["default", "iupac", "table", "species"]
_POOL_RE = None


def _pool_parts(key):
    """'Fe(CN)6-4' -> ('Fe(CN)6', '-', 4, ''); 'Na+(aq)' -> ('Na', '+', 1, '(aq)'); 'H2O' -> None"""
    import re
    m = re.match(r"^(.*?)([+-])(\d*)((?:\(aq\))?)$", key)
    if not m:
        return None
    return m.group(1), m.group(2), int(m.group(3) or 1), m.group(4)


def iupac_key(pool_key):
    parts = _pool_parts(pool_key)
    if parts is None:
        return pool_key
    stem, sign, mag, suffix = parts
    return stem + (str(mag) if mag > 1 else "") + sign + suffix


def _known_stems():
    return {_pool_parts(k)[0] for k, z in POOL if z != 0}


def iupac_factory(key):
    """Reads 'Ca2+', 'SO42-', 'Cl-', 'Na+(aq)', 'H2O': the sign is the last character (before an optional '(aq)'), a
    digit 2-4 directly before it is the charge number unless the text before the sign is itself a known formula
    ('NH4+', 'NO3-': charge 1)."""
    from chempy import Substance
    suffix = "(aq)" if key.endswith("(aq)") else ""
    body = key[:len(key) - len(suffix)]
    if body[-1] not in "+-":
        return _quiet(Substance.from_formula, key)
    sign, rest = body[-1], body[:-1]
    stems = _known_stems()
    if rest in stems:
        stem, mag = rest, 1
    elif rest[-1] in "234" and rest[:-1] in stems:
        stem, mag = rest[:-1], int(rest[-1])
    else:
        raise ValueError("not an IUPAC style key of a known ion: %r" % key)
    sub = _quiet(Substance.from_formula, stem + sign + (str(mag) if mag > 1 else "") + suffix)
    sub.name = key
    return sub


def _with_charge(f, z):
    f = dict(f)
    if f.get("electron"):
        return f
    f["charge"] = None if z == 0 else {"sign": "+" if z > 0 else "-", "mag": abs(z),
                                       "explicit1": bool(f["charge"] and f["charge"].get("explicit1")) and abs(z) == 1}
    return f


def _ion_key_z(ion):
    if "pool" in ion:
        return POOL[ion["pool"]]
    return G.text(ion["f"]), G.charge_value(ion["f"])


_small_formulas = G.formulas(max_depth=2, max_terms=3, max_hydrates=1)
_small_formulas_noel = G.formulas(max_depth=1, max_terms=2, max_hydrates=1, allow_electron=False)


@st.composite
def ionic_dict_cases(draw):
    mode = draw(st.sampled_from(MODES))
    factory = draw(st.sampled_from(FACTORIES + ["default", "default"]))
    n = draw(st.integers(1, 9))
    specs = []     # ion descriptions
    seen = set()
    for _ in range(n):
        if factory == "iupac" or draw(st.integers(0, 2)) == 0:
            ion = {"pool": draw(st.integers(0, len(POOL) - 1))}
        else:
            ion = {"f": _with_charge(draw(_small_formulas), draw(st.sampled_from(CHARGES)))}
        key, _z = _ion_key_z(ion)
        if key in seen:
            continue
        seen.add(key)
        specs.append(ion)
    zs = [_ion_key_z(s)[1] for s in specs]
    if mode == "free":
        bs = [_free_molality(draw) for _ in specs]
        extra = None
    else:
        dy = [_dyadic(draw, TRACE_JMAX if mode == "trace" else 40) for _ in specs]
        bs = [math.ldexp(nn, k) for nn, k in dy]
        extra = _balancer(draw, [(z, nn, k) for z, (nn, k) in zip(zs, dy)])

    def add_ion(z_new, b_new):
        """one more entry under a key not used so far (a G1 formula carrying the charge z_new; for the iupac factory
        an unused pool ion of that charge, else the case falls back to the table factory, which takes any key)"""
        nonlocal factory
        if factory == "iupac":
            free = [i for i, (k, z) in enumerate(POOL) if z == z_new and k not in seen]
            if free:
                i = draw(st.sampled_from(free))
                seen.add(POOL[i][0])
                pos = draw(st.integers(0, len(specs)))
                specs.insert(pos, {"pool": i})
                zs.insert(pos, z_new)
                bs.insert(pos, b_new)
                return
            factory = "table"
        f = _with_charge(draw(_small_formulas_noel), z_new)
        cnt = 7
        while G.text(f) in seen:      # deterministic repair, practically never taken
            f = _with_charge({"prefix": "", "parts": [{"n": 1, "terms": [{"el": "Og", "count": str(cnt), "primes": ""}]}],
                              "hyd": "..", "charge": None, "suffix": "", "electron": False}, z_new)
            cnt += 1
        seen.add(G.text(f))
        pos = draw(st.integers(0, len(specs)))
        specs.insert(pos, {"f": f})
        zs.insert(pos, z_new)
        bs.insert(pos, b_new)

    if extra is not None or len(specs) < 2:
        add_ion(*(extra if extra is not None else (draw(st.sampled_from(CHARGES)), 1.0)))
    if mode == "perturbed":
        bs = [b for _, b in _perturb(draw, list(zip(zs, bs)))]
    elif mode == "trace":
        add_ion(*_trace_ion(draw, bs))
    for s, b in zip(specs, bs):
        s["b"] = b
    case = {"mode": mode, "ions": specs, "unit": draw(st.sampled_from(MOLALITY_UNITS)),
            "substances": draw(st.sampled_from(["none", "str", "dict", "synthetic"] if factory == "default"
                                               else ["none", "str"])),
            "factory": factory}
    case.update(_variants(draw, len(specs)))
    return case


def check_ionic_dict(case, ctx):
    from collections import OrderedDict
    from chempy.electrolytes import ionic_strength
    from chempy import Substance
    keys, zs, bs = [], [], []
    for ion in case["ions"]:
        k, z = _ion_key_z(ion)
        keys.append(k)
        zs.append(int(z))
        bs.append(float(ion["b"]))
    n = len(keys)
    if len(set(keys)) != n:
        ctx.skip("duplicate_keys")       # only reachable through a hand-written replay file
        return
    unit = case["unit"]
    with_units = unit != "none"
    smode = case["substances"]
    factory = case.get("factory", "default")
    if factory != "default" and smode not in ("none", "str"):
        ctx.skip("factory_not_consulted")  # a ready mapping never goes through the factory; hand-written replay only
        return
    if factory == "iupac" and not all("pool" in ion for ion in case["ions"]):
        ctx.skip("iupac_factory_needs_pool_ions")
        return
    ctx.label("mode=" + case["mode"], "unit=" + unit, "substances=" + smode, "n=%d" % min(n, 10), _spread_label(bs),
              "factory=" + factory)
    ctx.label(*["src=" + ("pool" if "pool" in ion else "g1") for ion in case["ions"]])
    if any(z == 0 for z in zs):
        ctx.label("has_neutral_species")
    ctx.nontrivial(_nontrivial_ions(bs, zs))
    if smode == "synthetic" or factory == "table":
        names = ["S%d" % i for i in range(n)]
    elif factory == "iupac":
        names = [iupac_key(k) for k in keys]
    else:
        names = keys
    fact = MOLALITY_FACT[unit]
    fkw = {}
    if factory == "species":
        from chempy.chemistry import Species
        fkw["substance_factory"] = lambda k: _quiet(Species.from_formula, k)
    elif factory == "iupac":
        fkw["substance_factory"] = iupac_factory
    elif factory == "table":
        table = dict(zip(names, zs))
        fkw["substance_factory"] = lambda k: Substance(k, composition=({0: table[k]} if table[k] else {}))

    def run(tag, order, bs_):
        uo = _pq_unit(unit) if with_units else None
        d = OrderedDict((names[i], bs_[i] * uo if with_units else bs_[i]) for i in order)
        kw = dict(fkw)
        if smode == "str":
            kw["substances"] = " ".join(names)             # declaration order, not the order of the mapping
        elif smode == "dict":
            kw["substances"] = {k: _quiet(Substance.from_formula, k) for k in names}
        elif smode == "synthetic":
            kw["substances"] = {nm: Substance(nm, composition=({0: z, 1: 1} if z else {1: 1})) for nm, z in zip(names, zs)}
        if tag == "base" and smode == "none":
            d = dict(d)
        got, nwarn = _call(ionic_strength, d, **kw)
        return judge_ionic(ctx, tag, got, nwarn, [Fraction(bs_[i]) * fact for i in order], [zs[i] for i in order], with_units)

    ident = list(range(n))
    base = run("base", ident, bs)
    v = run("permuted", [int(i) for i in case["perm"]], bs)
    _related(ctx, "not_permutation_invariant", base, v)
    c2 = math.ldexp(1.0, int(case["scale2"]))
    v = run("scaled_pow2", ident, [b * c2 for b in bs])
    _related(ctx, "not_linear", base, v, c2)
    c = float(case["scale"])
    v = run("scaled", ident, [b * c for b in bs])
    _related(ctx, "not_linear", base, v, c)


# -- batches: array-valued molalities -------------------------------------------------------------------------------
# Every molality may be a numpy array over samples (a titration series evaluated in one call).  Accepted by the
# unchanged tree in every input form: list / tuple of 1-D arrays, one 2-D ndarray (ions x samples), each plain or times a
# molality unit, and the dict form (arrays as values; substances None, a string or a mapping).  The result is the array
# of per-sample ionic strengths; the warning concerns the call: issued iff at least one sample is not neutral.
# Construction: one exactly neutral base set in integers N_i * 2^kmin (major ions n*2^-j, j <= 20, plus the balancing
# ion); a neutral sample is m * N_i (m 1..7), optionally shifted by a neutral pair (+q|z_j| on a cation i, +q|z_i| on an
# anion j), times 2^(kmin+s): all integers stay below 2^40, so every float partial sum of b*z is exact and the net is
# exactly 0.  Unbalanced samples: the dominant ion times 1+10^-x ('perturbed'), 10^-x of the largest molality added to
# any charged ion ('minor', x 0..11.5), or log-uniform floats ('free').  Each sample is classified from its actual
# floats with Fractions exactly as for the scalar calls (_classify).
BATCH_FORMS = ["list", "tuple", "ndarray2d", "dict", "dict_str", "dict_mapping"]
SAMPLE_KINDS = ["neutral", "perturbed", "neutral", "minor", "free"]


@st.composite
def ionic_batch_cases(draw):
    n = draw(st.integers(1, 6))
    ions = []
    for _ in range(n):
        nn, k = _dyadic(draw, TRACE_JMAX)
        ions.append((draw(st.sampled_from(CHARGES)), nn, k))
    kmin = min(k for _, _, k in ions)
    zs = [z for z, _, _ in ions]
    ints = [nn * 2 ** (k - kmin) for _, nn, k in ions]
    N = sum(z * v for z, v in zip(zs, ints))
    if N != 0:
        d = draw(st.sampled_from([d for d in (1, 2, 4, 3) if abs(N) % d == 0]))
        pos = draw(st.integers(0, len(zs)))
        zs.insert(pos, -d if N > 0 else d)
        ints.insert(pos, abs(N) // d)
    elif len(zs) < 2:
        zs.append(0)
        ints.append(1)
    cations = [i for i, z in enumerate(zs) if z > 0]
    anions = [i for i, z in enumerate(zs) if z < 0]
    samples, kinds = [], []
    for _ in range(draw(st.integers(2, 5))):
        kind = draw(st.sampled_from(SAMPLE_KINDS))
        m = draw(st.integers(1, 7))
        s = draw(st.integers(-20, 10))
        vals = [m * v for v in ints]
        if cations and anions and draw(st.booleans()):
            i, j, q = draw(st.sampled_from(cations)), draw(st.sampled_from(anions)), draw(st.integers(1, 64))
            vals[i] += q * abs(zs[j])
            vals[j] += q * abs(zs[i])
        bs = [math.ldexp(v, kmin + s) for v in vals]
        if kind == "perturbed":
            bs = [b for _, b in _perturb(draw, list(zip(zs, bs)))]
        elif kind == "minor" and (cations or anions):
            idx = draw(st.sampled_from(cations + anions))
            bs[idx] = bs[idx] + max(bs) * 10.0 ** (-draw(st.floats(0, 11.5, allow_nan=False)))
        elif kind == "free":
            bs = [_free_molality(draw) for _ in bs]
        samples.append(bs)
        kinds.append(kind)
    return {"zs": zs, "samples": samples, "kinds": kinds, "form": draw(st.sampled_from(BATCH_FORMS)),
            "unit": draw(st.sampled_from(MOLALITY_UNITS))}


def check_ionic_batch(case, ctx):
    import numpy as np
    from collections import OrderedDict
    from chempy.electrolytes import ionic_strength
    from chempy import Substance
    zs = [int(z) for z in case["zs"]]
    samples = [[float(b) for b in smp] for smp in case["samples"]]
    n, K = len(zs), len(samples)
    unit, form = case["unit"], case["form"]
    with_units = unit != "none"
    fact = MOLALITY_FACT[unit]
    refs = [_reference([Fraction(b) * fact for b in smp], zs) for smp in samples]
    classes = [_classify(net, absum) for _, net, absum in refs]
    kinds = sorted(set("neutral" if c == "neutral" else "unbalanced" if c == "nonneutral" else "grey" for c in classes))
    ctx.label("form=" + form, "unit=" + unit, "samples=%d" % K, "n=%d" % min(n, 10), "batch=" + "+".join(kinds))
    ctx.nontrivial(len(kinds) >= 2 and n >= 3)
    cols = [np.array([smp[i] for smp in samples], dtype=float) for i in range(n)]      # one array per ion
    uo = _pq_unit(unit) if with_units else None
    kw = {}
    if form in ("list", "tuple"):
        mol = [c * uo for c in cols] if with_units else cols
        args = (tuple(mol) if form == "tuple" else mol, tuple(zs) if form == "tuple" else list(zs))
    elif form == "ndarray2d":
        arr = np.array(cols, dtype=float)
        args = (arr * uo if with_units else arr, np.array(zs, dtype=int))
    else:
        # keys: an unused ion of the pool carrying the charge, else a synthetic name resolved through a substances mapping
        keys, used, synthetic = [], set(), False
        for i, z in enumerate(zs):
            free = [k for k, zz in POOL if zz == z and k not in used]
            if free and form != "dict_mapping":
                keys.append(free[0])
                used.add(free[0])
            else:
                keys.append("X%d" % i)
                synthetic = True
        args = (OrderedDict((k, c * uo if with_units else c) for k, c in zip(keys, cols)),)
        if synthetic:
            kw["substances"] = {k: (Substance(k, composition=({0: z} if z else {})) if k.startswith("X") else
                                    _quiet(Substance.from_formula, k)) for k, z in zip(keys, zs)}
        elif form == "dict_str":
            kw["substances"] = " ".join(keys)
    got, nwarn = _call(ionic_strength, *args, **kw)
    # values: per sample, same tolerance and reasoning as judge_ionic
    try:
        mags = np.ravel(np.asarray(got.magnitude if hasattr(got, "magnitude") else got, dtype=float))
        probe = si_of(got.units) if hasattr(got, "dimensionality") else (1.0, {})
    except Exception:  # noqa
        mags, probe = None, None
    if mags is None or probe is None or len(mags) != K:
        return ctx.fail("batch_result_shape", got=repr(got)[:200], samples=K)
    factor, dims = probe
    if not _same_dims(dims, DIM_MOLALITY if with_units else DIM_NONE):
        return ctx.fail("ionic_strength_dimension:batch", got=repr(got)[:200], dims=dims)
    for j, (I, _net, _absum) in enumerate(refs):
        val = float(mags[j]) * factor
        ok = (val == 0) if I == 0 else (math.isfinite(val) and abs(Fraction(val) - I) <= I * Fraction(1, 10 ** 12))
        if not ok:
            return ctx.fail("ionic_strength_value:batch", sample=j, got=val, expected=float(I), zs=zs)
    # warning: about the whole call
    if all(c == "neutral" for c in classes):
        if nwarn:
            ctx.fail("warning_on_neutral:batch", nwarn=nwarn, zs=zs)
    elif any(c == "nonneutral" for c in classes):
        if not nwarn:
            rel = [float(abs(net) / absum) if absum else 0.0 for _, net, absum in refs]
            ctx.fail("no_warning_on_nonneutral:batch", rel_net=rel, zs=zs, classes=classes)


# ---------------------------------------------------------------------------
# Debye-Hueckel A and B
# ---------------------------------------------------------------------------

def A_own(eps, T, rho, b0=1.0):
    return FARADAY ** 3 / (4 * math.pi * N_AVO) * math.sqrt(rho * b0 / (2 * (EPS_0 * eps * K_BOLTZ * N_AVO * T) ** 3))


def B_own(eps, T, rho, b0=1.0):
    return FARADAY * math.sqrt(2 * rho * b0 / (eps * EPS_0 * R_GAS * T))


def _point(draw):
    return {"eps": draw(st.floats(5, 100, allow_nan=False)), "T": draw(st.floats(250, 650, allow_nan=False)),
            "rho": draw(st.floats(500, 1500, allow_nan=False)),
            "b0": 10.0 ** draw(st.floats(-1, 1, allow_nan=False))}


@st.composite
def dh_cases(draw):
    p1 = _point(draw)
    p2 = _point(draw)
    mask = draw(st.lists(st.sampled_from(["T", "eps", "rho", "b0"]), min_size=1, max_size=4, unique=True))
    for k in ("eps", "T", "rho", "b0"):
        if k not in mask:
            p2[k] = p1[k]
    b0_form = draw(st.sampled_from(B0_FORMS + ["quantity"]))
    return {"p1": p1, "p2": p2, "varied": sorted(mask),
            "b0_form": b0_form, "b0_keyword": draw(st.booleans()),
            "default_b0": b0_form != "quantity",               # b0 = 1 mol/kg (omitted or the plain int 1) in every path
            "T_unit": draw(st.sampled_from(list(T_UNITS))),
            "rho_unit": draw(st.sampled_from(list(RHO_UNITS))),
            "b0_unit": draw(st.sampled_from(list(B0_UNITS))),
            "const_units_kw": draw(st.booleans())}


# The forms in which the optional reference molality b0 can be handed over (decided by calling the unchanged tree):
#   omitted   every path: 1 mol/kg
#   int1      the plain integer 1, positionally or as b0=1: the numeric path reads it as 1 mol/kg; with units=... given
#             (with or without constants=) the code recognises "the reference molality was left at 1" and attaches
#             mol/kg, so A stays dimensionless and B in 1/m - the documented default "(default: 1)" spelt out
#   quantity  a molality in mol/kg | molal | mmol/g | mmol/kg on the units / constants paths (the only form that works
#             with constants= alone, no units=), the SI float on the numeric path
# Not generated: a plain float (1.0, 0.5 ...) together with units=/constants= - the unchanged tree leaves it without a
# unit (A comes out in kg**0.5/mol**0.5), i.e. plain numbers for dimensional arguments are not supported in units mode
# except for the int 1; likewise omitted / int 1 with constants= but no units=.
B0_FORMS = ["quantity", "omitted", "int1"]


def _b0_form(case):
    return case.get("b0_form") or ("omitted" if case["default_b0"] else "quantity")     # older replay files


def _dh_paths(case, p, which):
    """Evaluate chempy's A or B at point p on the three paths -> {path: result}."""
    from chempy import electrolytes as el
    from chempy.units import default_units as u, default_constants as consts
    fn = getattr(el, which)
    form = _b0_form(case)
    dflt = form != "quantity"
    Tm = p["T"] / T_UNITS[case["T_unit"]]
    rm = p["rho"] / RHO_UNITS[case["rho_unit"]]
    bm = p["b0"] / B0_UNITS[case["b0_unit"]]
    Tq = Tm * _pq_unit(case["T_unit"])
    rq = rm * _pq_unit(case["rho_unit"])
    bq = bm * _pq_unit(case["b0_unit"])
    # effective SI values actually handed over (magnitude times own factor)
    eff = {"eps": p["eps"], "T": Tm * T_UNITS[case["T_unit"]], "rho": rm * RHO_UNITS[case["rho_unit"]],
           "b0": 1.0 if dflt else bm * B0_UNITS[case["b0_unit"]]}
    out = {}
    if form == "int1":
        one = 1      # the plain Python int, not a float and not a numpy integer
        if case.get("b0_keyword"):
            out["numeric"] = fn(p["eps"], eff["T"], eff["rho"], b0=one)
            out["units"] = fn(p["eps"], Tq, rq, b0=one, units=u)
        else:
            out["numeric"] = fn(p["eps"], eff["T"], eff["rho"], one)
            out["units"] = fn(p["eps"], Tq, rq, one, units=u)
        out["constants"] = fn(p["eps"], Tq, rq, b0=one, constants=consts, units=u)
    elif dflt:
        out["numeric"] = fn(p["eps"], eff["T"], eff["rho"])
        out["units"] = fn(p["eps"], Tq, rq, units=u)
        out["constants"] = fn(p["eps"], Tq, rq, constants=consts, units=u)
    else:
        out["numeric"] = fn(p["eps"], eff["T"], eff["rho"], eff["b0"])
        out["units"] = fn(p["eps"], Tq, rq, bq, units=u)
        if case["const_units_kw"]:
            out["constants"] = fn(p["eps"], Tq, rq, b0=bq, constants=consts, units=u)
        else:
            out["constants"] = fn(p["eps"], Tq, rq, b0=bq, constants=consts)
    return out, eff


def check_dh(case, ctx):
    form = _b0_form(case)
    ctx.label("T_unit=" + case["T_unit"], "rho_unit=" + case["rho_unit"],
              "b0=" + form if form != "quantity" else "b0_unit=" + case["b0_unit"], "varied=" + "+".join(case["varied"]))
    ctx.nontrivial(case["T_unit"] != "K" or case["rho_unit"] != "kg/m3" or
                   (form == "quantity" and case["b0_unit"] == "mmol/kg"))
    for which, own, want_dims in (("A", A_own, DIM_NONE), ("B", B_own, DIM_PER_M)):
        vals = []
        for p in (case["p1"], case["p2"]):
            res, eff = _quiet(_dh_paths, case, p, which)
            ref = own(eff["eps"], eff["T"], eff["rho"], eff["b0"])
            v = {}
            for path in ("numeric", "units", "constants"):
                r = si_of(res[path])
                if r is None:
                    ctx.fail("%s_unreadable:%s" % (which, path), got=repr(res[path])[:200])
                    return
                # the numeric path returns a bare number (documented: dimensionless / m**-1)
                if not _same_dims(r[1], DIM_NONE if path == "numeric" else want_dims):
                    ctx.fail("%s_dimension:%s" % (which, path), got=repr(res[path])[:200], dims=r[1])
                    return
                v[path] = r[0]
                # own CODATA-2018 formula vs any path: the statement's 1e-5 (vintage differences are <= 3e-6)
                if not abs(r[0] - ref) <= 1e-5 * ref:
                    ctx.fail("%s_formula:%s" % (which, path), got=r[0], expected=ref, point=eff)
                    return
            for a, b in (("numeric", "constants"), ("numeric", "units"), ("units", "constants")):
                if not abs(v[a] - v[b]) <= 1e-5 * abs(v[a]):
                    ctx.fail("%s_paths_disagree:%s_vs_%s" % (which, a, b), first=v[a], second=v[b], point=eff)
                    return
            vals.append((v, eff))
        # exponent structure inside each path: the constant cancels in the ratio, so only float rounding remains
        # (a dozen operations and unit rescalings, ~1e-15): 1e-9 relative.
        (v1, e1), (v2, e2) = vals
        if which == "A":
            ratio = math.sqrt(e1["rho"] * e1["b0"] / (e2["rho"] * e2["b0"])) * (e2["T"] * e2["eps"] / (e1["T"] * e1["eps"])) ** 1.5
        else:
            ratio = math.sqrt(e1["rho"] * e1["b0"] * e2["T"] * e2["eps"] / (e2["rho"] * e2["b0"] * e1["T"] * e1["eps"]))
        for path in ("numeric", "units", "constants"):
            got = v1[path] / v2[path]
            if not abs(got - ratio) <= 1e-9 * ratio:
                ctx.fail("%s_exponents:%s" % (which, path), got_ratio=got, expected_ratio=ratio, varied=case["varied"])
                return


# ---------------------------------------------------------------------------
# log gamma
# ---------------------------------------------------------------------------

# the linear coefficient C on a 1e-3 grid in -1..1 (no subnormal values: their products lose relative precision,
# which says nothing about the formulas)
_coefficient_C = st.integers(-1000, 1000).map(lambda i: i / 1000.0)


def _ionic_strength_value(draw):
    if draw(st.integers(0, 19)) == 19:
        return 0.0
    return 10.0 ** draw(st.floats(-12, 2, allow_nan=False))


@st.composite
def gamma_cases(draw):
    units = draw(st.integers(0, 2)) == 2
    c = {"IS": _ionic_strength_value(draw), "z": draw(st.sampled_from(CHARGES)),
         "A": 10.0 ** draw(st.floats(-0.5, 2.3, allow_nan=False)),
         "a": 10.0 ** draw(st.floats(0, 1, allow_nan=False)) * 1e-10,
         "B": 10.0 ** draw(st.floats(8.7, 10.7, allow_nan=False)),
         "C": draw(st.one_of(st.none(), _coefficient_C)),
         "I0": draw(st.one_of(st.none(), st.floats(-1, 1, allow_nan=False).map(lambda x: 10.0 ** x))),
         "units": None}
    if units:
        c["units"] = {"IS": draw(st.sampled_from(MOLALITY_UNITS[1:])), "I0": draw(st.sampled_from(MOLALITY_UNITS[1:])),
                      "a": draw(st.sampled_from(["none"] + list(LEN_UNITS)))}
        if c["I0"] is None:
            c["I0"] = 1.0
    return c


def _mp():
    import mpmath
    mpmath.mp.dps = 40
    return mpmath


def _gamma_terms(IS, I0, z, A, a, B, C):
    """exact-ish (40 digit) values of the three formulas and the sum of |terms| of each."""
    mp = _mp()
    r = mp.mpf(IS) / mp.mpf(I0)
    s = mp.sqrt(r)
    A, B, a = mp.mpf(A), mp.mpf(B), mp.mpf(a)
    lim = -A * z * z * s
    ext_dh = -A * z * z * s / (1 + B * a * s)
    return r, s, lim, ext_dh


def _read_dimensionless(ctx, what, got):
    r = si_of(got)
    if r is None:
        ctx.fail("log_gamma_unreadable:" + what, got=repr(got)[:200])
        return None
    if not _same_dims(r[1], DIM_NONE):
        ctx.fail("log_gamma_dimension:" + what, got=repr(got)[:200], dims=r[1])
        return None
    return r[0]


def _close(got, exp, scale, rel=1e-12):
    """|got - exp| <= rel * scale, scale = sum of the absolute values of the terms of the formula (cancellation
    between the Debye-Hueckel term and the linear term C*I); the evaluation is a handful of float operations
    (~1e-15 each, plus unit rescalings), 1e-12 leaves three decades."""
    if scale == 0:
        return got == 0
    return abs(_mp().mpf(got) - exp) <= rel * scale


def check_gamma(case, ctx):
    from chempy import electrolytes as el
    z, A = int(case["z"]), float(case["A"])
    un = case.get("units")
    IS_si, a_si, B_si = float(case["IS"]), float(case["a"]), float(case["B"])
    C = case["C"]
    kwC = {} if C is None else {"C": C}
    if un:
        fIS, fI0 = float(MOLALITY_FACT[un["IS"]]), float(MOLALITY_FACT[un["I0"]])
        IS_m, I0_m = IS_si / fIS, float(case["I0"]) / fI0
        IS_eff, I0_eff = IS_m * fIS, I0_m * fI0
        IS_arg, I0_arg = IS_m * _pq_unit(un["IS"]), I0_m * _pq_unit(un["I0"])
        if un["a"] == "none":
            a_arg, B_arg, a_eff = a_si, B_si, a_si
        else:
            import quantities as pq
            a_m = a_si / LEN_UNITS[un["a"]]
            a_arg, B_arg, a_eff = a_m * _pq_unit(un["a"]), B_si / pq.m, a_m * LEN_UNITS[un["a"]]
        kwI = {"I0": I0_arg}
    else:
        IS_eff, IS_arg, a_arg, B_arg, a_eff = IS_si, IS_si, a_si, B_si, a_si
        I0_eff = 1.0 if case["I0"] is None else float(case["I0"])
        kwI = {} if case["I0"] is None else {"I0": I0_eff}
    ctx.label("units" if un else "plain", "I=0" if IS_si == 0 else "I>0", "C=default" if C is None else "C=given",
              "I0=default" if not kwI else "I0=given", "|z|=%d" % abs(z))
    if un:
        ctx.label("a_unit=" + un["a"], "IS_unit=%s/I0_unit=%s" % (un["IS"], un["I0"]))
    ctx.nontrivial(abs(z) >= 2 and IS_si > 0)
    r, s, lim, ext_dh = _gamma_terms(IS_eff, I0_eff, z, A, a_eff, B_si, C)

    def call(name, fn, *a, **k):
        return _read_dimensionless(ctx, name, _quiet(fn, *a, **k))

    # limiting
    g_lim = call("limiting", el.limiting_log_gamma, IS_arg, z, A, **kwI)
    if g_lim is None:
        return
    if not _close(g_lim, lim, abs(lim)):
        ctx.fail("limiting_formula", got=g_lim, expected=float(lim))
        return
    # extended, C default 0
    Ce = 0.0 if C is None else C
    g_ext = call("extended", el.extended_log_gamma, IS_arg, z, a_arg, A, B_arg, **dict(kwC, **kwI))
    if g_ext is None:
        return
    exp = ext_dh + Ce * r
    if not _close(g_ext, exp, abs(ext_dh) + abs(Ce * r)):
        ctx.fail("extended_formula", got=g_ext, expected=float(exp))
        return
    # davies, C default -0.3
    Cd = -0.3 if C is None else C
    g_dav = call("davies", el.davies_log_gamma, IS_arg, z, A, **dict(kwC, **kwI))
    if g_dav is None:
        return
    mp = _mp()
    t1 = -mp.mpf(A) * z * z * s / (1 + s)
    t2 = -mp.mpf(A) * z * z * mp.mpf(Cd) * r
    if not _close(g_dav, t1 + t2, abs(t1) + abs(t2)):
        ctx.fail("davies_formula", got=g_dav, expected=float(t1 + t2))
        return
    # limits
    if IS_si == 0:
        for nm, g in (("limiting", g_lim), ("extended", g_ext), ("davies", g_dav)):
            if g != 0:
                ctx.fail("nonzero_at_zero_ionic_strength:" + nm, got=g)
                return
    # extended (C = 0) -> limiting as the ion-size term vanishes: 0 <= (ext - lim)/|lim| <= x = B a sqrt(I/I0),
    # because 1 - x <= 1/(1+x) <= 1; evaluated at a, a/1e3, a/1e6 and a = 0 (where it must coincide to rounding).
    if lim != 0:
        prev = None
        for shrink in (1.0, 1e-3, 1e-6, 0.0):
            a_k = a_arg * shrink
            g = call("extended", el.extended_log_gamma, IS_arg, z, a_k, A, B_arg, **kwI)
            if g is None:
                return
            x = mp.mpf(B_si) * mp.mpf(a_eff) * shrink * s
            dev = (mp.mpf(g) - lim) / abs(lim)
            if not (-1e-12 <= dev <= x * (1 + mp.mpf(1e-9)) + 1e-12):
                ctx.fail("extended_does_not_reduce_to_limiting", a_factor=shrink, deviation=float(dev), bound=float(x))
                return
            if prev is not None and dev > prev + 1e-12:
                ctx.fail("extended_not_monotone_in_ion_size", a_factor=shrink, deviation=float(dev), previous=float(prev))
                return
            prev = dev


# ---------------------------------------------------------------------------
# activity products
# ---------------------------------------------------------------------------

@st.composite
def activity_cases(draw):
    n = draw(st.integers(1, 5))
    return {"IS": _ionic_strength_value(draw),
            "stoich": [draw(st.integers(-3, 3)) for _ in range(n)],
            "z": [draw(st.sampled_from(CHARGES)) for _ in range(n)],
            "a": [10.0 ** draw(st.floats(0, 1, allow_nan=False)) * 1e-10 for _ in range(n)],
            "c": [_free_molality(draw) for _ in range(n)],
            "T": draw(st.floats(250, 650, allow_nan=False)), "eps": draw(st.floats(5, 100, allow_nan=False)),
            "rho": draw(st.floats(500, 1500, allow_nan=False)),
            "C": draw(st.one_of(st.none(), _coefficient_C))}


def _judge_product(ctx, name, got, L, S):
    """got must be exp(L).  Compared in the log domain: |ln got - L| <= 1e-5*S + 1e-12 where S = sum |nu_i| (|terms of
    ln gamma_i|): the reference uses the own constants, which differ from chempy's A and B by <= 3e-6 (stated
    tolerance of the A/B clause: 1e-5); 1e-12 absolute covers exp/log rounding near gamma = 1."""
    try:
        g = float(got)
    except Exception:  # noqa
        ctx.fail("activity_product_unreadable:" + name, got=repr(got)[:200])
        return
    L = float(L)
    S = float(S)
    if L < -690 or L > 690:
        ctx.label("exp_out_of_range")
        if L < -760 and g != 0.0:
            ctx.fail("activity_product:" + name, got=g, expected_ln=L)
        elif L > 720 and g != float("inf"):
            ctx.fail("activity_product:" + name, got=g, expected_ln=L)
        return
    if not (g > 0) or math.isinf(g) or abs(math.log(g) - L) > 1e-5 * S + 1e-12:
        ctx.fail("activity_product:" + name, got=g, expected=math.exp(L), expected_ln=L)


def check_activity(case, ctx):
    from chempy import electrolytes as el
    mp = _mp()
    nu = [int(x) for x in case["stoich"]]
    zs = [int(x) for x in case["z"]]
    as_ = [float(x) for x in case["a"]]
    cs = [float(x) for x in case["c"]]
    T, eps, rho, C = float(case["T"]), float(case["eps"]), float(case["rho"]), case["C"]
    A = mp.mpf(A_own(eps, T, rho))
    B = mp.mpf(B_own(eps, T, rho))
    n = len(nu)
    ctx.label("n=%d" % n, "C=default" if C is None else "C=given", "I=0" if case["IS"] == 0 else "I>0")
    ctx.nontrivial(n >= 2 and len({abs(z) for z, v in zip(zs, nu) if v}) >= 2 and case["IS"] > 0)

    def sums(IS, Cext, Cdav):
        r = mp.mpf(IS)
        s = mp.sqrt(r)
        out = {}
        L = S = mp.mpf(0)
        for v, z in zip(nu, zs):
            t = -A * z * z * s
            L += v * t
            S += abs(v * t)
        out["limiting"] = (L, S)
        L = S = mp.mpf(0)
        for v, z, a in zip(nu, zs, as_):
            t1 = -A * z * z * s / (1 + B * mp.mpf(a) * s)
            t2 = mp.mpf(Cext) * r
            L += v * (t1 + t2)
            S += abs(v) * (abs(t1) + abs(t2))
        out["extended"] = (L, S)
        L = S = mp.mpf(0)
        for v, z in zip(nu, zs):
            t1 = -A * z * z * s / (1 + s)
            t2 = -A * z * z * mp.mpf(Cdav) * r
            L += v * (t1 + t2)
            S += abs(v) * (abs(t1) + abs(t2))
        out["davies"] = (L, S)
        return out

    IS = float(case["IS"])
    kwC = {} if C is None else {"C": C}
    ref = sums(IS, 0.0 if C is None else C, -0.3 if C is None else C)
    _judge_product(ctx, "limiting", _quiet(el.limiting_activity_product, IS, nu, zs, T, eps, rho), *ref["limiting"])
    _judge_product(ctx, "extended", _quiet(el.extended_activity_product, IS, nu, zs, as_, T, eps, rho, **kwC), *ref["extended"])
    _judge_product(ctx, "davies", _quiet(el.davies_activity_product, IS, nu, zs, as_, T, eps, rho, **kwC), *ref["davies"])
    # callable classes: ionic strength from the molalities c with the charges z (exact reference with Fractions)
    I_c = float(sum((Fraction(c) * z * z for c, z in zip(cs, zs)), Fraction(0)) / 2)
    refc = sums(I_c, 0.0 if C is None else C, 0.0)
    got = _quiet(el.LimitingDebyeHuckelActivityProduct(nu, zs, T, eps, rho), cs)
    _judge_product(ctx, "LimitingDebyeHuckelActivityProduct", got, *refc["limiting"])
    args = (zs, as_, T, eps, rho) + (() if C is None else (C,))
    got = _quiet(el.ExtendedDebyeHuckelActivityProduct(nu, *args), cs)
    _judge_product(ctx, "ExtendedDebyeHuckelActivityProduct", got, *refc["extended"])


SUBCHECKS = [
    SubCheck("ionic_list", check_ionic_list, strategy=ionic_list_cases(), quick=1600, thorough=120000,
             rule="list/tuple/ndarray molalities + charges; base, permuted, split, scaled (2^s and generic) variants",
             tolerances={"value_rel": 1e-12, "relation_rel": 4e-12, "nonneutral_min_rel_net": 1e-12}),
    SubCheck("ionic_dict", check_ionic_dict, strategy=ionic_dict_cases(), quick=500, thorough=30000,
             rule="mapping formula -> molality; substances None / string / dict of Substance / synthetic Substance objects; "
                  "substance_factory default / Species.from_formula / IUPAC-key reader / table lookup (None and string forms)",
             tolerances={"value_rel": 1e-12, "relation_rel": 4e-12, "nonneutral_min_rel_net": 1e-12}),
    SubCheck("ionic_batch", check_ionic_batch, strategy=ionic_batch_cases(), quick=600, thorough=30000,
             rule="array-valued molalities: 2-5 samples per call (neutral / perturbed / minor-ion / free), list / tuple / 2-D "
                  "ndarray / dict forms, plain or with units; per-sample value, warning iff some sample is not neutral",
             tolerances={"value_rel": 1e-12, "nonneutral_min_rel_net": 1e-12}),
    SubCheck("dh_constants", check_dh, strategy=dh_cases(), quick=500, thorough=24000,
             rule="A and B at two points on the numeric, units= and constants-object paths; b0 omitted, the plain int 1 "
                  "(positional / keyword) or a molality quantity",
             tolerances={"paths_rel": 1e-5, "own_formula_rel": 1e-5, "exponent_ratio_rel": 1e-9}),
    SubCheck("log_gamma", check_gamma, strategy=gamma_cases(), quick=1200, thorough=80000,
             rule="limiting/extended/davies log gamma, plain and with units on I, I0, a, B",
             tolerances={"formula_rel_to_sum_abs_terms": 1e-12}),
    SubCheck("activity", check_activity, strategy=activity_cases(), quick=800, thorough=60000,
             rule="three *_activity_product functions and two *ActivityProduct classes, 1-5 species",
             tolerances={"ln_product": "1e-5*sum|nu_i ln gamma_i terms| + 1e-12"}),
]

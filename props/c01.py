# -*- coding: utf-8 -*-
"""C01 - formula parsing yields exactly the written composition and charge; ill-formed strings are rejected."""
from fractions import Fraction

from hypothesis import strategies as st

from vlib import env  # noqa  (sys.path)
from vlib.harness import SubCheck, sut, is_err, short
from vlib import gen_formula as G
from vlib.refdata import SYMBOLS, Z_OF

PROPERTY = "C01"
LEVEL = "exploration"
RULE = ("Formula ASTs are built by construction from the grammar of the statement (118 symbols, integer/decimal "
        "counts, nested ()[]{} groups, '..'/'·' hydrate parts with leading counts, charges, radical/greek prefixes, "
        "phase suffixes, primes); chempy sees only the rendered text, the expected composition is summed from the AST "
        "with Fractions.  Non-trivial = nesting depth >= 1, or a hydrate part, or >= 3 terms with a charge; distinct by "
        "case digest.  'elements'/'pairs' enumerate the symbol table; 'reject' mutates valid formulas into the three "
        "rejection classes and requires an exception.")
ASSUMPTIONS = ["vlib/refdata.py symbol->Z table (own transcription of the IUPAC table)",
               "decimal subscripts are compared with relative tolerance 1e-9, integer results exactly (below 2**53)"]


def _parsers():
    from chempy.util.parsing import formula_to_composition
    from chempy import Substance
    return formula_to_composition, Substance


def compare_composition(ctx, got, expected, what, txt, exact=True):
    """got: mapping returned by chempy; expected: {Z: Fraction}.  exact=False (a decimal subscript is written
    somewhere, so chempy legitimately sums floats): relative tolerance 1e-9 on element counts."""
    if not isinstance(got, dict):
        ctx.fail("not_a_mapping:" + what, text=txt, got=repr(got)[:200])
        return
    g = {k: v for k, v in got.items() if not (k == 0 and v == 0)}
    e = {k: v for k, v in expected.items() if not (k == 0 and v == 0)}
    if set(g) != set(e):
        ctx.fail("keys:" + what, text=txt, got=sorted(map(repr, g)), expected=sorted(e))
        return
    for k, ev in e.items():
        gv = g[k]
        if isinstance(gv, bool) or not isinstance(gv, (int, float)):
            ctx.fail("value_type:" + what, text=txt, key=k, got=repr(gv))
            return
        if ev.denominator == 1 and abs(ev) < 2 ** 53 and (exact or k == 0):
            ok = gv == int(ev)
            if k == 0:
                ok = ok and (gv > 0) == (ev > 0)
        else:
            ok = abs(Fraction(gv) - ev) <= abs(ev) * Fraction(1, 10 ** 9)
        if not ok:
            ctx.fail("value:" + what, text=txt, key=k, got=gv, expected=str(ev))
            return


def check_valid(case, ctx):
    f2c, Substance = _parsers()
    txt = G.text(case)
    exp = G.composition(case)
    lbls, s = G.labels(case)
    ctx.label(*lbls)
    ctx.nontrivial(s["depth"] >= 1 or s["hydrate"] or (s["nterms"] >= 3 and s["charge"]))
    got = sut(f2c, txt)
    if is_err(got):
        ctx.fail("valid_formula_rejected", text=txt, error=repr(got))
        return
    compare_composition(ctx, got, exp, "formula_to_composition", txt, exact=not s["decimal"])
    sub = sut(Substance.from_formula, txt)
    if is_err(sub):
        ctx.fail("valid_formula_rejected:Substance.from_formula", text=txt, error=repr(sub))
        return
    compare_composition(ctx, sub.composition, exp, "Substance.from_formula", txt, exact=not s["decimal"])
    if sub.charge != G.charge_value(case):
        ctx.fail("charge_property", text=txt, got=sub.charge, expected=G.charge_value(case))
    # history on the same string: whatever a caller does with an earlier result, a later parse must again return
    # exactly the written composition (no state may leak between calls or between Substance instances)
    got[0] = 17
    got[999] = 1
    for k in [k for k in got if k not in (0, 999)][:1]:
        got[k] = got[k] + 5
    sub.composition[0] = -9
    again = sut(f2c, txt)
    if is_err(again):
        ctx.fail("valid_formula_rejected:second_parse", text=txt, error=repr(again))
        return
    compare_composition(ctx, again, exp, "formula_to_composition:after_earlier_result_was_modified", txt, exact=not s["decimal"])
    if again is got:
        ctx.fail("same_mapping_object_returned_twice", text=txt)
    sub2 = sut(Substance.from_formula, txt)
    if not is_err(sub2):
        compare_composition(ctx, sub2.composition, exp, "Substance.from_formula:after_earlier_result_was_modified", txt,
                            exact=not s["decimal"])
        ctx.label("reparsed")


def check_text(case, ctx):
    """Enumerated cases: {'text': str, 'comp': {Z(str): int}}."""
    f2c, Substance = _parsers()
    exp = {int(k): Fraction(v) for k, v in case["comp"].items()}
    exact = all(v.denominator == 1 for v in exp.values())
    ctx.nontrivial(len(exp) >= 1)
    ctx.label(case.get("kind", "text"))
    got = sut(f2c, case["text"])
    if is_err(got):
        ctx.fail("valid_formula_rejected", text=case["text"], error=repr(got))
        return
    compare_composition(ctx, got, exp, "formula_to_composition", case["text"], exact=exact)


def enum_elements(tier):
    for s in SYMBOLS:
        z = Z_OF[s]
        yield {"kind": "single", "text": s, "comp": {str(z): 1}}
        yield {"kind": "single_count", "text": s + "7", "comp": {str(z): 7}}
        yield {"kind": "single_group", "text": "(%s2)3" % s, "comp": {str(z): 6}}
        yield {"kind": "single_charge", "text": s + "+2", "comp": {str(z): 1, "0": 2}}
        yield {"kind": "single_hydrate", "text": "%s..2%s3" % (s, s), "comp": {str(z): 7}}


def _ambiguous_pairs():
    """Ordered pairs (a, b) whose concatenation can be tokenised in another way (e.g. C+O / Co differ only by case,
    S+i.. no; here: a+b where a + b[0].lower() would be a symbol, or a is a prefix of a longer symbol)."""
    out = []
    for a in SYMBOLS:
        for b in SYMBOLS:
            if len(a) == 1 and (a + b[0].lower()) in Z_OF:
                out.append((a, b))
    return out


def _pair_case(a, b):
    comp = {}
    comp[Z_OF[a]] = comp.get(Z_OF[a], 0) + 1
    comp[Z_OF[b]] = comp.get(Z_OF[b], 0) + 1
    comp2 = {}
    comp2[Z_OF[a]] = comp2.get(Z_OF[a], 0) + 2
    comp2[Z_OF[b]] = comp2.get(Z_OF[b], 0) + 3
    return [{"kind": "pair", "text": a + b, "comp": {str(k): v for k, v in comp.items()}},
            {"kind": "pair_counts", "text": "%s2%s3" % (a, b), "comp": {str(k): v for k, v in comp2.items()}}]


def enum_pairs(tier):
    if tier == "thorough":
        for a in SYMBOLS:
            for b in SYMBOLS:
                for c in _pair_case(a, b):
                    yield c
    else:
        amb = _ambiguous_pairs()
        seen = set(amb)
        for a, b in amb:
            for c in _pair_case(a, b):
                yield c
        # a fixed spread of the remaining pairs: every symbol appears first and second at least 6 times
        n = len(SYMBOLS)
        for i, a in enumerate(SYMBOLS):
            for j in (1, 7, 19, 43, 71, 101):
                b = SYMBOLS[(i * 5 + j) % n]
                if (a, b) not in seen:
                    seen.add((a, b))
                    for c in _pair_case(a, b):
                        yield c


def enum_limits(tier):
    """Size limits named by the quantifier ('unbounded nesting/length') and the '(cr)' state of the documented grammar."""
    br = ["()", "[]", "{}"]
    for depth in (10, 20, 30, 40, 48, 52, 56):
        # ((((H2O)2)1 ...)) with brackets of alternating kind and a multiplier 2 on every 8th level
        txt, mult = "H2O", 1
        for lvl in range(depth):
            o, c = br[lvl % 3]
            m = 2 if lvl % 8 == 0 else 1
            txt = o + txt + c + (str(m) if m != 1 else "")
            mult *= m
        yield {"kind": "deep_nesting", "depth": depth, "text": txt + "+2(aq)", "comp": {"1": 2 * mult, "8": mult, "0": 2},
               "thread": True}
    for n in (300, 600, 1200):
        yield {"kind": "long_flat", "nterms": n, "text": "CH3" + "CH2" * n + "CH3", "comp": {"6": n + 2, "1": 2 * n + 6}}
        yield {"kind": "long_flat", "nterms": n, "text": "Na2" + "SO4" * n + "..%dH2O" % 7, "comp": {"11": 2, "16": n, "8": 4 * n + 7, "1": 14}}
    for body, comp in (("NaCl", {"11": 1, "17": 1}), ("Na2CO3..10H2O", {"11": 2, "6": 1, "8": 13, "1": 20}),
                       ("Fe2(SO4)3", {"26": 2, "16": 3, "8": 12}), ("alpha-Al2O3", {"13": 2, "8": 3}), ("UO2.25", {"92": 1, "8": "9/4"})):
        # '(cr)' is a state of the documented grammar; it is not stripped as a suffix, so only uncharged formulas carry it
        yield {"kind": "state_cr", "text": body + "(cr)", "comp": comp}


def check_limit(case, ctx):
    """Like check_text, optionally in a fresh thread (shallow Python stack: the nesting a parser can take must not
    depend on how deep the harness happens to be)."""
    if not case.get("thread"):
        return check_text(case, ctx)
    import threading
    box = {}

    def run():
        try:
            check_text(case, ctx)
        except BaseException as e:  # noqa - re-raised in the calling thread
            box["exc"] = e
    t = threading.Thread(target=run)
    t.start()
    t.join()
    if "exc" in box:
        raise box["exc"]


def check_reject(case, ctx):
    f2c, Substance = _parsers()
    ctx.label(case["class"], case.get("mode", ""))
    ctx.nontrivial(True)
    got = sut(f2c, case["text"])
    if not is_err(got):
        ctx.fail("ill_formed_accepted:" + case["class"], text=case["text"], returned=short(repr(got), 200))
        return
    got = sut(Substance.from_formula, case["text"])
    if not is_err(got):
        ctx.fail("ill_formed_accepted:Substance:" + case["class"], text=case["text"],
                 returned=short(repr(got.composition), 200))


reject_cases = st.one_of(G.bad_token_formulas(), G.bad_bracket_formulas(), G.bad_charge_formulas())

SUBCHECKS = [
    SubCheck("valid", check_valid, strategy=G.formulas(max_depth=4, max_terms=6), quick=4000, thorough=0,
             rule="G1 formulas, depth<=4, <=6 terms per level"),
    SubCheck("valid_deep", check_valid, strategy=G.formulas(max_depth=8, max_terms=10, max_hydrates=3), quick=600, thorough=40000,
             rule="G1 formulas, depth<=8, <=10 terms per level, <=3 hydrate parts"),
    SubCheck("elements", check_text, enumerate=enum_elements, rule="all 118 symbols alone/with count/grouped/charged/hydrate (exhaustive)"),
    SubCheck("pairs", check_text, enumerate=enum_pairs, exhaustive=lambda tier: tier == "thorough",
             rule="ordered symbol pairs XY and X2Y3: all 118^2 in thorough; in quick every pair X,Y with len(X)=1 and "
                  "X+lower(Y[0]) a symbol (e.g. C,O vs Co) plus a fixed spread"),
    SubCheck("limits", check_limit, enumerate=enum_limits,
             rule="nesting depth 10..56 (fresh thread; the pinned tree parses up to ~60 levels under the default recursion "
                  "limit), flat formulas of 300/600/1200 counted terms, the '(cr)' state on uncharged formulas"),
    SubCheck("reject", check_reject, strategy=reject_cases, quick=3000, thorough=60000,
             rule="R1 non-element capitalised token inserted; R2 bracket deleted/mismatched/stray; R3 contradictory charge marks"),
]
SUBCHECKS[0].thorough = 80000
